package c14

// Sub-check (iv) of C14: failures of EVERY file-system operation of the WAL store, with partial effects,
// in histories that CONTINUE after the failure.
//
// The operations (enumerated from consensus/walstore and pebble/wal + pebble/record, which it drives):
//
//	Flush        [Create(NNNNNN.log) + Sync(dir)]  Write(batch) Sync(log)
//	  cleanup    os.OpenFile(prune-watermark.tmp) os.Write os.Sync os.Close os.Rename os.Open(dir)+Sync
//	             record-writer Close = Write(EOF trailer) Sync(log) Close(log)      (rotation)
//	             Remove(obsolete log)*
//	  on failure record-writer Close, then os.OpenFile(log, O_RDWR) Stat Truncate Sync Close (tail repair)
//	Close        Flush, record-writer Close (as above, + tail repair on failure), Close(dir)
//	Open         MkdirAll List Stat* [Open Read* Close](newest log; + tail repair) os.ReadFile(watermark)
//	             OpenDir Stat* [Open Read* Close](every log)
//
// What the store may do after a failed operation follows from the property statement only:
//
//	Flush reports failure    the running store shows the batch absent (it stays pending and is retried by the
//	                         next Flush) or complete; a crash image taken right then shows it absent or
//	                         complete, never partial, and opens; later flushes succeed ("does not make the log
//	                         unusable") and show every record exactly once
//	Close reports failure    the next Open succeeds and shows the pending batch absent or complete, every
//	                         acknowledged batch present, nothing of a pruned height
//	failure in the cleanup   (watermark / rotation / obsolete-file removal, after the batch was synced) same
//	                         as above; the files it leaves behind must not break any later Open
//	Open under a fault       may fail; the next Open without a fault succeeds and shows exactly the model
//	double fault             when the tail repair itself cannot run (EMFILE) the store refuses further writes:
//	                         accepted as fail-stop; Close + Open must then succeed and show absent-or-complete

import (
	"fmt"
	"strings"
	"testing"

	"pgregory.net/rapid"

	"verif/harness/internal/stats"
)

// faultExt is the per-case state of the fault-injection check.
type faultExt struct {
	fs           *faultFS
	sp           int // prune records committed in this session since the last completed cleanup (mirror of pruneRecordsSinceCleanup)
	nextOpenPlan []*fault
	// undecidedW: a Flush/Close reported failure for a batch whose only visible effect is a higher watermark; the
	// store does not reveal whether it committed it. While the batch stays pending in the model nothing depends on
	// it; whenever the model falls back to a state below it (pending records die in a crash or restart, a torn image
	// reverts to the state before a later flush) the prune is issued again (a no-op if it was durable). Never lowered.
	undecidedW   uint64
	firedKinds   map[opKind]bool
	nFaultyCalls int
	nFired       int
	nContinued   int // successful flushes of a non-empty batch after the first fired fault
	refills      int
}

// effective: records of h.pend the store really holds (appends at a pruned height and prunes at or below the
// watermark are dropped by SetWALEntry / DeleteWALEntries at once).
func (h *H) effective() (n int, prune bool) {
	for _, r := range h.pend {
		if r.height > h.view.w {
			n++
			if r.prune {
				prune = true
			}
		}
	}
	return n, prune
}

func (h *H) cleanupDue() bool {
	_, p := h.effective()
	return p && h.fx.sp+1 >= cleanupInterval
}

// noteFlushOK: a Flush of a non-empty batch was acknowledged.
func (h *H) noteFlushOK(prune, cleanupRan bool) {
	fx := h.fx
	if prune {
		fx.sp++
	}
	if cleanupRan {
		fx.sp = 0
	}
	h.maybeDurable = nil
	if len(fx.firedKinds) > 0 {
		fx.nContinued++
		for k := range fx.firedKinds {
			h.c.Label("fault-then-flush:" + k.String())
		}
	}
}

// quietFlush: acknowledged Flush without any image (prefill towards the cleanup threshold).
func (h *H) quietFlush() {
	n, prune := h.effective()
	h.op("flush(quiet)")
	if err := h.st.Flush(); err != nil {
		h.fail("flush-error", "Flush returned %v (no fault was injected)", err)
	}
	h.view, h.pend, h.last = h.view.clone().apply(h.pend), nil, nil
	if n > 0 {
		h.noteFlushOK(prune, false)
	}
}

// plainFlush: the ordinary flush of the other checks (as-is image, optional per-offset enumeration, hook images).
func (h *H) plainFlush(viaClose bool) {
	n, prune := h.effective()
	due := h.cleanupDue()
	w0 := h.nWatermarkWrites
	h.flush(viaClose)
	if n > 0 {
		h.noteFlushOK(prune, due || h.nWatermarkWrites > w0)
	}
	if viaClose {
		h.fx.sp = 0
	}
}

type cand struct {
	kind opKind
	nth  int
}

// drawPlan draws the faults of one store call. Mostly from the operations the call is expected to perform
// (so that the fault is reached; grouped by the step of the call, one group drawn first so that the rarely
// running steps - watermark, rotation, removal - get their share), sometimes from all kinds.
func (h *H) drawPlan(call string) []*fault {
	rt := h.rt
	var groups [][]cand
	group := func(weight int, cs ...cand) {
		for ; weight > 0 && len(cs) > 0; weight-- {
			groups = append(groups, cs)
		}
	}
	wal := walDirOf(h.base)
	switch call {
	case "flush", "close":
		n, _ := h.effective()
		writer := h.fx.fs.hasWriter(wal)
		due := h.cleanupDue()
		if n > 0 {
			g := []cand{{opWrite, 0}, {opSync, 0}, {opOsOpenFrom, rapid.IntRange(0, 5).Draw(rt, "fromOp")}}
			if !writer {
				g = append(g, cand{opCreate, 0}, cand{opDirSync, 0})
			}
			group(1, g...)
			if due {
				if hookAvailable {
					group(2, cand{opOsOpenTmp, 0}, cand{opOsWriteTmp, 0}, cand{opOsRename, 0}, cand{opOsDirSync, 0})
				}
				// rotation = the record writer's Close: trailer write (twice the weight: the step with a byte-level partial effect), sync, close
				group(3, cand{opWrite, 1}, cand{opWrite, 1}, cand{opSync, 1}, cand{opClose, 0})
				group(1, cand{opRemove, 0}, cand{opRemove, 1})
			}
		}
		if call == "close" {
			if n > 0 && !due {
				group(1, cand{opWrite, 1}, cand{opWrite, 1}, cand{opSync, 1}, cand{opClose, 0}) // shutdown: the record writer's Close
			} else if n == 0 && writer {
				group(1, cand{opWrite, 0}, cand{opWrite, 0}, cand{opSync, 0}, cand{opClose, 0})
			}
			group(1, cand{opDirClose, 0})
		}
	case "open":
		nf := len(takeSnap(wal).logs())
		group(1, cand{opMkdirAll, 0}, cand{opList, 0}, cand{opOpenDir, 0}, cand{opOsOpenFrom, rapid.IntRange(0, 6).Draw(rt, "fromOp")})
		group(1, cand{opStat, rapid.IntRange(0, 2*nf).Draw(rt, "statN")}, cand{opOpenRead, rapid.IntRange(0, 2*nf).Draw(rt, "openN")},
			cand{opRead, rapid.IntRange(0, 2*nf+2).Draw(rt, "readN")}, cand{opReadClose, rapid.IntRange(0, 2*nf).Draw(rt, "rcloseN")})
	}
	var plan []*fault
	nf := 1
	if rapid.IntRange(0, 3).Draw(rt, "second") == 0 {
		nf = 2
	}
	for i := 0; i < nf; i++ {
		var ft fault
		if len(groups) == 0 || rapid.IntRange(0, 5).Draw(rt, "wild") == 0 {
			lo, hi := opCreate, opDirClose
			if call == "open" {
				lo, hi = opMkdirAll, opOpenDir
			}
			ft.kind = opKind(rapid.IntRange(int(lo), int(hi)+3).Draw(rt, "kind"))
			if ft.kind > hi { // the three extra slots: os-level kinds usable in any call
				ft.kind = []opKind{opOsOpenFrom, opOsOpenTmp, opOsDirSync}[ft.kind-hi-1]
			}
			ft.nth = rapid.IntRange(0, 2).Draw(rt, "nth")
		} else {
			g := groups[rapid.IntRange(0, len(groups)-1).Draw(rt, "group")]
			c := g[rapid.IntRange(0, len(g)-1).Draw(rt, "cand")]
			ft.kind, ft.nth = c.kind, c.nth
		}
		if ft.kind.osLevel() && ft.kind != opOsOpenFrom && !hookAvailable {
			ft.kind, ft.nth = opOsOpenFrom, 0
		}
		ft.variant = rapid.IntRange(0, 5).Draw(rt, "variant")
		ft.kseed = rapid.IntRange(0, 1<<16).Draw(rt, "kseed")
		if (ft.kind == opWrite || ft.kind == opSync || ft.kind == opClose) && rapid.IntRange(0, 5).Draw(rt, "repairFails") == 0 {
			ft.emfile = true
		}
		plan = append(plan, &ft)
	}
	return plan
}

func planString(plan []*fault) string {
	var s []string
	for _, f := range plan {
		s = append(s, f.String())
	}
	return strings.Join(s, ",")
}

// account records the outcome of the plan of one store call in the labels (per-kind histogram).
// It returns whether any fault was injected and whether the tail repair may have been prevented.
func (h *H) account(call string, plan []*fault, err error) (injected, repairBlocked bool) {
	fx, c := h.fx, h.c
	es := ""
	if err != nil {
		es = err.Error()
	}
	for _, ft := range plan {
		if !ft.fired {
			c.Label("fault-not-reached:" + ft.kind.String())
			continue
		}
		injected = true
		hit := true
		switch ft.kind { // os-level kinds: the condition was set up; did the store run into it?
		case opOsOpenTmp:
			hit = strings.Contains(es, "create temp watermark")
		case opOsWriteTmp:
			hit = strings.Contains(es, "write temp watermark")
		case opOsRename:
			hit = strings.Contains(es, "replace watermark")
		case opOsDirSync:
			hit = strings.Contains(es, "sync watermark directory")
		case opOsOpenFrom:
			hit = strings.Contains(es, "too many open files")
		}
		if ft.emfile {
			if strings.Contains(es, "open WAL for repair") {
				c.Label("fault:" + opOsRepairOpen.String())
				c.Label("fault-call:" + call + ":" + opOsRepairOpen.String())
				fx.firedKinds[opOsRepairOpen] = true
			}
			repairBlocked = true
		}
		if !hit {
			c.Label("fault-armed-not-hit:" + ft.kind.String())
			continue
		}
		fx.nFired++
		fx.firedKinds[ft.kind] = true
		c.Label("fault:" + ft.kind.String())
		c.Label("fault-call:" + call + ":" + ft.kind.String())
		if err == nil {
			c.Label("fault-absorbed-by-store:" + call + ":" + ft.kind.String())
		}
		if ft.partial {
			c.Label("fault-partial:" + ft.kind.String())
		}
		if ft.phase != "" {
			c.Label("fault-phase:" + ft.kind.String() + "@" + ft.phase)
		}
	}
	if strings.Contains(es, "open WAL for repair") {
		repairBlocked = true
	}
	return injected, repairBlocked
}

// adopt continues the model on the recovered state: got is what the (re)opened store shows, allowed the
// outcomes the oracle accepts (in history order). When two accepted outcomes render the same but differ in the
// watermark, the lower one is taken and the prune is issued again (a no-op for the store if it was durable).
func (h *H) adopt(what string, got []string, err error, allowed ...*view) {
	lo, hi := -1, -1
	for i, v := range allowed {
		if err == nil && eqStrings(got, v.flat()) {
			if lo < 0 {
				lo = i
			}
			hi = i
		}
	}
	if lo < 0 {
		a, b := allowed[0], allowed[len(allowed)-1]
		h.fail(what+"-"+classify(got, a, b), "%s: the store shows %s (err %v)\n  allowed without the batch (W=%d) %s\n  allowed with the complete batch (W=%d) %s",
			what, short(got), err, a.w, short(a.flat()), b.w, short(b.flat()))
	}
	h.view, h.pend, h.last, h.maybeDurable = allowed[lo].clone(), nil, nil, nil
	h.fx.undecidedW = max(h.fx.undecidedW, allowed[hi].w)
	h.reissuePrune()
}

// reissuePrune: see faultExt.undecidedW.
func (h *H) reissuePrune() {
	if w := h.fx.undecidedW; w > h.view.w {
		h.prune(w)
		h.c.Label("watermark-undecided:prune-reissued")
	}
}

// restart: Close (its result is not judged), as-is image, Open without faults. allowed as in adopt.
func (h *H) restart(why string, allowed ...*view) {
	h.op("close+reopen[%s]", why)
	_ = h.st.Close()
	h.st = nil
	h.fx.sp = 0
	h.checkSnap("as-is after "+why, takeSnap(walDirOf(h.base)), true, allowed...)
	st, err := openStore(h.base)
	if err != nil {
		h.fail("open-error", "%s: reopening the log failed (validator cannot start): %v", why, err)
	}
	h.st = st
	got, lerr := loadAll(st)
	h.adopt("reopen-after-"+why, got, lerr, allowed...)
	h.c.Label("reopen")
}

// faultyCall runs Flush (or Close) under a drawn fault plan and applies the oracle of the file header.
func (h *H) faultyCall(viaClose bool) {
	fx, c := h.fx, h.c
	wal := walDirOf(h.base)
	call := "flush"
	if viaClose {
		call = "close"
	}
	plan := h.drawPlan(call)
	h.op("%s[faults %s]", call, planString(plan))
	a := h.view
	b := a.clone().apply(h.pend)
	sameFlat := eqStrings(a.flat(), b.flat())
	n, prune := h.effective()
	phase := "append"
	if n == 0 {
		phase = "shutdown"
	}
	fx.nFaultyCalls++
	fx.fs.arm(wal, plan, phase)
	setHook(fx.fs.onHook)
	var err error
	if viaClose {
		err = h.st.Close()
	} else {
		err = h.st.Flush()
	}
	setHook(nil)
	fx.fs.disarm()
	hooks := fx.fs.hooks
	after := takeSnap(wal)
	injected, repairBlocked := h.account(call, plan, err)
	cleanupRan := false
	for _, p := range hooks {
		if p == "rotated" {
			cleanupRan = true
		}
	}
	h.last = nil
	if err != nil && !injected {
		h.fail("flush-error", "%s returned %v although no fault was injected (plan %s not reached; calls: %v)", call, err, planString(plan), fx.fs.trace)
	}
	if err == nil {
		// acknowledged (fault not reached, or absorbed by the store): exactly B
		if injected {
			c.Label("fault-absorbed:" + call)
		}
		h.view, h.pend = b, nil
		if viaClose {
			h.st = nil
			fx.sp = 0
		} else {
			got, lerr := loadAll(h.st)
			if lerr != nil || !eqStrings(got, b.flat()) {
				h.fail("live-mismatch", "after %s[%s] = nil the live store shows %s (err %v), model %s", call, planString(plan), short(got), lerr, short(b.flat()))
			}
		}
		h.checkSnap(fmt.Sprintf("as-is after acknowledged %s[%s]", call, planString(plan)), after, true, b)
		c.Info("images_as_is")
		if n > 0 {
			h.noteFlushOK(prune, cleanupRan)
		}
		if viaClose {
			h.reopenMaybeFaulty()
		}
		return
	}
	// the call REPORTED FAILURE
	c.Label("call-failed:" + call)
	what := fmt.Sprintf("%s[%s] = %v", call, planString(plan), err)
	if viaClose {
		h.st = nil
		fx.sp = 0
		h.checkSnap("as-is after FAILED "+what, after, true, a, b)
		c.Info("images_after_failed_call")
		h.op("reopen")
		st, oerr := openStore(h.base)
		if oerr != nil {
			h.fail("open-error", "after FAILED %s: reopening the log failed (validator cannot start): %v", what, oerr)
		}
		h.st = st
		got, lerr := loadAll(st)
		h.adopt("reopen-after-failed-close", got, lerr, a, b)
		c.Label("reopen")
		return
	}
	got, lerr := loadAll(h.st)
	switch {
	case lerr == nil && !sameFlat && eqStrings(got, b.flat()):
		c.Label("after-failure:batch-committed")
		h.view, h.pend, h.maybeDurable = b, nil, nil
		if prune {
			fx.sp++
		}
		// the statement allows "absent or complete" right after a reported failure even though the running store shows the batch
		h.checkSnap("as-is after FAILED "+what+" (live store shows the batch)", after, true, a, b)
	case lerr == nil && eqStrings(got, a.flat()):
		c.Label("after-failure:batch-absent,stays-pending")
		if !sameFlat {
			h.maybeDurable = b
		} else if b.w > a.w {
			fx.undecidedW = max(fx.undecidedW, b.w)
		}
		h.checkSnap("as-is after FAILED "+what, after, true, a, b)
	default:
		h.fail("failed-flush-live-"+classify(got, a, b), "FAILED %s; live store shows %s (err %v)\n  without the batch: %s\n  with it: %s", what, short(got), lerr, short(a.flat()), short(b.flat()))
	}
	c.Info("images_after_failed_call")
	if repairBlocked {
		// fail-stop: the store may refuse every further write until it is restarted
		c.Label("repair-blocked:restart")
		a2 := h.view
		b2 := a2.clone().apply(h.pend)
		if rapid.Bool().Draw(h.rt, "flushBeforeRestart") {
			h.op("flush(after blocked repair)")
			if ferr := h.st.Flush(); ferr == nil {
				c.Label("repair-blocked:next-flush-ok")
				h.view, h.pend, h.maybeDurable = b2, nil, nil
				a2 = b2
			} else {
				c.Label("repair-blocked:next-flush-refused")
			}
			got, lerr := loadAll(h.st)
			if lerr != nil || !(eqStrings(got, a2.flat()) || eqStrings(got, b2.flat())) {
				h.fail("failed-flush-live-"+classify(got, a2, b2), "after the blocked repair the live store shows %s (err %v)\n  without the batch: %s\n  with it: %s", short(got), lerr, short(a2.flat()), short(b2.flat()))
			}
		}
		h.restart("blocked tail repair", a2, b2)
	}
}

// reopenMaybeFaulty: Open after a Close, under a fault plan in a quarter of the cases.
func (h *H) reopenMaybeFaulty() {
	if rapid.IntRange(0, 3).Draw(h.rt, "faultyOpen") == 0 {
		h.fx.nextOpenPlan = h.drawPlan("open")
	}
	h.reopen()
	h.fx.sp = 0
}

// openWithPlan is H.openFn of this check.
func (h *H) openWithPlan(base string) (store, error) {
	fx, c := h.fx, h.c
	plan := fx.nextOpenPlan
	fx.nextOpenPlan = nil
	if plan == nil {
		return openStore(base)
	}
	h.op("open[faults %s]", planString(plan))
	fx.nFaultyCalls++
	fx.fs.arm(walDirOf(base), plan, "open")
	st, err := openStore(base)
	fx.fs.disarm()
	es := ""
	if err != nil {
		es = err.Error()
	}
	injected := false
	for _, ft := range plan {
		if !ft.fired {
			c.Label("fault-not-reached:" + ft.kind.String())
			continue
		}
		if ft.kind == opOsOpenFrom && !strings.Contains(es, "too many open files") {
			c.Label("fault-armed-not-hit:" + ft.kind.String())
			injected = true // the condition existed during the call
			continue
		}
		injected = true
		fx.nFired++
		fx.firedKinds[ft.kind] = true
		c.Label("fault:" + ft.kind.String())
		c.Label("fault-call:open:" + ft.kind.String())
	}
	if err == nil {
		if injected {
			c.Label("fault-absorbed:open")
		}
		return st, nil
	}
	if !injected {
		return nil, err // the caller reports open-error
	}
	c.Label("call-failed:open")
	// "may fail; the next Open without a fault succeeds": the caller judges this second attempt
	return openStore(base)
}

const faultsRule = "vfs.Default replaced by a fault-injecting wrapper + kernel-level failures of the os-level calls (EMFILE via RLIMIT_NOFILE, EFBIG partial write via RLIMIT_FSIZE, obstructed rename), timed by hook H1. " +
	"History: (3/4 of the cases) 0-2 early sessions leaving older log files, optional far-height entry pinning the first file, 236-255 quiet prune-carrying flushes so that the cleanup (watermark, rotation, removal) is 1-20 prune records away (refilled up to 3 times after a restart or a completed cleanup); then 8-30 ops " +
	"append/prune/flush/close+reopen(1/4 under an open-time fault plan)/crash+continue(as-is or torn; 1/4 under an open-time fault plan)/FAULTY flush/FAULTY close: 1-2 faults per call drawn from the operations the call is expected to perform " +
	"(create, dir-sync, write, sync, close, remove, dir-close; os: watermark temp open/write, rename, dir sync, EMFILE from the k-th call; open: mkdirall, list, stat, open, read, close, opendir) at occurrence index 0-2, " +
	"partial effect drawn (write: nothing / strict prefix / everything; create: file exists or not; remove: gone or not; close: descriptor closed or not; sync: done or not), in 1/6 followed by EMFILE for the tail repair. " +
	"After every call: model vs live store, as-is crash image (absent or complete after a reported failure), append after recovery; the script continues (further flushes must succeed) and ends with close+reopen. " +
	"Non-trivial = at least one fault was injected and at least one non-empty flush succeeded afterwards"

func TestPropFsFaults(t *testing.T) {
	stats.Check(t, stats.Budget{Quick: 200, Thorough: 3000}, faultsRule,
		func(rt *rapid.T, c *stats.Case) {
			fs := installFaultFS()
			defer fs.uninstall()
			h := newH(rt, c)
			defer h.cleanup()
			h.fx = &faultExt{fs: fs, firedKinds: map[opKind]bool{}}
			h.openFn = h.openWithPlan
			fx := h.fx
			h.bitFlips = false
			mode := rapid.SampledFrom([]string{"plain", "cleanup", "cleanup", "cleanup"}).Draw(rt, "mode")
			// per-offset enumeration of the ordinary flushes (the other checks' job) only in a few short histories
			h.enumerate = mode == "plain" && rapid.IntRange(0, 7).Draw(rt, "enumerate") == 0
			c.Label("mode:" + mode)
			next := uint64(1) // next height to prune in the prefill

			prefill := func() {
				target := cleanupInterval - rapid.SampledFrom([]int{1, 1, 1, 1, 2, 2, 3, 5, 9, 20}).Draw(rt, "prefillGap")
				for fx.sp < target {
					next = max(next, h.view.w+1)
					if rapid.IntRange(0, 15).Draw(rt, "pa") == 0 {
						h.append(mkEntry(rapid.IntRange(0, nEntryKinds-1).Draw(rt, "kind"), next+uint64(rapid.IntRange(1, 3).Draw(rt, "dh")), 0, 2, next))
					}
					h.prune(next)
					next++
					h.quietFlush()
				}
				got, err := loadAll(h.st)
				if err != nil || !eqStrings(got, h.view.flat()) {
					h.fail("live-mismatch", "after the quiet prefill the live store shows %s (err %v), model %s", short(got), err, short(h.view.flat()))
				}
			}

			if mode == "cleanup" {
				en := h.enumerate
				h.enumerate = false
				for s, ns := 0, rapid.IntRange(0, 2).Draw(rt, "early"); s < ns; s++ {
					for j, na := 0, rapid.IntRange(1, 3).Draw(rt, "na"); j < na; j++ {
						h.append(mkEntry(rapid.IntRange(0, nEntryKinds-1).Draw(rt, "kind"), uint64(1+rapid.IntRange(0, 2).Draw(rt, "eh")), j, 1, uint64(s)))
					}
					h.quietFlush()
					h.plainFlush(true)
					h.reopen()
				}
				if rapid.IntRange(0, 2).Draw(rt, "pin") == 0 {
					h.append(mkEntry(1, 100000, 0, 1, 99))
					h.quietFlush()
					c.Label("pinned-first-file")
				}
				prefill()
				h.enumerate = en
			}

			nops := rapid.IntRange(8, 30).Draw(rt, "nops")
			for i := 0; i < nops; i++ {
				if h.st == nil {
					h.reopenMaybeFaulty()
				}
				if mode == "cleanup" && fx.sp < cleanupInterval-40 && fx.refills < 3 && rapid.Bool().Draw(rt, "refillNow") {
					// a restart (or a completed cleanup) reset the store's prune-record counter: bring the next cleanup close again
					fx.refills++
					c.Label("refill")
					prefill()
				}
				op := rapid.SampledFrom([]string{"append", "append", "append", "append", "append", "prune", "prune", "prune",
					"flush", "flush", "faultyFlush", "faultyFlush", "faultyFlush", "close", "faultyClose", "crash"}).Draw(rt, "op")
				if mode == "cleanup" {
					// steer towards the cleanup: one prune record away -> prune; due -> flush it, mostly under faults
					_, pr := h.effective()
					switch {
					case fx.sp+1 >= cleanupInterval && !pr && rapid.IntRange(0, 2).Draw(rt, "steerPrune") > 0:
						op = "prune"
					case h.cleanupDue() && rapid.IntRange(0, 3).Draw(rt, "steerFlush") > 0:
						op = rapid.SampledFrom([]string{"faultyFlush", "faultyFlush", "faultyFlush", "faultyFlush", "flush", "faultyClose"}).Draw(rt, "dueOp")
					}
				}
				switch op {
				case "append":
					h.append(h.drawEntry())
				case "prune":
					lo := uint64(0)
					if h.view.w > 0 {
						lo = h.view.w - 1
					}
					h.prune(uint64(rapid.IntRange(int(lo), int(max(h.maxH, h.view.w)+1)).Draw(rt, "ph")))
				case "flush":
					h.plainFlush(false)
				case "close":
					h.plainFlush(true)
				case "faultyFlush":
					h.faultyCall(false)
				case "faultyClose":
					h.faultyCall(true)
				case "crash":
					if rapid.IntRange(0, 3).Draw(rt, "faultyOpen") == 0 {
						fx.nextOpenPlan = h.drawPlan("open")
					}
					h.crashContinue()
					fx.sp = 0
					h.reissuePrune()
				}
			}
			if h.st == nil {
				h.reopen()
			}
			if len(h.pend) > 0 {
				h.plainFlush(false)
			}
			h.plainFlush(true)
			h.reopen()

			if fx.nFired > 0 {
				c.Label("faults:>=1")
			}
			if fx.nFired > 1 {
				c.Label("faults:>=2")
			}
			if fx.nFired > 0 && fx.nContinued > 0 {
				c.NonTrivial("fault-injected-and-flushes-continued")
			}
			ops := h.ops
			c.Sample(func() any {
				o := ops
				if len(o) > 80 {
					o = o[len(o)-80:]
				}
				return strings.Join(o, " ; ")
			})
		})
}
