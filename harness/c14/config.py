# Driver configuration for property C14 (read by /verif/checks_config.py)
PROP = dict(
        pkg="c14", level="fault_enumeration",
        technique=("crash-image enumeration over generated histories (rapid state machine vs reference model): every cut offset and every "
                   "corrupted byte of the un-acknowledged tail of the newest log file, every file-system step of the cleanup (hook H1), "
                   "real ENOSPC on a 64 KiB tmpfs"),
        level_text=("Fault enumeration: for every generated history append/prune/flush/close/reopen/crash the directory left by EVERY flush is "
                    "re-opened as it is, truncated at EVERY byte offset past the previously synced size and with EVERY such byte corrupted "
                    "(all bits; one bit), and the recovered contents are compared with an explicit model (acknowledged batches in order, "
                    "optionally the complete in-flight batch, nothing of a pruned height, no error on open); a sample of the recovered "
                    "stores must accept and retain a further append. The fault space per history is enumerated exhaustively; the histories "
                    "themselves are sampled (thousands), so absence of defects is shown for the enumerated images only. The model of a "
                    "crash is 'a prefix of the bytes written after the last fsync, or one corrupted byte in them'; bytes before the last "
                    "acknowledged flush are assumed durable and intact."),
        rule=("TestPropCrashImages: rapid history of 8-45 ops over 8 entry kinds at heights W..W+3 (W = prune watermark), prune, flush, "
              "close+reopen, crash+continue (as-is or torn image); TestPropCleanupSequence: >=256 prune-carrying flushes in one session so "
              "the watermark write, rotation and obsolete-file removal happen (with hook H1: one image per file-system step, temp watermark "
              "at every length, EOF trailer at every offset); TestPropBlockStraddle: enumerated batches placed on a 32 KiB block boundary of "
              "the record format; TestPropEnospc: genuine ENOSPC from a full 64 KiB tmpfs in log append / watermark write. Non-trivial = "
              "multi-record batch enumerated together with (append above a prune in the same file | append at a pruned height | history "
              "continued on a torn image); cleanup really ran; batch straddles a block; a Flush really failed. Distinct = SHA-256 of the "
              "rendered call sequence. info.images counts re-opened crash images."),
        assumptions=["fsync makes everything written before it durable and intact; only bytes written after the last acknowledged flush can be lost or damaged",
                     "a crash leaves a prefix of the newest log file (no reordering of writes inside one file), rename is atomic",
                     "tmpfs page-granular ENOSPC stands in for a full disk; fsync failures as such are not injected (vfs.Default is hard-wired)",
                     "consensus heights are >= 1 (consensus.go starts at chain height + 1); height 0 is never appended",
                     "Pebble's record reader/writer (CRC, chunk framing) is trusted; juno's use of it is what is checked"],
        runs=[dict(run="^Test(Prop|Known)")],
    )
