# Driver configuration for property C14 (read by /verif/checks_config.py)
PROP = dict(
        pkg="c14", level="fault_enumeration",
        technique=("crash-image enumeration over generated histories (rapid state machine vs reference model): every cut offset and every "
                   "corrupted byte of the un-acknowledged tail of the newest log file, every file-system step of the cleanup (hook H1), "
                   "real ENOSPC on a 64 KiB tmpfs, failure of every file-system operation of the store at a drawn occurrence with a drawn "
                   "partial effect (fault-injecting vfs.Default + kernel-made EMFILE/EFBIG/rename failures) in histories that continue"),
        level_text=("Fault enumeration: for every generated history append/prune/flush/close/reopen/crash the directory left by EVERY flush is "
                    "re-opened as it is, truncated at EVERY byte offset past the previously synced size and with EVERY such byte corrupted "
                    "(all bits; one bit), and the recovered contents are compared with an explicit model (acknowledged batches in order, "
                    "optionally the complete in-flight batch, nothing of a pruned height, no error on open); a sample of the recovered "
                    "stores must accept and retain a further append. The fault space per history is enumerated exhaustively; the histories "
                    "themselves are sampled (thousands), so absence of defects is shown for the enumerated images only. The model of a "
                    "crash is 'a prefix of the bytes written after the last fsync, or one corrupted byte in them'; bytes before the last "
                    "acknowledged flush are assumed durable and intact. Operation failures are sampled, not enumerated: per history 1-2 faults "
                    "per faulty call over the kinds create / dir-sync / write (nothing, strict prefix, everything) / sync / close / remove / "
                    "dir-close / mkdirall / list / stat / open / read / read-close / opendir through the vfs wrapper and watermark-temp open, "
                    "watermark-temp write (k of 35 bytes), watermark rename, directory sync, log creation and tail-repair open through the "
                    "kernel; after a reported failure the batch must be absent or complete (live store, crash image, reopen), acknowledged "
                    "data intact, pruned data dead, the next Open and the next Flush succeed (fail-stop after a failed tail repair accepted)."),
        rule=("TestPropCrashImages: rapid history of 8-45 ops over 8 entry kinds at heights W..W+3 (W = prune watermark), prune, flush, "
              "close+reopen, crash+continue (as-is or torn image); TestPropCleanupSequence: >=256 prune-carrying flushes in one session so "
              "the watermark write, rotation and obsolete-file removal happen (with hook H1: one image per file-system step, temp watermark "
              "at every length, EOF trailer at every offset); TestPropBlockStraddle: enumerated batches placed on a 32 KiB block boundary of "
              "the record format; TestPropEnospc: genuine ENOSPC from a full 64 KiB tmpfs in log append / watermark write; "
              "TestPropFsFaults: histories (3/4 prefilled with 236-255 quiet prune-carrying flushes and older log files so that watermark "
              "write, rotation and obsolete-file removal are 1-20 prune records away, refilled after restarts) of append/prune/flush/"
              "close+reopen/crash+continue in which flushes, closes and opens run under a drawn fault plan (operation kind from the "
              "operations the call is expected to perform, grouped by step append / watermark / rotation / removal / shutdown, occurrence "
              "index 0-2, partial effect drawn; 1/6 drawn from all kinds; 1/6 of the write/sync/close faults also block the tail repair), "
              "and continue afterwards with further flushes, faults, restarts and crash images. Non-trivial = "
              "multi-record batch enumerated together with (append above a prune in the same file | append at a pruned height | history "
              "continued on a torn image); cleanup really ran; batch straddles a block; a Flush really failed; a fault was injected and a "
              "non-empty flush succeeded afterwards. Distinct = SHA-256 of the "
              "rendered call sequence. info.images counts re-opened crash images."),
        assumptions=["fsync makes everything written before it durable and intact; only bytes written after the last acknowledged flush can be lost or damaged",
                     "a crash leaves a prefix of the newest log file (no reordering of writes inside one file), rename is atomic",
                     "tmpfs page-granular ENOSPC stands in for a full disk",
                     "the store reaches the log files through the package variable vfs.Default, which TestPropFsFaults replaces by a wrapper for the duration of a case; "
                     "the watermark and the tail repair use package os directly: there only what the kernel can be made to fail from inside the process is injected "
                     "(open-type calls: EMFILE; the watermark temp write: EFBIG after k bytes; the rename: obstructed destination) - os-level fsync, close, fstat, "
                     "ftruncate and the ReadFile of the watermark are never failed",
                     "a store whose tail repair failed (double fault) may refuse all further writes until restarted (fail-stop is not counted as 'log unusable'); "
                     "an Open that runs under a fault may fail, the next one must succeed",
                     "consensus heights are >= 1 (consensus.go starts at chain height + 1); height 0 is never appended",
                     "Pebble's record reader/writer (CRC, chunk framing) is trusted; juno's use of it is what is checked"],
        runs=[dict(run="^Test(Prop|Known)")],
    )
