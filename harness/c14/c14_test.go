// Package c14: the consensus log never loses flushed entries and never revives pruned ones
// (property C14).
//
// A rapid-generated history append / prune / flush / close+reopen / crash+continue is run against
// the real walstore.TendermintWALStore opened on a scratch directory. A reference model (list of
// calls of every acknowledged batch => watermark W + entries per height) states what LoadAllEntries
// must return. After EVERY flush the directory is captured and re-opened as a crash image:
//
//	as-is            the directory exactly as the flush left it            => acknowledged state B
//	cut@k            newest log file truncated to k bytes, for EVERY k in
//	                 [size before the flush, size after the flush)         => A (without) or B (complete)
//	flipFF@k, bit@k  one byte of the newest log file corrupted at EVERY such
//	                 offset (all bits flipped / one bit flipped)           => A or B
//
// "A or B" means: exactly the entries of all acknowledged batches, optionally followed by the
// COMPLETE in-flight batch; anything else (partial batch, entry of a pruned height, lost
// acknowledged entry, error on open) is a violation. Bytes before the previous flush's end are
// durable and are never cut or corrupted (the property quantifies over offsets past the last
// synced record only). On a sample of images (every as-is image, the first and last offset of
// every region and one offset in eight) the recovered store must additionally accept one more
// append+flush, drop an append at a pruned height, and show exactly that after another reopen.
//
// Further sub-checks: enospc_test.go (genuine ENOSPC on a tiny tmpfs) and faults_test.go + faultfs_test.go
// (failure of every file-system operation of the store, with partial effects, in histories that continue).
package c14

import (
	"errors"
	"fmt"
	"os"
	"path/filepath"
	"sort"
	"strings"
	"testing"

	"github.com/NethermindEth/juno/consensus/starknet"
	"github.com/NethermindEth/juno/consensus/types"
	"github.com/NethermindEth/juno/consensus/types/wal"
	"github.com/NethermindEth/juno/consensus/walstore"
	"github.com/NethermindEth/juno/core/felt"
	"github.com/NethermindEth/juno/db"
	"github.com/NethermindEth/juno/db/memory"
	_ "github.com/NethermindEth/juno/encoder/registry"
	"pgregory.net/rapid"

	"verif/harness/internal/stats"
)

// stats.Main ends with os.Exit, so nothing can run after it: every tmpfs mounted by the ENOSPC
// sub-check is unmounted by the test that mounted it (defer + t.Cleanup), and mounts leaked by a
// killed earlier process are swept here before anything runs.
func TestMain(m *testing.M) {
	sweepStaleMounts()
	stats.Main(m)
}

// ---------------------------------------------------------------------------------------------
// store plumbing

type store = walstore.TendermintWALStore[starknet.Value, starknet.Hash, starknet.Address]

// pathDB is the "tiny db.KeyValueStore whose Path() is the scratch directory" of DESIGN §4 C14:
// NewTendermintWALStore only calls Path() on the database it is given.
type pathDB struct {
	db.KeyValueStore
	path string
}

func (p pathDB) Path() string { return p.path }

var sharedMem = memory.New()

func openStore(base string) (store, error) {
	return walstore.NewTendermintWALStore[starknet.Value, starknet.Hash, starknet.Address](
		pathDB{KeyValueStore: sharedMem, path: base})
}

func walDirOf(base string) string { return walstore.DefaultWALDir(base) }

func scratchRoot() string {
	if st, err := os.Stat("/dev/shm"); err == nil && st.IsDir() {
		if d, err := os.MkdirTemp("/dev/shm", "verif-c14-"); err == nil {
			return d
		}
	}
	d, err := os.MkdirTemp("", "verif-c14-")
	if err != nil {
		stats.HarnessError("mkdtemp: %v", err)
	}
	return d
}

// ---------------------------------------------------------------------------------------------
// entries and their canonical rendering

func limbs(a [4]uint64) string { return fmt.Sprintf("%x.%x.%x.%x", a[0], a[1], a[2], a[3]) }

func render(e starknet.WALEntry) string {
	switch v := e.(type) {
	case *wal.Start:
		return fmt.Sprintf("start(h%d)", uint64(*v))
	case *starknet.WALProposal:
		val := "nil"
		if v.Value != nil {
			val = limbs([4]uint64(*v.Value))
		}
		return fmt.Sprintf("proposal(h%d r%d s%s vr%d v=%s)", v.Height, v.Round, limbs([4]uint64(v.Sender)), v.ValidRound, val)
	case *starknet.WALPrevote:
		id := "nil"
		if v.ID != nil {
			id = limbs([4]uint64(*v.ID))
		}
		return fmt.Sprintf("prevote(h%d r%d s%s id=%s)", v.Height, v.Round, limbs([4]uint64(v.Sender)), id)
	case *starknet.WALPrecommit:
		id := "nil"
		if v.ID != nil {
			id = limbs([4]uint64(*v.ID))
		}
		return fmt.Sprintf("precommit(h%d r%d s%s id=%s)", v.Height, v.Round, limbs([4]uint64(v.Sender)), id)
	case *starknet.WALTimeout:
		return fmt.Sprintf("timeout(h%d r%d step%d)", v.Height, v.Round, v.Step)
	default:
		return fmt.Sprintf("UNKNOWN(%T)", e)
	}
}

// rec is one call made on the store: SetWALEntry(entry) or DeleteWALEntries(height).
type rec struct {
	prune  bool
	height uint64
	entry  starknet.WALEntry
	str    string
}

func (r rec) String() string {
	if r.prune {
		return fmt.Sprintf("prune(%d)", r.height)
	}
	return r.str
}

func mkEntry(kind int, height uint64, round int, a, b uint64) rec {
	h := types.Height(height)
	r := types.Round(round)
	sender := felt.Address{a, b, a ^ 0xffffffffffffffff, 1}
	var e starknet.WALEntry
	switch kind {
	case 0:
		s := wal.Start(h)
		e = &s
	case 1, 2:
		p := starknet.WALProposal{MessageHeader: starknet.MessageHeader{Height: h, Round: r, Sender: sender}, ValidRound: types.Round(int(b%3) - 1)}
		if kind == 1 {
			v := starknet.Value{b, a, 0, 0x8000000000000000}
			p.Value = &v
		}
		e = &p
	case 3, 4:
		p := starknet.WALPrevote{MessageHeader: starknet.MessageHeader{Height: h, Round: r, Sender: sender}}
		if kind == 3 {
			id := felt.Hash{a, 0, b, 7}
			p.ID = &id
		}
		e = &p
	case 5, 6:
		p := starknet.WALPrecommit{MessageHeader: starknet.MessageHeader{Height: h, Round: r, Sender: sender}}
		if kind == 5 {
			id := felt.Hash{0, a, b, 0xffffffffffffffff}
			p.ID = &id
		}
		e = &p
	default:
		t := starknet.WALTimeout{Step: types.Step(b % 3), Height: h, Round: r}
		e = &t
	}
	return rec{height: height, entry: e, str: render(e)}
}

const nEntryKinds = 8

// ---------------------------------------------------------------------------------------------
// reference model

// view is what LoadAllEntries must show after a set of acknowledged batches: the inclusive prune
// watermark W and, per height > W, the renderings of the entries in the order they were appended.
// It follows the property statement only: prune(h) kills every height <= h for good; an entry of a
// killed height never appears; everything else appears exactly once, in order.
type view struct {
	w uint64
	m map[uint64][]string
}

func newView() *view { return &view{m: map[uint64][]string{}} }

func (v *view) clone() *view {
	c := &view{w: v.w, m: make(map[uint64][]string, len(v.m))}
	for h, l := range v.m {
		c.m[h] = l[:len(l):len(l)]
	}
	return c
}

func (v *view) apply(rs []rec) *view {
	for _, r := range rs {
		if r.prune {
			if r.height > v.w {
				v.w = r.height
				for h := range v.m {
					if h <= v.w {
						delete(v.m, h)
					}
				}
			}
			continue
		}
		if r.height > v.w {
			v.m[r.height] = append(v.m[r.height], r.str)
		}
	}
	return v
}

func (v *view) flat() []string {
	hs := make([]uint64, 0, len(v.m))
	for h := range v.m {
		hs = append(hs, h)
	}
	sort.Slice(hs, func(i, j int) bool { return hs[i] < hs[j] })
	var out []string
	for _, h := range hs {
		out = append(out, v.m[h]...)
	}
	return out
}

func eqStrings(a, b []string) bool {
	if len(a) != len(b) {
		return false
	}
	for i := range a {
		if a[i] != b[i] {
			return false
		}
	}
	return true
}

func loadAll(st store) ([]string, error) {
	var out []string
	for e, err := range st.LoadAllEntries() {
		if err != nil {
			return out, err
		}
		out = append(out, render(e))
	}
	return out, nil
}

// ---------------------------------------------------------------------------------------------
// directory snapshots and crash images

type snap struct {
	names []string
	data  map[string][]byte
}

func takeSnap(dir string) snap {
	s := snap{data: map[string][]byte{}}
	ents, err := os.ReadDir(dir)
	if err != nil {
		if errors.Is(err, os.ErrNotExist) {
			return s
		}
		stats.HarnessError("readdir %s: %v", dir, err)
	}
	for _, e := range ents {
		if e.IsDir() {
			continue
		}
		b, err := os.ReadFile(filepath.Join(dir, e.Name()))
		if err != nil {
			if errors.Is(err, os.ErrNotExist) {
				continue
			}
			stats.HarnessError("read %s: %v", e.Name(), err)
		}
		s.names = append(s.names, e.Name())
		s.data[e.Name()] = b
	}
	sort.Strings(s.names)
	return s
}

func (s snap) logs() []string {
	var l []string
	for _, n := range s.names {
		if strings.HasSuffix(n, ".log") {
			l = append(l, n)
		}
	}
	return l // zero-padded numbers: lexical order == numeric order
}

func (s snap) lastLog() string {
	l := s.logs()
	if len(l) == 0 {
		return ""
	}
	return l[len(l)-1]
}

func (s snap) describe() string {
	var b strings.Builder
	for _, n := range s.names {
		fmt.Fprintf(&b, "%s:%d ", n, len(s.data[n]))
	}
	return b.String()
}

// with returns a copy of the snapshot in which file name has the given content (nil = absent).
func (s snap) with(name string, content []byte) snap {
	c := snap{data: make(map[string][]byte, len(s.data)+1)}
	for k, v := range s.data {
		c.data[k] = v
	}
	if content == nil {
		delete(c.data, name)
	} else {
		c.data[name] = content
	}
	for k := range c.data {
		c.names = append(c.names, k)
	}
	sort.Strings(c.names)
	return c
}

func writeSnap(dir string, s snap) {
	if err := os.RemoveAll(dir); err != nil {
		stats.HarnessError("rm %s: %v", dir, err)
	}
	if err := os.MkdirAll(dir, 0o755); err != nil {
		stats.HarnessError("mkdir %s: %v", dir, err)
	}
	for _, n := range s.names {
		if err := os.WriteFile(filepath.Join(dir, n), s.data[n], 0o644); err != nil {
			stats.HarnessError("write %s: %v", n, err)
		}
	}
}

// imager materialises variants of one snapshot in a reusable directory: only the varied file is
// rewritten per image; files created by the recovered store are removed again.
type imager struct {
	base string // db path; image lives in walDirOf(base)
	s    snap
	vary string
}

func (im *imager) load(s snap, vary string) {
	im.s, im.vary = s, vary
	writeSnap(walDirOf(im.base), s)
}

func (im *imager) set(content []byte) {
	dir := walDirOf(im.base)
	ents, err := os.ReadDir(dir)
	if err != nil {
		stats.HarnessError("readdir image: %v", err)
	}
	seen := map[string]bool{}
	for _, e := range ents {
		n := e.Name()
		want, ok := im.s.data[n]
		if !ok {
			if err := os.RemoveAll(filepath.Join(dir, n)); err != nil {
				stats.HarnessError("rm image file: %v", err)
			}
			continue
		}
		seen[n] = true
		if n == im.vary {
			continue
		}
		if fi, err := e.Info(); err != nil || fi.Size() != int64(len(want)) {
			if err := os.WriteFile(filepath.Join(dir, n), want, 0o644); err != nil {
				stats.HarnessError("restore image file: %v", err)
			}
		}
	}
	for _, n := range im.s.names {
		if !seen[n] && n != im.vary {
			if err := os.WriteFile(filepath.Join(dir, n), im.s.data[n], 0o644); err != nil {
				stats.HarnessError("restore image file: %v", err)
			}
		}
	}
	if im.vary != "" {
		p := filepath.Join(dir, im.vary)
		if content == nil {
			_ = os.Remove(p)
		} else if err := os.WriteFile(p, content, 0o644); err != nil {
			stats.HarnessError("write image file: %v", err)
		}
	}
}

// ---------------------------------------------------------------------------------------------
// the harness around one generated history

type region struct {
	after      snap   // directory after the flush
	file       string // newest log file, the one the flush appended to
	prev, size int    // its size before / after the flush
	a, b       *view  // state without / with the flushed batch
}

type hookSnap struct {
	point string
	s     snap
}

type H struct {
	rt   *rapid.T
	c    *stats.Case
	root string
	base string
	gen  int
	st   store
	view *view
	pend []rec
	im   *imager
	ops  []string
	maxH uint64

	last      *region // region of the most recent flush of the live store, nil if unknown
	phase     int     // which offsets (mod 8) get the post-recovery append check
	bitFlips  bool    // also enumerate single-bit corruption
	enumerate bool    // per-offset enumeration on/off (prefill phases switch it off)
	hooks     []hookSnap
	markerSeq int
	external  bool // live base is outside root (tmpfs mount): crashContinue is not used there

	nRemovedLogs     int // log files that disappeared during flushes (cleanup)
	nWatermarkWrites int

	// fault-injection check only (faults_test.go); zero values leave every other check unchanged
	openFn       func(base string) (store, error) // how reopen / crashContinue open the live directory (nil: openStore)
	maybeDurable *view                            // a Flush REPORTED FAILURE for the batch leading to this state and the batch is still pending: an as-is crash image may show it absent or complete
	fx           *faultExt
}

func (h *H) open(base string) (store, error) {
	if h.openFn != nil {
		return h.openFn(base)
	}
	return openStore(base)
}

func newH(rt *rapid.T, c *stats.Case) *H { return newHOn(rt, c, "") }

// newHOn: liveBase != "" puts the live store there (the tiny tmpfs of the ENOSPC sub-check);
// images are always materialised under the scratch root.
func newHOn(rt *rapid.T, c *stats.Case, liveBase string) *H {
	// every draw before the scratch directory exists: a draw may abort the case (rapid does that while
	// shrinking), and until the caller has deferred cleanup() nothing would remove the directory
	phase := rapid.IntRange(0, 7).Draw(rt, "phase")
	h := &H{rt: rt, c: c, root: scratchRoot(), view: newView(), enumerate: true, phase: phase}
	h.base = filepath.Join(h.root, "live0")
	if liveBase != "" {
		h.base, h.external = liveBase, true
	}
	h.im = &imager{base: filepath.Join(h.root, "img")}
	st, err := openStore(h.base)
	if err != nil {
		_ = os.RemoveAll(h.root)
		c.Violation("open-error", "opening a store on an empty directory failed: %v", err)
	}
	h.st = st
	return h
}

func (h *H) cleanup() {
	if h.st != nil {
		_ = h.st.Close()
	}
	_ = os.RemoveAll(h.root)
	if h.external {
		_ = os.RemoveAll(h.base)
	}
}

func (h *H) op(f string, a ...any) {
	s := fmt.Sprintf(f, a...)
	h.ops = append(h.ops, s)
	h.c.Fp("%s", s)
}

func (h *H) history() string {
	ops := h.ops
	pre := ""
	if len(ops) > 400 && os.Getenv("VERIF_FULL_HISTORY") == "" {
		pre = fmt.Sprintf("…(%d earlier ops) ", len(ops)-400)
		ops = ops[len(ops)-400:]
	}
	return pre + strings.Join(ops, " ; ")
}

func short(l []string) string {
	if len(l) > 40 {
		return fmt.Sprintf("%d entries: %v … %v", len(l), l[:12], l[len(l)-12:])
	}
	return fmt.Sprintf("%d entries: %v", len(l), l)
}

func (h *H) fail(key, f string, a ...any) {
	h.rt.Helper()
	h.c.Violation(key, "%s\n  history: %s", fmt.Sprintf(f, a...), h.history())
}

func (h *H) append(r rec) {
	h.op("append %s", r.str)
	if err := h.st.SetWALEntry(r.entry); err != nil {
		h.fail("append-error", "SetWALEntry(%s): %v", r.str, err)
	}
	h.pend = append(h.pend, r)
	if r.height > h.maxH {
		h.maxH = r.height
	}
}

func (h *H) prune(height uint64) {
	h.op("prune %d", height)
	if err := h.st.DeleteWALEntries(types.Height(height)); err != nil {
		h.fail("prune-error", "DeleteWALEntries(%d): %v", height, err)
	}
	h.pend = append(h.pend, rec{prune: true, height: height})
}

// classify names the way got deviates from every allowed outcome.
func classify(got []string, a, b *view) string {
	af, bf := a.flat(), b.flat()
	count := func(l []string) map[string]int {
		m := map[string]int{}
		for _, s := range l {
			m[s]++
		}
		return m
	}
	gc, ac, bc := count(got), count(af), count(bf)
	for s, n := range gc {
		if n > bc[s] && n > ac[s] {
			// an entry that neither outcome contains (that often): revived or duplicated
			return "entry-of-pruned-height-or-duplicate"
		}
	}
	for s, n := range ac {
		if gc[s] < n && bc[s] >= n {
			return "acknowledged-entry-lost"
		}
	}
	if len(got) > len(af) && len(got) < len(bf) || len(got) < len(af) && len(got) > len(bf) {
		return "partial-batch"
	}
	return "wrong-entries"
}

// checkOpen opens the image currently materialised in h.im and applies the oracle. allowed[0] is
// the state without the in-flight batch (A), allowed[1] (optional) the state with it (B).
// Returns the index of the matching outcome.
func (h *H) checkOpen(what string, doAppend bool, allowed ...*view) int {
	h.c.Info("images")
	st, err := openStore(h.im.base)
	if err != nil {
		h.fail("open-error", "image %s: reopening the log failed (validator cannot start): %v", what, err)
	}
	closed := false
	defer func() {
		if !closed {
			_ = st.Close()
		}
	}()
	got, err := loadAll(st)
	if err != nil {
		h.fail("load-error", "image %s: LoadAllEntries: %v", what, err)
	}
	which := -1
	for i := len(allowed) - 1; i >= 0; i-- { // prefer B when A and B render the same
		if eqStrings(got, allowed[i].flat()) {
			which = i
			break
		}
	}
	if which < 0 {
		a, b := allowed[0], allowed[len(allowed)-1]
		h.fail("image-"+classify(got, a, b), "image %s (%s)\n  recovered %s\n  allowed without in-flight batch (W=%d) %s\n  allowed with complete in-flight batch (W=%d) %s",
			what, h.im.s.describe(), short(got), a.w, short(a.flat()), b.w, short(b.flat()))
	}
	if !doAppend {
		if err := st.Close(); err != nil {
			h.fail("close-error", "image %s: Close of the recovered store: %v", what, err)
		}
		closed = true
		return which
	}
	// The recovered store must accept one more append+flush, drop an append at a pruned height,
	// and show exactly that after another reopen.
	h.c.Info("images_with_append_after_recovery")
	wMin, wMax := allowed[0].w, allowed[0].w
	for _, v := range allowed {
		wMin, wMax = min(wMin, v.w), max(wMax, v.w)
	}
	h.markerSeq++
	exp := allowed[which].clone()
	keep := mkEntry(7, max(wMax, h.maxH)+1+uint64(h.markerSeq%2), 7000+h.markerSeq%50, 0, 1)
	if wMin >= 1 {
		dead := mkEntry(0, wMin, 0, 0, 0)
		if err := st.SetWALEntry(dead.entry); err != nil {
			h.fail("recovered-append-error", "image %s: SetWALEntry at pruned height after recovery: %v", what, err)
		}
	}
	if err := st.SetWALEntry(keep.entry); err != nil {
		h.fail("recovered-append-error", "image %s: SetWALEntry after recovery: %v", what, err)
	}
	if err := st.Flush(); err != nil {
		h.fail("recovered-flush-error", "image %s: Flush after recovery: %v", what, err)
	}
	exp.m[keep.height] = append(exp.m[keep.height], keep.str)
	want := exp.flat()
	got2, err := loadAll(st)
	if err != nil || !eqStrings(got2, want) {
		h.fail("recovered-append-wrong", "image %s: after recovery + append(%s)+flush the store shows %s (err %v), want %s (W in [%d,%d])",
			what, keep.str, short(got2), err, short(want), wMin, wMax)
	}
	if err := st.Close(); err != nil {
		h.fail("close-error", "image %s: Close after recovery+append: %v", what, err)
	}
	closed = true
	st2, err := openStore(h.im.base)
	if err != nil {
		h.fail("open-error", "image %s: second reopen (after recovery, append, flush, close) failed: %v", what, err)
	}
	got3, err := loadAll(st2)
	_ = st2.Close()
	if err != nil || !eqStrings(got3, want) {
		h.fail("recovered-append-not-durable", "image %s: after recovery + append(%s)+flush+close+reopen the store shows %s (err %v), want %s",
			what, keep.str, short(got3), err, short(want))
	}
	return which
}

// checkSnap: one image = a snapshot opened as it is.
func (h *H) checkSnap(what string, s snap, doAppend bool, allowed ...*view) int {
	h.im.load(s, "")
	h.im.set(nil)
	return h.checkOpen(what, doAppend, allowed...)
}

// enumerateRegion cuts and corrupts file at every offset of [prev,size) of snapshot s.
func (h *H) enumerateRegion(tag string, s snap, file string, prev, size int, a, b *view, startsAtBatch bool) {
	full := s.data[file]
	if size > len(full) || prev > size {
		stats.HarnessError("bad region %s %d..%d of %d", file, prev, size, len(full))
	}
	h.im.load(s, file)
	sameFlat := eqStrings(a.flat(), b.flat())
	lastWhich := 0
	sawA, sawB := false, false
	for k := prev; k < size; k++ {
		h.im.set(full[:k])
		doAppend := k == prev || k == size-1 || (k-prev)%8 == h.phase
		w := h.checkOpen(fmt.Sprintf("%s cut %s at %d (region %d..%d)", tag, file, k, prev, size), doAppend, a, b)
		h.c.Info("images_cut")
		if !sameFlat {
			if w < lastWhich {
				h.fail("cut-not-monotone", "%s: cut at %d shows the state WITHOUT the batch although a shorter cut showed it complete", tag, k)
			}
			lastWhich = w
			if w == 0 {
				sawA = true
			} else {
				sawB = true
			}
		}
	}
	if startsAtBatch && !sameFlat && prev < size && !sawA {
		h.fail("cut-never-absent", "%s: no cut of %s in %d..%d shows the state without the batch", tag, file, prev, size)
	}
	_ = sawB
	masks := []struct {
		name string
		m    func(k int) byte
	}{{"flipFF", func(int) byte { return 0xff }}}
	if h.bitFlips {
		masks = append(masks, struct {
			name string
			m    func(k int) byte
		}{"bit", func(k int) byte { return 1 << (uint(k) % 8) }})
	}
	buf := make([]byte, len(full))
	for _, mk := range masks {
		for k := prev; k < size; k++ {
			copy(buf, full)
			buf[k] ^= mk.m(k)
			h.im.set(buf[:size])
			doAppend := k == prev || k == size-1 || (k-prev)%8 == h.phase
			w := h.checkOpen(fmt.Sprintf("%s %s %s at %d (region %d..%d)", tag, mk.name, file, k, prev, size), doAppend, a, b)
			h.c.Info("images_corrupt_" + mk.name)
			if !sameFlat && w == 1 {
				// the batch survived the corrupted byte: expected only for bytes after the batch (EOF trailer
				// written by Close / rotation) or in the zero padding at the end of a 32 KiB block
				h.c.Info("corrupt_byte_harmless:" + tag)
			}
		}
	}
}

// flush performs Flush (or Close when viaClose) on the live store and enumerates its crash images.
func (h *H) flush(viaClose bool) {
	wal := walDirOf(h.base)
	before := takeSnap(wal)
	a := h.view
	b := a.clone().apply(h.pend)
	npend := len(h.pend)
	h.hooks = h.hooks[:0]
	installHook(h, wal)
	var err error
	if viaClose {
		h.op("close")
		err = h.st.Close()
	} else {
		h.op("flush")
		err = h.st.Flush()
	}
	removeHook()
	if err != nil {
		h.fail("flush-error", "Flush/Close returned %v (no fault was injected)", err)
	}
	after := takeSnap(wal)
	h.view, h.pend = b, nil
	for _, n := range before.logs() {
		if _, ok := after.data[n]; !ok {
			h.nRemovedLogs++
		}
	}
	if wm, ok := after.data["prune-watermark"]; ok && string(wm) != string(before.data["prune-watermark"]) {
		h.nWatermarkWrites++
	}
	if !viaClose {
		got, err := loadAll(h.st)
		if err != nil || !eqStrings(got, b.flat()) {
			h.fail("live-mismatch", "after Flush the live store shows %s (err %v), model %s", short(got), err, short(b.flat()))
		}
	} else {
		h.st = nil
	}
	if npend >= 2 {
		h.c.Label("batch>=2-records")
	}
	// (i) as is: the flush was acknowledged => exactly B
	h.checkSnap("as-is after flush", after, true, b)
	h.c.Info("images_as_is")

	// (ii) every offset of the region the flush wrote
	file := after.lastLog()
	simple := file != "" && len(after.names) >= len(before.names) && string(after.data["prune-watermark"]) == string(before.data["prune-watermark"])
	if simple {
		for _, n := range before.names {
			if n != file && string(before.data[n]) != string(after.data[n]) {
				simple = false
			}
		}
	}
	h.last = nil
	if simple {
		prev := len(before.data[file])
		size := len(after.data[file])
		if size > prev {
			r := &region{after: after, file: file, prev: prev, size: size, a: a, b: b}
			if !viaClose {
				h.last = r
			}
			if h.enumerate {
				if prev/32768 != (size-1)/32768 || (prev > 0 && prev%32768 > 32768-19) {
					h.c.NonTrivial("batch-straddles-32KiB-block")
				}
				tag := "flush"
				if viaClose {
					tag = "close" // region = batch (if any) + Pebble's EOF trailer
				}
				h.enumerateRegion(tag, after, file, prev, size, a, b, true)
				if npend > 0 {
					h.c.Label("enumerated-inside-batch-write")
				}
			}
		}
	} else if len(before.names) > 0 || len(after.names) > 0 {
		if npend > 0 && len(h.hooks) == 0 {
			h.c.Label("cleanup-flush-without-hook:as-is-only")
		}
	}
	h.processHooks(before, a, b)
}

// reopen opens a fresh store on the live directory after a Close.
func (h *H) reopen() {
	h.op("reopen")
	st, err := h.open(h.base)
	if err != nil {
		h.fail("open-error", "reopen after clean Close failed: %v", err)
	}
	h.st = st
	got, err := loadAll(st)
	if err != nil || !eqStrings(got, h.view.flat()) {
		h.fail("reopen-mismatch", "after Close+reopen the store shows %s (err %v), model %s", short(got), err, short(h.view.flat()))
	}
	h.c.Label("reopen")
	h.last = nil
}

// crashContinue abandons the live store (its pending records die with the process) and continues
// the history on a crash image of its directory: as it is, or cut / corrupted inside the region
// of the last flush (which then counts as having been in flight).
func (h *H) crashContinue() {
	wal := walDirOf(h.base)
	s := takeSnap(wal)
	allowed := []*view{h.view}
	if h.maybeDurable != nil {
		allowed = append(allowed, h.maybeDurable)
	}
	what := "as-is"
	if r := h.last; r != nil && !eqStrings(r.a.flat(), r.b.flat()) && rapid.IntRange(0, 3).Draw(h.rt, "torn") > 0 {
		k := rapid.IntRange(r.prev, r.size-1).Draw(h.rt, "crashoff")
		full := r.after.data[r.file]
		var content []byte
		if rapid.Bool().Draw(h.rt, "crashcut") {
			content = append([]byte{}, full[:k]...)
			what = fmt.Sprintf("cut %s at %d", r.file, k)
		} else {
			content = append([]byte{}, full...)
			content[k] ^= 0xff
			what = fmt.Sprintf("flipFF %s at %d", r.file, k)
		}
		s = r.after.with(r.file, content)
		allowed = []*view{r.a, r.b}
		h.c.NonTrivial("history-continues-on-torn-image")
	}
	h.op("crash[%s]+continue", what)
	h.gen++
	nb := filepath.Join(h.root, fmt.Sprintf("live%d", h.gen))
	writeSnap(walDirOf(nb), s)
	st, err := h.open(nb)
	if err != nil {
		h.fail("open-error", "crash image %s: reopening failed: %v", what, err)
	}
	h.c.Info("images")
	h.c.Info("images_continued")
	got, err := loadAll(st)
	which := -1
	for i := len(allowed) - 1; i >= 0; i-- {
		if err == nil && eqStrings(got, allowed[i].flat()) {
			which = i
			break
		}
	}
	if which < 0 {
		_ = st.Close()
		a, b := allowed[0], allowed[len(allowed)-1]
		h.fail("image-"+classify(got, a, b), "crash image %s\n  recovered %s (err %v)\n  allowed %s\n  or %s", what, short(got), err, short(a.flat()), short(b.flat()))
	}
	old, oldBase := h.st, h.base
	h.st, h.base = st, nb
	h.view, h.pend, h.last, h.maybeDurable = allowed[which].clone(), nil, nil, nil
	if old != nil {
		_ = old.Close() // the dead process; whatever it still writes goes to the abandoned directory
	}
	_ = os.RemoveAll(oldBase)
	h.c.Label("crash-continue")
}

func (h *H) drawEntry() rec {
	rt := h.rt
	kind := rapid.IntRange(0, nEntryKinds-1).Draw(rt, "kind")
	// heights W .. W+3: W itself is a pruned height (the append must vanish), the rest are live
	height := h.view.w + uint64(rapid.IntRange(0, 3).Draw(rt, "dh"))
	for _, p := range h.pend {
		if p.prune && p.height >= height && rapid.IntRange(0, 3).Draw(rt, "abovePending") > 0 {
			height = p.height + 1
		}
	}
	if height < 1 {
		height = 1 // consensus heights start at 1 (consensus.go: currentHeight = chainHeight + 1)
	}
	return mkEntry(kind, height, rapid.IntRange(0, 2).Draw(rt, "round"), rapid.Uint64Range(0, 3).Draw(rt, "a"), rapid.Uint64().Draw(rt, "b"))
}

// ---------------------------------------------------------------------------------------------
// TestPropCrashImages: the general state machine

func TestPropCrashImages(t *testing.T) {
	stats.Check(t, stats.Budget{Quick: 24, Thorough: 500},
		"rapid history of 8-45 ops append(8 entry kinds, heights W..W+3, rounds 0-2)/prune/flush/close+reopen/crash+continue(as-is or torn image) "+
			"on the real store; after every flush: as-is image + EVERY cut offset + EVERY corrupted byte (all bits; thorough: also one bit) of the newest log file past the previously synced size; "+
			"non-trivial = a batch of >=2 records was enumerated and (a prune was followed by appends to a higher height in the same file, or the history continued on a torn image, or appended at a pruned height)",
		func(rt *rapid.T, c *stats.Case) {
			h := newH(rt, c)
			defer h.cleanup()
			h.bitFlips = stats.Thorough() || rapid.IntRange(0, 3).Draw(rt, "bitflips") == 0
			nops := rapid.IntRange(8, 45).Draw(rt, "nops")
			prunedInFile := false
			multi := false
			interesting := false
			for i := 0; i < nops; i++ {
				if h.st == nil {
					h.reopen()
					prunedInFile = false
				}
				switch rapid.SampledFrom([]string{"append", "append", "append", "append", "append", "prune", "prune", "flush", "flush", "flush", "close", "crash"}).Draw(rt, "op") {
				case "append":
					r := h.drawEntry()
					if r.height <= h.view.w {
						interesting = true
						c.Label("append-at-pruned-height")
					}
					if prunedInFile && r.height > h.view.w {
						interesting = true
						c.Label("append-above-prune-in-same-file")
					}
					h.append(r)
				case "prune":
					lo := uint64(0)
					if h.view.w > 0 {
						lo = h.view.w - 1
					}
					h.prune(uint64(rapid.IntRange(int(lo), int(max(h.maxH, h.view.w)+1)).Draw(rt, "ph")))
				case "flush":
					if len(h.pend) >= 2 {
						multi = true
					}
					for _, p := range h.pend {
						if p.prune && p.height > h.view.w {
							prunedInFile = true
						}
					}
					h.flush(false)
				case "close":
					if len(h.pend) >= 2 {
						multi = true
					}
					h.flush(true)
				case "crash":
					before := len(h.ops)
					h.crashContinue()
					if strings.Contains(h.ops[before], "cut") || strings.Contains(h.ops[before], "flip") {
						interesting = true
					}
					prunedInFile = false
				}
			}
			if h.st != nil && len(h.pend) > 0 {
				h.flush(false)
			}
			if multi && interesting {
				c.NonTrivial("multi-record-batch+prune/torn/pruned-height")
			}
			ops := h.ops
			c.Sample(func() any { return strings.Join(ops, " ; ") })
		})
}

// ---------------------------------------------------------------------------------------------
// TestPropCleanupSequence: >= cleanupPruneRecordInterval (256) prune records in one session, so the
// watermark write, the rotation and the removal of obsolete files really happen.

// cleanupInterval mirrors walstore.cleanupPruneRecordInterval (wal_store.go:24); the test checks that
// the cleanup really ran (watermark file present), so a change of the constant is noticed.
const cleanupInterval = 256

func TestPropCleanupSequence(t *testing.T) {
	stats.Check(t, stats.Budget{Quick: 1, Thorough: 12},
		"scripted-random history with 256-300 prune-carrying flushes in one session (optional early close+reopen, optional long-lived entry at a far height pinning the first file, 0-2 appends per round), "+
			"every flush enumerated like TestPropCrashImages; with hook H1 additionally one image per file-system step of the cleanup; non-trivial = the prune watermark file was written and at least one log file was removed",
		func(rt *rapid.T, c *stats.Case) {
			h := newH(rt, c)
			defer h.cleanup()
			h.bitFlips = stats.Thorough()
			rounds := rapid.IntRange(cleanupInterval, cleanupInterval+44).Draw(rt, "rounds")
			pin := rapid.IntRange(0, 2).Draw(rt, "pin") // 0: nothing pinned, 1: far-future entry in file 1, 2: entry pinned until late
			// 0-3 early close+reopen: each leaves one more log file for the cleanup to remove (the per-session
			// prune-record counter restarts at every reopen, so the rounds are counted from the last one)
			reopens := map[int]bool{}
			lastReopen := 0
			for k, n := 0, rapid.IntRange(0, 3).Draw(rt, "nReopen"); k < n; k++ {
				at := rapid.IntRange(1, 40).Draw(rt, "reopenAt")
				reopens[at] = true
				lastReopen = max(lastReopen, at)
			}
			pinHeight := uint64(0)
			switch pin {
			case 1:
				pinHeight = uint64(rounds) + 400
			case 2:
				pinHeight = uint64(rapid.IntRange(cleanupInterval-60, cleanupInterval+10).Draw(rt, "pinHeight"))
			}
			if pinHeight > 0 {
				h.append(mkEntry(1, pinHeight, 0, 1, 99))
				h.flush(false)
			}
			sawWatermark, sawRemoval := false, false
			total := rounds + lastReopen
			for i := 1; i <= total; i++ {
				if reopens[i] {
					h.flush(true)
					h.reopen()
				}
				na := rapid.SampledFrom([]int{0, 0, 0, 1, 1, 2}).Draw(rt, "na")
				for j := 0; j < na; j++ {
					r := mkEntry(rapid.IntRange(0, nEntryKinds-1).Draw(rt, "kind"), uint64(i+rapid.IntRange(0, 2).Draw(rt, "dh")), j, 2, uint64(i))
					h.append(r)
				}
				if na == 0 || rapid.IntRange(0, 19).Draw(rt, "skipPrune") > 0 {
					h.prune(uint64(i))
				} else {
					total++ // this round carried no prune record
				}
				h.flush(false)
				if h.nWatermarkWrites > 0 && !sawWatermark {
					sawWatermark = true
					c.Labelf("first-cleanup-at-prune-flush-%d", i)
				}
				sawRemoval = h.nRemovedLogs > 0
			}
			if !sawWatermark {
				h.fail("cleanup-never-ran", "%d prune records were flushed in one session but no prune-watermark file exists (cleanupPruneRecordInterval changed?)", rounds)
			}
			// after the cleanup: a few more rounds, then a clean reopen
			for i := total + 1; i <= total+rapid.IntRange(1, 6).Draw(rt, "tail"); i++ {
				h.append(mkEntry(rapid.IntRange(0, nEntryKinds-1).Draw(rt, "kind"), uint64(i), 0, 3, uint64(i)))
				if rapid.Bool().Draw(rt, "tailPrune") {
					h.prune(uint64(i - 1))
				}
				h.flush(false)
			}
			h.flush(true)
			h.reopen()
			if rapid.IntRange(0, 2).Draw(rt, "second") == 0 {
				// a second cleanup, in a session that starts with a watermark file and the files the first one
				// left: as-is image per flush (+ hook images), no per-offset enumeration
				h.enumerate = false
				w0, r0 := h.nWatermarkWrites, h.nRemovedLogs
				base := h.view.w
				for i := 1; i <= cleanupInterval+rapid.IntRange(0, 5).Draw(rt, "extra2"); i++ {
					if rapid.IntRange(0, 3).Draw(rt, "a2") == 0 {
						h.append(mkEntry(rapid.IntRange(0, nEntryKinds-1).Draw(rt, "kind"), base+uint64(i+rapid.IntRange(0, 2).Draw(rt, "dh")), 0, 2, uint64(i)))
					}
					h.prune(base + uint64(i))
					h.flush(false)
				}
				if h.nWatermarkWrites == w0 {
					h.fail("cleanup-never-ran", "second session: %d prune records flushed but the watermark was not rewritten", cleanupInterval)
				}
				if h.nRemovedLogs > r0 {
					c.Label("second-cleanup-removed-files")
				}
				c.Label("second-cleanup")
				h.enumerate = true
				h.append(mkEntry(3, h.view.w+1, 0, 1, 1))
				h.flush(false)
				h.flush(true)
				h.reopen()
			}
			if sawWatermark {
				c.Label("watermark-written")
			}
			if sawRemoval {
				c.Label("log-file-removed")
			}
			if sawWatermark && sawRemoval {
				c.NonTrivial("cleanup-ran")
			}
			c.Labelf("pin=%d", pin)
			n := len(h.ops)
			ops := append([]string{}, h.ops[:min(n, 40)]...)
			c.Sample(func() any { return fmt.Sprintf("%d ops, first 40: %s", n, strings.Join(ops, " ; ")) })
		})
}

// ---------------------------------------------------------------------------------------------
// TestPropBlockStraddle: the in-flight batch sits on a 32 KiB block boundary of Pebble's record
// format (chunk split into FIRST/LAST, zero padding when fewer than 11 bytes remain in a block).

func TestPropBlockStraddle(t *testing.T) {
	stats.Check(t, stats.Budget{Quick: 3, Thorough: 60},
		"one log file is filled by acknowledged batches (as-is image each, no per-offset enumeration: same code path as TestPropCrashImages) up to a drawn gap 0-40 or 41-700 bytes before the 32 KiB block boundary; "+
			"then 2-3 batches of 1-8 records are flushed and enumerated at EVERY offset (cut, all-bits, one-bit); non-trivial = an enumerated batch crossed the block boundary or started within 19 bytes of it",
		func(rt *rapid.T, c *stats.Case) {
			h := newH(rt, c)
			defer h.cleanup()
			h.bitFlips = true
			h.enumerate = false
			const block = 32768
			gap := rapid.OneOf(rapid.IntRange(0, 40), rapid.IntRange(41, 700)).Draw(rt, "gap")
			target := block - gap
			size := func() int {
				s := takeSnap(walDirOf(h.base))
				return len(s.data[s.lastLog()])
			}
			// coarse fill with batches of 4-10 entries at heights 1..3
			i := 0
			for size() < target-4000 {
				n := rapid.IntRange(4, 10).Draw(rt, "fill")
				for j := 0; j < n; j++ {
					i++
					h.append(mkEntry(i%nEntryKinds, uint64(1+i%3), j%3, uint64(i%4), uint64(i)))
				}
				h.flush(false)
			}
			// fine fill: one-record batches of two sizes (start entry, prune record), measured first
			probe := size()
			h.append(mkEntry(0, 900000, 0, 0, 0))
			h.flush(false)
			szStart := size() - probe
			pruneH := uint64(1)
			probe = size()
			h.prune(pruneH)
			h.flush(false)
			szPrune := size() - probe
			if rem := target - size(); rem > 0 && szStart > 0 && szPrune > 0 {
				nStart, nPrune := -1, 0
				for a := 0; a <= szPrune && a*szStart <= rem; a++ {
					if (rem-a*szStart)%szPrune == 0 {
						nStart, nPrune = a, (rem-a*szStart)/szPrune
						break
					}
				}
				if nStart < 0 || nPrune > 200 {
					nStart, nPrune = 0, min(200, rem/szPrune)
				}
				for j := 0; j < nStart; j++ {
					h.append(mkEntry(0, 900000, 0, 0, 0))
					h.flush(false)
				}
				for j := 0; j < nPrune; j++ {
					pruneH++
					h.prune(pruneH) // heights 1..3 of the coarse fill die here; the start entries at 900000 stay
					h.flush(false)
				}
			}
			gotGap := block - size()
			switch {
			case gotGap < 0:
				c.Label("gap:overshot")
			case gotGap == 0:
				// also reached when fewer than 11 bytes would remain: Pebble's writer zero-pads to the boundary at once
				c.Label("gap:0(file ends on the block boundary)")
			case gotGap < 11:
				c.Label("gap:1-10")
			case gotGap < 19:
				c.Label("gap:11-18")
			case gotGap <= 40:
				c.Label("gap:19-40")
			default:
				c.Label("gap:>40")
			}
			h.enumerate = true
			nb := rapid.IntRange(2, 3).Draw(rt, "nb")
			for b := 0; b < nb; b++ {
				n := rapid.IntRange(1, 8).Draw(rt, "n")
				for j := 0; j < n; j++ {
					h.append(mkEntry(rapid.IntRange(0, nEntryKinds-1).Draw(rt, "kind"), pruneH+uint64(1+rapid.IntRange(0, 3).Draw(rt, "dh")), j%3, 1, uint64(b*100+j)))
				}
				if rapid.IntRange(0, 3).Draw(rt, "p") == 0 {
					pruneH++
					h.prune(pruneH)
				}
				h.flush(false)
			}
			h.flush(true)
			h.reopen()
			c.Sample(func() any { return fmt.Sprintf("gap before enumerated batches: %d bytes; %d ops", gotGap, len(h.ops)) })
		})
}
