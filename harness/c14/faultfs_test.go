package c14

// Fault-injecting file system for the WAL store (sub-check (iv) of C14, see faults_test.go).
//
// consensus/walstore reaches the disk in two ways:
//
//	(1) through Pebble's vfs.FS – the production constructor hard-wires the package variable
//	    vfs.Default (wal_store.go: pebblewal.Dir{FS: vfs.Default}); the log files are created, written,
//	    synced, closed, listed, read and removed through it (pebble/wal StandaloneManager + record.LogWriter);
//	(2) through package os directly – the prune watermark (OpenFile/Write/Sync/Close/Rename/Remove of
//	    prune-watermark.tmp, Open+Sync of the directory, ReadFile at start-up) and the tail repair
//	    (OpenFile(O_RDWR)/Stat/Truncate/Sync/Close, os.Stat).
//
// For (1) the check replaces vfs.Default by faultFS for the duration of the test: every vfs call the
// store makes on its own directory is counted per kind, and the call with a drawn (kind, occurrence
// index) fails with EIO after a drawn PARTIAL EFFECT (write: a prefix of the bytes reached the file;
// close: descriptor closed or not; create: the empty file exists or not; remove: the file is gone or
// not; sync: performed or not). For (2) no interposition is possible without changing juno, so the
// kernel is made to fail the call for real, timed by the hook points of H1 (walstore.VerifHook):
//
//	EMFILE  RLIMIT_NOFILE soft limit 0 from a hook point / from the k-th vfs call / from the moment a vfs
//	        fault fires until the store call returns: the next open-type call fails (watermark temp file,
//	        directory sync, tail repair, log creation)
//	EFBIG   RLIMIT_FSIZE soft limit k in 0..34 while the watermark temp file is written: the write stores
//	        k bytes and fails (Go ignores SIGXFSZ)
//	rename  prune-watermark is replaced by a non-empty directory while os.Rename(tmp, prune-watermark) runs
//
// os-level fsync, close, fstat and ftruncate cannot be made to fail from inside the process; they are
// listed as not injected in config.py.

import (
	"errors"
	"fmt"
	"os"
	"path/filepath"
	"strings"
	"sync"
	"syscall"

	"github.com/cockroachdb/pebble/v2/vfs"

	"verif/harness/internal/stats"
)

type opKind int

const (
	// vfs calls of the write path
	opCreate   opKind = iota // FS.Create of a new log file
	opDirSync                // Sync of the directory handle after the creation
	opWrite                  // File.Write on a log file (batch; EOF trailer written by the record writer's Close)
	opSync                   // File.Sync/SyncData/SyncTo on a log file
	opClose                  // File.Close of a log file open for writing
	opRemove                 // FS.Remove of an obsolete log file
	opDirClose               // Close of the directory handle (shutdown)
	// vfs calls of the start-up path
	opMkdirAll
	opList
	opStat
	opOpenRead
	opRead
	opReadClose
	opOpenDir
	// os-level calls (failed by the kernel, see above)
	opOsOpenTmp    // OpenFile(prune-watermark.tmp): EMFILE from hook "append-synced"
	opOsWriteTmp   // Write(prune-watermark.tmp): EFBIG after kseed%35 bytes, from hook "append-synced"
	opOsRename     // Rename(tmp, prune-watermark): destination obstructed from hook "watermark-tmp-written"
	opOsDirSync    // Open(dir) of syncDir: EMFILE from hook "watermark-renamed" (the rename HAS happened)
	opOsOpenFrom   // EMFILE for every open-type call from the nth vfs call of the store call on
	opOsRepairOpen // companion of a vfs fault: EMFILE from the moment it fires (the tail repair cannot open the file)
	nOpKinds
)

var opNames = [nOpKinds]string{
	"create", "dir-sync", "write", "sync", "close", "remove", "dir-close",
	"mkdirall", "list", "stat", "open-read", "read", "read-close", "open-dir",
	"os-open-watermark-tmp", "os-write-watermark-tmp", "os-rename-watermark", "os-sync-dir", "os-emfile-from-op", "os-repair-open",
}

func (k opKind) String() string { return opNames[k] }

func (k opKind) osLevel() bool { return k >= opOsOpenTmp }

// fault is one planned failure of a store call.
type fault struct {
	kind    opKind
	nth     int  // occurrence index of this kind inside the store call (opOsOpenFrom: index over all vfs calls)
	variant int  // partial-effect selector (meaning depends on the kind)
	kseed   int  // write: which prefix; os-write-watermark-tmp: byte limit
	emfile  bool // companion opOsRepairOpen

	// outcome
	fired   bool   // vfs kinds: the call was failed; os kinds: the kernel condition was set up
	partial bool   // the failed call had an effect before failing
	detail  string // what happened
	phase   string // step of the store call in which it fired
}

func (f *fault) String() string {
	s := fmt.Sprintf("%s#%d/v%d", f.kind, f.nth, f.variant)
	if f.kind == opWrite || f.kind == opOsWriteTmp {
		s += fmt.Sprintf("/k%d", f.kseed)
	}
	if f.emfile {
		s += "+repair-emfile"
	}
	return s
}

// prefix: how many of n bytes a failing write stores. variant 0: none, 1: all (failure reported after the
// data went out), otherwise a strict prefix.
func (f *fault) prefix(n int) int {
	switch {
	case n == 0 || f.variant == 0:
		return 0
	case f.variant == 1 || n == 1:
		return n
	default:
		return 1 + f.kseed%(n-1)
	}
}

func ioErr(op, path string) error { return &os.PathError{Op: op, Path: path, Err: syscall.EIO} }

// ---------------------------------------------------------------------------------------------
// kernel-level conditions

type envState struct {
	nofile, fsize      bool
	oldNofile, oldFsiz syscall.Rlimit
	obstructed         string
	hadWM              bool
	savedWM            []byte
}

func (e *envState) armNofile() {
	if e.nofile {
		return
	}
	if err := syscall.Getrlimit(syscall.RLIMIT_NOFILE, &e.oldNofile); err != nil {
		stats.HarnessError("getrlimit nofile: %v", err)
	}
	l := e.oldNofile
	l.Cur = 0
	if err := syscall.Setrlimit(syscall.RLIMIT_NOFILE, &l); err != nil {
		stats.HarnessError("setrlimit nofile: %v", err)
	}
	e.nofile = true
}

func (e *envState) armFsize(k uint64) {
	if e.fsize {
		return
	}
	if err := syscall.Getrlimit(syscall.RLIMIT_FSIZE, &e.oldFsiz); err != nil {
		stats.HarnessError("getrlimit fsize: %v", err)
	}
	l := e.oldFsiz
	l.Cur = k
	if err := syscall.Setrlimit(syscall.RLIMIT_FSIZE, &l); err != nil {
		stats.HarnessError("setrlimit fsize: %v", err)
	}
	e.fsize = true
}

// obstruct makes os.Rename(x, walDir/prune-watermark) fail: the destination becomes a non-empty directory.
func (e *envState) obstruct(walDir string) {
	if e.obstructed != "" {
		return
	}
	p := filepath.Join(walDir, "prune-watermark")
	b, err := os.ReadFile(p)
	e.hadWM, e.savedWM = err == nil, b
	if e.hadWM {
		if err := os.Remove(p); err != nil {
			stats.HarnessError("obstruct: %v", err)
		}
	}
	if err := os.Mkdir(p, 0o755); err != nil {
		stats.HarnessError("obstruct: %v", err)
	}
	if err := os.WriteFile(filepath.Join(p, "x"), []byte("x"), 0o644); err != nil {
		stats.HarnessError("obstruct: %v", err)
	}
	e.obstructed = p
}

func (e *envState) restore() {
	if e.nofile {
		if err := syscall.Setrlimit(syscall.RLIMIT_NOFILE, &e.oldNofile); err != nil {
			stats.HarnessError("restore nofile: %v", err)
		}
		e.nofile = false
	}
	if e.fsize {
		if err := syscall.Setrlimit(syscall.RLIMIT_FSIZE, &e.oldFsiz); err != nil {
			stats.HarnessError("restore fsize: %v", err)
		}
		e.fsize = false
	}
	if e.obstructed != "" {
		if err := os.RemoveAll(e.obstructed); err != nil {
			stats.HarnessError("unobstruct: %v", err)
		}
		if e.hadWM {
			if err := os.WriteFile(e.obstructed, e.savedWM, 0o644); err != nil {
				stats.HarnessError("unobstruct: %v", err)
			}
		}
		e.obstructed = ""
	}
}

// ---------------------------------------------------------------------------------------------
// the vfs wrapper

const (
	roleLog = iota
	roleDir
	roleRead
)

type faultFS struct {
	vfs.FS // the real file system
	prev   vfs.FS

	mu      sync.Mutex // the record writer's flush loop runs on its own goroutine
	armed   bool
	dir     string // only calls on this directory (the live store's) are counted and failed
	plan    []*fault
	count   [nOpKinds]int
	nops    int
	trace   []string
	phase   string
	hooks   []string
	env     envState
	writers map[*faultFile]struct{}
	leaked  []vfs.File
	genuine []string // vfs calls that failed for real while a kernel condition was armed
}

// installFaultFS swaps vfs.Default; every store opened until uninstall goes through the wrapper (which
// passes everything through unless armed).
func installFaultFS() *faultFS {
	fs := &faultFS{FS: vfs.Default, prev: vfs.Default, writers: map[*faultFile]struct{}{}}
	vfs.Default = fs
	return fs
}

func (fs *faultFS) uninstall() {
	fs.disarm()
	vfs.Default = fs.prev
	fs.mu.Lock()
	defer fs.mu.Unlock()
	for _, f := range fs.leaked {
		_ = f.Close()
	}
	fs.leaked = nil
}

func (fs *faultFS) Unwrap() vfs.FS { return fs.FS }

// arm starts a store call on walDir with the given plan.
func (fs *faultFS) arm(walDir string, plan []*fault, phase string) {
	fs.mu.Lock()
	defer fs.mu.Unlock()
	fs.armed, fs.dir, fs.plan, fs.phase = true, walDir, plan, phase
	fs.count = [nOpKinds]int{}
	fs.nops = 0
	fs.trace, fs.hooks, fs.genuine = nil, nil, nil
}

// disarm ends the store call and removes every kernel-level condition.
func (fs *faultFS) disarm() {
	fs.mu.Lock()
	defer fs.mu.Unlock()
	fs.armed = false
	fs.env.restore()
}

// onHook: the store reached a hook point of H1.
func (fs *faultFS) onHook(point string) {
	fs.mu.Lock()
	defer fs.mu.Unlock()
	if !fs.armed {
		return
	}
	fs.hooks = append(fs.hooks, point)
	switch point {
	case "append-synced":
		fs.phase = "after-append"
	case "watermark-tmp-written", "watermark-renamed":
		fs.phase = "watermark"
	case "watermark-dir-synced":
		fs.phase = "rotation"
	case "rotated", "obsolete-removed":
		fs.phase = "cleanup"
	}
	for _, ft := range fs.plan {
		if ft.fired {
			continue
		}
		switch {
		case ft.kind == opOsOpenTmp && point == "append-synced":
			fs.env.armNofile()
		case ft.kind == opOsWriteTmp && point == "append-synced":
			fs.env.armFsize(uint64(ft.kseed % 35))
			ft.partial = ft.kseed%35 > 0
		case ft.kind == opOsRename && point == "watermark-tmp-written":
			fs.env.obstruct(fs.dir)
		case ft.kind == opOsDirSync && point == "watermark-renamed":
			fs.env.armNofile()
			ft.partial = true // the rename has happened
		default:
			continue
		}
		ft.fired, ft.phase = true, fs.phase
	}
}

// match counts one vfs call of the store and returns the fault planned for it, if any.
func (fs *faultFS) match(path string, kind opKind) *fault {
	fs.mu.Lock()
	defer fs.mu.Unlock()
	if !fs.armed || !strings.HasPrefix(path, fs.dir) {
		return nil
	}
	idx := fs.nops
	fs.nops++
	n := fs.count[kind]
	fs.count[kind]++
	fs.trace = append(fs.trace, kind.String())
	for _, ft := range fs.plan {
		if ft.kind == opOsOpenFrom && !ft.fired && ft.nth == idx {
			ft.fired, ft.phase = true, fs.phase
			fs.env.armNofile()
		}
	}
	for _, ft := range fs.plan {
		if ft.kind == kind && !ft.fired && ft.nth == n {
			ft.fired, ft.phase = true, fs.phase
			return ft
		}
	}
	return nil
}

// fire finishes an injected failure: companion condition, bookkeeping.
func (fs *faultFS) fire(ft *fault, partial bool, detail string) {
	fs.mu.Lock()
	defer fs.mu.Unlock()
	ft.partial, ft.detail = partial, detail
	if ft.emfile {
		fs.env.armNofile()
	}
}

func (fs *faultFS) noteGenuine(op string, err error) {
	if err == nil || !errors.Is(err, syscall.EMFILE) {
		return
	}
	fs.mu.Lock()
	fs.genuine = append(fs.genuine, op)
	fs.mu.Unlock()
}

func (fs *faultFS) wrap(f vfs.File, path string, role int) *faultFile {
	ff := &faultFile{File: f, fs: fs, path: path, role: role}
	if role == roleLog {
		fs.mu.Lock()
		fs.writers[ff] = struct{}{}
		fs.mu.Unlock()
	}
	return ff
}

func (fs *faultFS) forget(f *faultFile) {
	fs.mu.Lock()
	delete(fs.writers, f)
	fs.mu.Unlock()
}

// hasWriter: does a store hold a log file of walDir open for writing (as far as the wrapper can tell)?
func (fs *faultFS) hasWriter(walDir string) bool {
	fs.mu.Lock()
	defer fs.mu.Unlock()
	for f := range fs.writers {
		if strings.HasPrefix(f.path, walDir) {
			return true
		}
	}
	return false
}

func (fs *faultFS) Create(name string, cat vfs.DiskWriteCategory) (vfs.File, error) {
	if ft := fs.match(name, opCreate); ft != nil {
		partial := false
		if ft.variant%2 == 1 {
			if f, err := fs.FS.Create(name, cat); err == nil {
				_ = f.Close()
				partial = true
			}
		}
		fs.fire(ft, partial, map[bool]string{false: "not created", true: "empty file created, failure reported"}[partial])
		return nil, ioErr("create", name)
	}
	f, err := fs.FS.Create(name, cat)
	if err != nil {
		fs.noteGenuine("create", err)
		return nil, err
	}
	return fs.wrap(f, name, roleLog), nil
}

func (fs *faultFS) Open(name string, opts ...vfs.OpenOption) (vfs.File, error) {
	if ft := fs.match(name, opOpenRead); ft != nil {
		fs.fire(ft, false, "")
		return nil, ioErr("open", name)
	}
	f, err := fs.FS.Open(name, opts...)
	if err != nil {
		fs.noteGenuine("open-read", err)
		return nil, err
	}
	return fs.wrap(f, name, roleRead), nil
}

func (fs *faultFS) OpenDir(name string) (vfs.File, error) {
	if ft := fs.match(name, opOpenDir); ft != nil {
		fs.fire(ft, false, "")
		return nil, ioErr("open", name)
	}
	f, err := fs.FS.OpenDir(name)
	if err != nil {
		fs.noteGenuine("open-dir", err)
		return nil, err
	}
	return fs.wrap(f, name, roleDir), nil
}

func (fs *faultFS) Remove(name string) error {
	if ft := fs.match(name, opRemove); ft != nil {
		partial := false
		if ft.variant%2 == 1 {
			partial = fs.FS.Remove(name) == nil
		}
		fs.fire(ft, partial, map[bool]string{false: "not removed", true: "removed, failure reported"}[partial])
		return ioErr("remove", name)
	}
	return fs.FS.Remove(name)
}

func (fs *faultFS) MkdirAll(dir string, perm os.FileMode) error {
	if ft := fs.match(dir, opMkdirAll); ft != nil {
		fs.fire(ft, false, "")
		return ioErr("mkdir", dir)
	}
	return fs.FS.MkdirAll(dir, perm)
}

func (fs *faultFS) List(dir string) ([]string, error) {
	if ft := fs.match(dir, opList); ft != nil {
		fs.fire(ft, false, "")
		return nil, ioErr("readdir", dir)
	}
	l, err := fs.FS.List(dir)
	fs.noteGenuine("list", err)
	return l, err
}

func (fs *faultFS) Stat(name string) (vfs.FileInfo, error) {
	if ft := fs.match(name, opStat); ft != nil {
		fs.fire(ft, false, "")
		return nil, ioErr("stat", name)
	}
	return fs.FS.Stat(name)
}

type faultFile struct {
	vfs.File
	fs   *faultFS
	path string
	role int
}

func (f *faultFile) Write(p []byte) (int, error) {
	if f.role == roleLog {
		if ft := f.fs.match(f.path, opWrite); ft != nil {
			k, n := ft.prefix(len(p)), 0
			if k > 0 {
				n, _ = f.File.Write(p[:k])
			}
			f.fs.fire(ft, n > 0, fmt.Sprintf("%d of %d bytes written", n, len(p)))
			f.fs.forget(f) // the store abandons a writer whose write failed
			return n, ioErr("write", f.path)
		}
	}
	return f.File.Write(p)
}

func (f *faultFile) syncFault() error {
	kind := opSync
	switch f.role {
	case roleDir:
		kind = opDirSync
	case roleRead:
		return nil
	}
	if ft := f.fs.match(f.path, kind); ft != nil {
		partial := false
		if ft.variant%2 == 1 {
			partial = f.File.Sync() == nil
		}
		f.fs.fire(ft, partial, map[bool]string{false: "not synced", true: "synced, failure reported"}[partial])
		if f.role == roleLog {
			f.fs.forget(f)
		}
		return ioErr("sync", f.path)
	}
	return nil
}

func (f *faultFile) Sync() error {
	if err := f.syncFault(); err != nil {
		return err
	}
	return f.File.Sync()
}

func (f *faultFile) SyncData() error {
	if err := f.syncFault(); err != nil {
		return err
	}
	return f.File.SyncData()
}

func (f *faultFile) SyncTo(length int64) (bool, error) {
	if err := f.syncFault(); err != nil {
		return false, err
	}
	return f.File.SyncTo(length)
}

func (f *faultFile) Read(p []byte) (int, error) {
	if f.role == roleRead {
		if ft := f.fs.match(f.path, opRead); ft != nil {
			f.fs.fire(ft, false, "")
			return 0, ioErr("read", f.path)
		}
	}
	return f.File.Read(p)
}

func (f *faultFile) Close() error {
	kind := [...]opKind{roleLog: opClose, roleDir: opDirClose, roleRead: opReadClose}[f.role]
	if f.role == roleLog {
		f.fs.forget(f)
	}
	if ft := f.fs.match(f.path, kind); ft != nil {
		if ft.variant%2 == 0 {
			_ = f.File.Close()
			f.fs.fire(ft, true, "descriptor closed, failure reported")
		} else {
			f.fs.mu.Lock()
			f.fs.leaked = append(f.fs.leaked, f.File)
			f.fs.mu.Unlock()
			f.fs.fire(ft, false, "descriptor left open")
		}
		return ioErr("close", f.path)
	}
	return f.File.Close()
}
