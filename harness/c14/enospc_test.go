package c14

// Sub-check (iii) of DESIGN §4 C14: REAL write failures. The WAL directory lives on a 64 KiB tmpfs
// that a filler file brings to the brink, so a Flush fails with a genuine ENOSPC inside Pebble's
// log writer (possibly after part of the batch reached the file: tmpfs allocates page-wise) or in
// the prune-watermark temp-file write. Then the filler is removed and the history continues.
//
// Oracle (property statement, last sentence): a flush that reports failure never leaves PART of that
// batch durable (the image taken right after the failure shows the batch absent or complete) and does
// not make the log unusable (after space is back the next flush succeeds; live store, as-is image and
// a clean reopen then show every call exactly once).

import (
	"errors"
	"fmt"
	"os"
	"path/filepath"
	"strconv"
	"strings"
	"syscall"
	"testing"

	"pgregory.net/rapid"

	"verif/harness/internal/stats"
)

const mountPrefix = "verif-c14-enospc-"

func mountParent() string {
	if st, err := os.Stat("/dev/shm"); err == nil && st.IsDir() {
		return "/dev/shm"
	}
	return "/var/tmp"
}

// mountTiny mounts a 64 KiB tmpfs on a fresh directory named after this process.
func mountTiny() (string, error) {
	dir, err := os.MkdirTemp(mountParent(), fmt.Sprintf("%s%d-", mountPrefix, os.Getpid()))
	if err != nil {
		return "", err
	}
	if err := syscall.Mount("tmpfs", dir, "tmpfs", 0, "size=64k"); err != nil {
		_ = os.Remove(dir)
		return "", err
	}
	return dir, nil
}

func unmountTiny(dir string) {
	if dir == "" {
		return
	}
	if err := syscall.Unmount(dir, 0); err != nil {
		_ = syscall.Unmount(dir, syscall.MNT_DETACH)
	}
	_ = os.Remove(dir)
}

// sweepStaleMounts unmounts tmpfs instances left behind by test processes that no longer exist
// (killed by a timeout before their deferred unmount could run).
func sweepStaleMounts() {
	b, err := os.ReadFile("/proc/self/mounts")
	if err != nil {
		return
	}
	for _, line := range strings.Split(string(b), "\n") {
		f := strings.Fields(line)
		if len(f) < 2 {
			continue
		}
		name := filepath.Base(f[1])
		if !strings.HasPrefix(name, mountPrefix) {
			continue
		}
		pidStr, _, _ := strings.Cut(strings.TrimPrefix(name, mountPrefix), "-")
		pid, err := strconv.Atoi(pidStr)
		if err != nil || pid == os.Getpid() {
			continue
		}
		if _, err := os.Stat(fmt.Sprintf("/proc/%d", pid)); err == nil {
			continue // owner still alive (another shard)
		}
		unmountTiny(f[1])
	}
}

// fillUp writes the filler until the file system is full and returns its size in pages.
func fillUp(path string) int {
	f, err := os.OpenFile(path, os.O_CREATE|os.O_WRONLY|os.O_APPEND, 0o644)
	if err != nil {
		stats.HarnessError("filler: %v", err)
	}
	defer f.Close()
	page := make([]byte, 4096)
	for i := range page {
		page[i] = 0xaa
	}
	n := 0
	for {
		if _, err := f.Write(page); err != nil {
			if !errors.Is(err, syscall.ENOSPC) {
				stats.HarnessError("filler: expected ENOSPC, got %v", err)
			}
			return n
		}
		n++
		if n > 64 {
			stats.HarnessError("filler: 64 KiB tmpfs accepted more than 256 KiB")
		}
	}
}

const enospcRule = "WAL directory on a 64 KiB tmpfs: acknowledged batches until the log ends 0-400 bytes before a 4 KiB page boundary (or 255 prune-carrying flushes: the next one triggers the cleanup; optionally close+reopen so that a new log file is needed), then a filler file takes every free page " +
	"(optionally minus one), then 1-3 flushes of 1-8 records each of which may fail with a genuine ENOSPC (in the log append, possibly after a partial write, or in the watermark temp write); " +
	"after each failure the live view and an as-is crash image are checked (batch absent or complete, never partial); then the filler is removed and append+flush must succeed, " +
	"followed by as-is image and clean reopen; non-trivial = at least one Flush really failed"

func TestPropEnospc(t *testing.T) {
	mnt, err := mountTiny()
	if err != nil {
		// not permitted here: the sub-check is skipped, never failed
		stats.Once(t, enospcRule, func(c *stats.Case) {
			c.Label("enospc_injection: unavailable")
			c.Fp("unavailable: %v", err)
		})
		t.Logf("enospc_injection: unavailable (%v)", err)
		return
	}
	defer unmountTiny(mnt)
	t.Cleanup(func() { unmountTiny(mnt) })

	stats.Check(t, stats.Budget{Quick: 30, Thorough: 400}, enospcRule,
		func(rt *rapid.T, c *stats.Case) {
			c.Label("enospc_injection: available")
			ents, _ := os.ReadDir(mnt)
			for _, e := range ents {
				_ = os.RemoveAll(filepath.Join(mnt, e.Name()))
			}
			h := newHOn(rt, c, filepath.Join(mnt, "db"))
			defer h.cleanup()
			h.enumerate = false
			filler := filepath.Join(mnt, "filler")

			mode := rapid.SampledFrom([]string{"append", "append", "append", "cleanup"}).Draw(rt, "mode")
			c.Label("mode:" + mode)
			next := uint64(1) // next height to use
			if mode == "cleanup" {
				// 255 prune records in this session: the next prune record triggers watermark write + rotation
				for i := 1; i < cleanupInterval; i++ {
					if i%64 == 0 {
						h.append(mkEntry(i%nEntryKinds, uint64(i), 0, 1, uint64(i)))
					}
					h.prune(uint64(i))
					h.flush(false)
				}
				next = cleanupInterval
			} else {
				// acknowledged batches until the log file ends within `slack` bytes of a 4 KiB page boundary
				// (tmpfs allocates page-wise: the failing flush then writes the head of its batch into the
				// allocated page and gets ENOSPC for the rest => a genuinely partial batch on disk)
				slack := rapid.SampledFrom([]int{0, 20, 60, 150, 400, 4096}).Draw(rt, "slack")
				logSize := func() int {
					s := takeSnap(walDirOf(h.base))
					return len(s.data[s.lastLog()])
				}
				for i := 0; i < 120; i++ {
					sz := logSize()
					if i > 0 && (slack == 4096 || 4096-sz%4096 <= slack) && i >= 1 {
						break
					}
					for j, n := 0, rapid.IntRange(1, 3).Draw(rt, "n"); j < n; j++ {
						h.append(mkEntry(rapid.IntRange(0, nEntryKinds-1).Draw(rt, "kind"), next+uint64(rapid.IntRange(0, 2).Draw(rt, "dh")), j, 1, uint64(i)))
					}
					if rapid.IntRange(0, 9).Draw(rt, "p") == 0 {
						h.prune(next)
						next++
					}
					h.flush(false)
				}
				if rapid.IntRange(0, 3).Draw(rt, "reopenFirst") == 0 {
					// the failing flush must then create a new log file
					h.flush(true)
					h.reopen()
					c.Label("reopen-before-fill")
				}
			}

			pages := fillUp(filler)
			if rapid.IntRange(0, 3).Draw(rt, "spare") == 0 && pages > 0 {
				// leave exactly one free page: the first thing that needs a page gets it, the second fails
				if err := os.Truncate(filler, int64(pages-1)*4096); err != nil {
					stats.HarnessError("truncate filler: %v", err)
				}
				c.Label("one-spare-page")
			}
			h.op("fill(%d pages)", pages)

			failed := 0
			for k, nf := 0, rapid.IntRange(1, 3).Draw(rt, "attempts"); k < nf; k++ {
				a := h.view
				n := rapid.IntRange(1, 8).Draw(rt, "n")
				if mode == "cleanup" && k == 0 {
					h.prune(next)
					next++
					n = rapid.IntRange(1, 2).Draw(rt, "n2")
				}
				for j := 0; j < n; j++ {
					// live heights only, so that "with" and "without" the batch always differ visibly
					h.append(mkEntry(rapid.IntRange(0, nEntryKinds-1).Draw(rt, "kind"), next+uint64(1+rapid.IntRange(0, 2).Draw(rt, "dh")), j, 2, uint64(k)))
				}
				b := a.clone().apply(h.pend)
				h.op("flush(disk full)")
				before := takeSnap(walDirOf(h.base))
				err := h.st.Flush()
				after := takeSnap(walDirOf(h.base))
				if err == nil {
					// fitted into the last allocated page: an ordinary acknowledged flush
					c.Label("flush-fitted-in-allocated-page")
					h.view, h.pend = b, nil
					got, lerr := loadAll(h.st)
					if lerr != nil || !eqStrings(got, b.flat()) {
						h.fail("live-mismatch", "disk full but Flush returned nil; live store shows %s (err %v), model %s", short(got), lerr, short(b.flat()))
					}
					h.checkSnap("as-is after successful flush on full disk", after, false, b)
					h.c.Info("images_as_is")
					continue
				}
				failed++
				if errors.Is(err, syscall.ENOSPC) || strings.Contains(err.Error(), "no space left") {
					c.Label("flush-failed:ENOSPC")
				} else {
					c.Label("flush-failed:other")
				}
				switch {
				case strings.Contains(err.Error(), "writePruneWatermark"):
					c.Label("failed-in:watermark-write")
				case strings.Contains(err.Error(), "create WAL writer"):
					c.Label("failed-in:create-log-file")
				case strings.Contains(err.Error(), "write WAL record"), strings.Contains(err.Error(), "sync WAL record"):
					c.Label("failed-in:log-append")
				default:
					c.Label("failed-in:other")
				}
				if fl := after.lastLog(); fl != "" && len(after.data[fl]) < len(before.data[fl]) {
					h.fail("failed-flush-shrank-log", "failed Flush (%v) left %s shorter than before (%d < %d)", err, fl, len(after.data[fl]), len(before.data[fl]))
				}
				// live view: without the batch (it stays pending and is retried) or with it (reported failure after commit)
				got, lerr := loadAll(h.st)
				switch {
				case lerr == nil && eqStrings(got, a.flat()):
					c.Label("after-failure:batch-absent,stays-pending")
				case lerr == nil && eqStrings(got, b.flat()):
					c.Label("after-failure:batch-committed")
					h.view, h.pend = b, nil
				default:
					h.fail("failed-flush-live-"+classify(got, a, b), "Flush failed with %v; live store shows %s (err %v)\n  without the batch: %s\n  with it: %s", err, short(got), lerr, short(a.flat()), short(b.flat()))
				}
				// crash right after the failed flush returned: absent or complete, never partial, and it opens
				h.checkSnap(fmt.Sprintf("as-is after FAILED flush (%v)", err), after, false, a, b)
				h.c.Info("images_after_failed_flush")
			}
			if failed > 0 {
				c.NonTrivial("flush-failed-for-real")
			}

			if err := os.Remove(filler); err != nil {
				stats.HarnessError("remove filler: %v", err)
			}
			h.op("free")
			// "does not make the log unusable": with space back, append + flush succeed and everything
			// (retried records included) is there exactly once
			h.append(mkEntry(7, next+5, 3, 3, 3))
			exp := h.view.clone().apply(h.pend)
			h.op("flush")
			if err := h.st.Flush(); err != nil {
				h.fail("unusable-after-failed-flush", "space is available again but Flush still fails: %v", err)
			}
			h.view, h.pend = exp, nil
			got, lerr := loadAll(h.st)
			if lerr != nil || !eqStrings(got, exp.flat()) {
				h.fail("after-recovery-live-"+classify(got, exp, exp), "after freeing space and flushing, live store shows %s (err %v), model %s", short(got), lerr, short(exp.flat()))
			}
			h.checkSnap("as-is after the flush that followed the failure(s)", takeSnap(walDirOf(h.base)), true, exp)
			h.c.Info("images_as_is")
			h.flush(true)
			h.reopen()
			ops := h.ops
			if len(ops) > 60 {
				ops = ops[len(ops)-60:]
			}
			c.Sample(func() any { return strings.Join(ops, " ; ") })
		})
}
