//go:build verif

// Crash images BETWEEN the file-system steps of one Flush (DESIGN §5, hook H1). Needs
// consensus/walstore/verif_on.go + the verifPoint calls of hook_H1.diff in /repo. Until that patch
// is committed this file is additionally guarded by the tag `verifhook_h1` so that the package
// still compiles against the unpatched /repo; drop the extra tag once the hook is in.
package c14

import (
	"fmt"

	"github.com/NethermindEth/juno/consensus/walstore"
)

const hookAvailable = true

func installHook(h *H, walDir string) {
	walstore.VerifHook = func(point string) {
		// runs inside Flush with the store's mutex held: only copy the directory
		h.hooks = append(h.hooks, hookSnap{point: point, s: takeSnap(walDir)})
	}
}

func removeHook() { walstore.VerifHook = nil }

// setHook installs an arbitrary callback (nil = none) at the hook points; used by the fault-injection
// check to know which step of a Flush is running and to time faults of the os-level calls.
func setHook(f func(point string)) { walstore.VerifHook = f }

// processHooks turns the directory copies taken inside the last Flush into crash images.
// At every point the batch has been synced but Flush has not returned: the batch is "the one
// being flushed", so the allowed outcomes are A (without it) and B (complete).
func (h *H) processHooks(before snap, a, b *view) {
	if len(h.hooks) <= 1 {
		// only "append-synced": identical to the directory after the flush, already enumerated
		return
	}
	h.c.NonTrivial("images-inside-cleanup-sequence")
	syncedFile, syncedSize := "", 0
	for i, hs := range h.hooks {
		tag := fmt.Sprintf("hook#%d %s", i, hs.point)
		h.c.Info("images_hook_" + hs.point)
		switch hs.point {
		case "append-synced":
			// the flush went on to run the cleanup, so the after-flush directory could not be used for
			// the per-offset enumeration; this copy can.
			h.checkSnap(tag, hs.s, true, a, b)
			file := hs.s.lastLog()
			syncedFile, syncedSize = file, len(hs.s.data[file])
			if file != "" && h.enumerate {
				prev := len(before.data[file])
				if syncedSize > prev {
					h.enumerateRegion("flush(+cleanup)", hs.s, file, prev, syncedSize, a, b, true)
					h.c.Label("enumerated-inside-batch-write")
				}
			}
		case "watermark-tmp-written":
			h.checkSnap(tag, hs.s, true, a, b)
			// the temp file at every length it passes through while being written
			tmp := hs.s.data["prune-watermark.tmp"]
			h.im.load(hs.s, "prune-watermark.tmp")
			for k := 0; k < len(tmp); k++ {
				h.im.set(tmp[:k])
				h.checkOpen(fmt.Sprintf("%s, temp watermark cut at %d", tag, k), k%8 == h.phase, a, b)
				h.c.Info("images_watermark_tmp_partial")
			}
		case "rotated":
			h.checkSnap(tag, hs.s, true, a, b)
			// the closed log file now ends with Pebble's EOF trailer: cut / corrupt it at every offset
			if f := hs.s.lastLog(); f == syncedFile && f != "" && h.enumerate {
				if sz := len(hs.s.data[f]); sz > syncedSize {
					h.enumerateRegion("rotation trailer", hs.s, f, syncedSize, sz, a, b, false)
				}
			}
		default: // watermark-renamed, watermark-dir-synced, obsolete-removed
			h.checkSnap(tag, hs.s, true, a, b)
		}
	}
}
