//go:build !verif

package c14

// Hook H1 (hook_H1.diff) is not in the tree this binary was built against: no images between the
// file-system steps of one Flush; flushes that run the cleanup get the as-is image only.

const hookAvailable = false

func installHook(*H, string) {}

func removeHook() {}

func setHook(func(point string)) {}

func (h *H) processHooks(before snap, a, b *view) {}
