package c19

// Result lifetime as part of the generated history.
//
// A receiver reconstructs many messages over its lifetime (several committees and publishers, one
// subprocessor per message key) and HOLDS what it was handed: subprocessor.Run keeps the message
// returned by ConstructMessageFromUnits during the whole receive stage (processor.go
// beforeMessageReceivedStage) while other subprocessors reconstruct other messages; the publisher's
// units and the rebuilt local unit (shard + proof) are handed to the broadcaster. "Reconstructed bit
// for bit" therefore has to hold for as long as the value is in use, not only at the instant the call
// returns: a case here is a STREAM of messages, and every value the API handed out earlier (units of
// CreatePropellerUnits, units off the wire, units accepted by Validate, message / local shard / local
// proof of every reconstruction) is kept and re-verified against the published originals (deep copies
// taken at hand-out time) after every later operation and at the end of the case. Every slice the
// caller passed in (message, index-addressed unit slice and the units it points to) is fingerprinted
// before the call and re-verified the same way.

import (
	"bytes"
	"fmt"
	"runtime"
	"sort"
	"sync"
	"testing"

	"github.com/NethermindEth/juno/consensus/propeller"
	"pgregory.net/rapid"

	"verif/harness/internal/stats"
)

type streamItem struct {
	id        int
	mode      string // "direct": CreatePropellerUnits -> ConstructMessageFromUnits; "committee": wire + routed UnitValidator in between
	d, p      int
	msg       []byte // the published original; never passed to the code under test
	in        []byte // the caller's slice handed to CreatePropellerUnits (nil when the reference publisher made the units)
	pub       ident
	committee hash
	nonce     int64
	w         *world
	route     *router
	published bool
	lm        leafMode
	joined    int // shard size * (data+parity): the size of the buffer reconstruction joins the shards in

	created     []propeller.Unit // live: exactly what CreatePropellerUnits handed out
	createdSnap []propeller.Unit // deep copies taken at hand-out time
	wire        []propeller.Unit // committee mode, live: what UnitFromProto handed out
	wireSnap    []propeller.Unit
	received    []*propeller.Unit // committee mode, live: units accepted by Validate, index-addressed (the Processor's unitsReceived)
	pending     []int             // committee mode: present shards not delivered yet, in arrival order
	present     []bool            // committee mode: the shards that ever arrive
}

// honest: the publisher's units as they were when handed out (independent of the live values).
func (it *streamItem) honest() []propeller.Unit {
	if it.mode == "committee" {
		return it.wireSnap
	}
	return it.createdSnap
}

// live: the units a receiver works on.
func (it *streamItem) live() []propeller.Unit {
	if it.mode == "committee" {
		return it.wire
	}
	return it.created
}

type heldRecon struct {
	it        *streamItem
	op        int
	what      string
	r         constructResult // live: message, local shard, local proof as returned
	shardSnap [][]byte
	sibSnap   []hash
	ptrs      []*propeller.Unit // live: the caller's slice that was passed to the call
	ptrCopy   []*propeller.Unit // its elements at call time
	ptrSnap   []propeller.Unit  // deep copies of the pointees at call time
	local     int
	joined    int
}

type stream struct {
	items    []*streamItem
	held     []*heldRecon
	reverify int // held values re-verified after a later operation
}

func snapshotUnits(us []propeller.Unit) []propeller.Unit {
	out := make([]propeller.Unit, len(us))
	for i := range us {
		out[i] = cloneUnit(&us[i])
	}
	return out
}

func joinedSize(msg []byte, d, p int) int { return len(refPad(msg, d)) / d * (d + p) }

// detectLeafMode is currentLeafMode without the bookkeeping (usable off the test goroutine).
func detectLeafMode(units []propeller.Unit) leafMode {
	if !stats.Known(kLeaf) || len(units) == 0 {
		return leafProto
	}
	leaves := make([][]byte, len(units))
	for i := range units {
		leaves[i] = leafBytes(leafProto, shardSlices(units[i].ShardData))
	}
	if hash(units[0].MessageRoot) == refRoot(leaves) {
		return leafProto
	}
	return leafRaw
}

// publishDirect: the publisher's call; the units are snapshotted at hand-out time and compared field by field
// with the reference publisher. Returns the failed oracle, if any ("" = fine).
func (it *streamItem) publishDirect() (key, detail string) {
	cid := propeller.CommitteeID(it.committee)
	it.in = append([]byte{}, it.msg...)
	var units []propeller.Unit
	var err error
	if pn := safely(func() {
		units, err = propeller.CreatePropellerUnits(it.pub.priv, &cid, propeller.Nonce(it.nonce), it.in, it.d, it.p)
	}); pn != nil {
		return "panic", fmt.Sprintf("CreatePropellerUnits(msg len %d, data %d, parity %d) panicked: %v", len(it.msg), it.d, it.p, pn)
	}
	if err != nil {
		return "create-error", fmt.Sprintf("CreatePropellerUnits(msg len %d, data %d, parity %d) failed: %v", len(it.msg), it.d, it.p, err)
	}
	if len(units) != it.d+it.p {
		return "unit-count", fmt.Sprintf("CreatePropellerUnits(data %d, parity %d) returned %d units", it.d, it.p, len(units))
	}
	it.created, it.createdSnap = units, snapshotUnits(units)
	it.lm = detectLeafMode(units)
	want, err := refCreate(it.pub, it.committee, it.nonce, it.msg, it.d, it.p, it.lm)
	if err != nil {
		return "rs-encode", fmt.Sprintf("reference publisher: EncodeData failed: %v", err)
	}
	for i := range units {
		if f := unitDiff(&units[i], &want[i]); f != "" {
			return "unit-field:" + f, fmt.Sprintf("message #%d: CreatePropellerUnits(nonce %d, msg len %d, data %d, parity %d): unit %d field %s differs from the reference publisher",
				it.id, it.nonce, len(it.msg), it.d, it.p, i, f)
		}
	}
	it.published = true
	return "", ""
}

// reconstruct runs one ConstructMessageFromUnits call on the caller's slice ptrs, checks the result against the
// published original and the publisher's units as they were at hand-out time, and keeps everything that went in and
// came out. Returns the failed oracle, if any.
func (s *stream) reconstruct(it *streamItem, op int, what string, ptrs []*propeller.Unit, local int) (key, detail string) {
	h := &heldRecon{it: it, op: op, what: what, ptrs: ptrs, ptrCopy: append([]*propeller.Unit{}, ptrs...), ptrSnap: make([]propeller.Unit, len(ptrs)),
		local: local, joined: it.joined}
	present := make([]bool, len(ptrs))
	for i, u := range ptrs {
		if u != nil {
			h.ptrSnap[i] = cloneUnit(u)
			present[i] = true
		}
	}
	r := construct(ptrs, local, it.d, it.p)
	where := fmt.Sprintf("op %d (%s) message #%d present=%s local %d data %d parity %d msg len %d", op, what, it.id, bits(present), local, it.d, it.p, len(it.msg))
	if r.pn != nil {
		return "construct-panic", where + ": ConstructMessageFromUnits panicked: " + fmt.Sprint(r.pn)
	}
	if r.err != nil {
		return "construct-error", where + ": ConstructMessageFromUnits failed: " + r.err.Error()
	}
	if !bytes.Equal(r.msg, it.msg) {
		return "construct-message", fmt.Sprintf("%s: reconstructed message (len %d) differs from the published one right after the call", where, len(r.msg))
	}
	hu := &it.honest()[local]
	if len(r.shard) != 1 || !bytes.Equal(r.shard[0], hu.ShardData[0]) {
		return "construct-local-shard", where + ": local shard returned by reconstruction differs from the publisher's shard"
	}
	sib := make([]hash, len(r.proof.Siblings))
	for k, x := range r.proof.Siblings {
		sib[k] = hash(x)
	}
	if fmt.Sprint(sib) != fmt.Sprint(siblingsOf(hu)) || !refVerify(hash(hu.MessageRoot), leafBytes(it.lm, shardSlices(r.shard)), uint32(local), sib) {
		return "construct-local-proof", where + ": local proof returned by reconstruction differs from the publisher's proof / does not verify"
	}
	h.r = r
	h.shardSnap = [][]byte{append([]byte{}, r.shard[0]...)}
	h.sibSnap = sib
	s.held = append(s.held, h)
	return "", ""
}

// firstChange re-verifies every value handed out so far and every input passed in so far. Returns the first value
// that is no longer what it was at hand-out / call time ("" = nothing changed).
func (s *stream) firstChange(after string) (key, detail string) {
	for _, it := range s.items {
		if !it.published {
			continue
		}
		if it.in != nil && !bytes.Equal(it.in, it.msg) {
			return "input-message-mutated", fmt.Sprintf("the caller's message slice of message #%d (len %d) passed to CreatePropellerUnits was altered; noticed after %s", it.id, len(it.msg), after)
		}
		for i := range it.created {
			s.reverify++
			if f := unitDiff(&it.created[i], &it.createdSnap[i]); f != "" {
				return "held-unit-changed", fmt.Sprintf("unit %d of message #%d handed out by CreatePropellerUnits changed in field %s after %s", i, it.id, f, after)
			}
		}
		for i := range it.wire {
			s.reverify++
			if f := unitDiff(&it.wire[i], &it.wireSnap[i]); f != "" {
				return "held-unit-changed", fmt.Sprintf("unit %d of message #%d handed out by UnitFromProto changed in field %s after %s", i, it.id, f, after)
			}
		}
		for i, u := range it.received {
			if u == nil {
				continue
			}
			s.reverify++
			if f := unitDiff(u, &it.wireSnap[i]); f != "" {
				return "validated-unit-changed", fmt.Sprintf("unit %d of message #%d accepted by Validate changed in field %s after %s", i, it.id, f, after)
			}
		}
	}
	for _, h := range s.held {
		s.reverify++
		who := fmt.Sprintf("op %d (%s) on message #%d (data %d parity %d msg len %d, joined size %d)", h.op, h.what, h.it.id, h.it.d, h.it.p, len(h.it.msg), h.joined)
		if !bytes.Equal(h.r.msg, h.it.msg) {
			at := 0
			for at < len(h.r.msg) && at < len(h.it.msg) && h.r.msg[at] == h.it.msg[at] {
				at++
			}
			return "held-message-changed", fmt.Sprintf("the message delivered by %s is no longer the published one after %s (first difference at byte %d of %d)", who, after, at, len(h.it.msg))
		}
		if len(h.r.shard) != 1 || !bytes.Equal(h.r.shard[0], h.shardSnap[0]) {
			return "held-local-shard-changed", fmt.Sprintf("the local shard delivered by %s changed after %s", who, after)
		}
		if len(h.r.proof.Siblings) != len(h.sibSnap) {
			return "held-local-proof-changed", fmt.Sprintf("the local proof delivered by %s changed length after %s", who, after)
		}
		for k := range h.sibSnap {
			if hash(h.r.proof.Siblings[k]) != h.sibSnap[k] {
				return "held-local-proof-changed", fmt.Sprintf("the local proof delivered by %s changed at level %d after %s", who, k, after)
			}
		}
		for i := range h.ptrCopy {
			if h.ptrs[i] != h.ptrCopy[i] {
				return "construct-mutates-input", fmt.Sprintf("entry %d of the caller's unit slice passed to %s was replaced; noticed after %s", i, who, after)
			}
			if h.ptrs[i] == nil {
				continue
			}
			if f := unitDiff(h.ptrs[i], &h.ptrSnap[i]); f != "" {
				return "construct-mutates-input", fmt.Sprintf("unit %d passed to %s changed in field %s; noticed after %s", i, who, f, after)
			}
		}
	}
	return "", ""
}

func (s *stream) mustBeUnchanged(c *stats.Case, after string) {
	if key, detail := s.firstChange(after); key != "" {
		c.Violation(key, "%s", detail)
	}
}

func genDirectItem(rt *rapid.T, id, d, p, n int) *streamItem {
	it := &streamItem{id: id, mode: "direct", d: d, p: p}
	it.msg = genMsg(rt, n)
	it.pub = identities()[rapid.IntRange(0, nIdents-1).Draw(rt, "publisher")]
	it.committee = genHash(rt, "committee")
	it.joined = joinedSize(it.msg, d, p)
	return it
}

func bucket(n int) string {
	switch {
	case n <= 2:
		return fmt.Sprint(n)
	case n <= 4:
		return "3-4"
	case n <= 8:
		return "5-8"
	case n <= 16:
		return "9-16"
	default:
		return "17+"
	}
}

func bucketBig(n int) string {
	switch {
	case n < 50:
		return "<50"
	case n < 200:
		return "50-199"
	case n < 1000:
		return "200-999"
	default:
		return "1000+"
	}
}

// presentPtrs builds the caller's index-addressed slice: pointers to the live units (what the Processor passes) or to copies.
func presentPtrs(it *streamItem, present []bool, aliasLive bool) []*propeller.Unit {
	if !aliasLive {
		return ptrsOf(it.live(), present)
	}
	out := make([]*propeller.Unit, len(present))
	for i, ok := range present {
		if ok {
			out[i] = &it.live()[i]
		}
	}
	return out
}

func TestPropStreamHeldResults(t *testing.T) {
	stats.Check(t, stats.Budget{Quick: 1500, Thorough: 20000},
		"a STREAM of 2..6 (thorough 2..12) messages on one goroutine, each with its own (data,parity) in 1..8 x 1..8 / committee of 2..25 peers, length (padding/varint boundaries), "+
			"publisher, committee id, nonce; published up-front or right before first use; reconstructed in drawn / descending / ascending / equal joined-size order "+
			"(joined size = shard size x (data+parity)) from any present subset >= data (direct: index-addressed slice pointing at the live units or at copies; committee: "+
			"wire round trip, routed UnitValidator, arrival order, reconstruction at BuildThreshold and again with all present units), some messages reconstructed again from "+
			"another subset, interleaved with reconstructions that must fail or return the same message (too few shards, a flipped shard bit, a flipped root bit); EVERY value "+
			"handed out so far (units of CreatePropellerUnits / UnitFromProto / accepted by Validate; message, local shard, local proof of every successful reconstruction) and "+
			"every input passed in so far (message slice, unit slice, pointed-to units) is re-verified against deep copies / the published original taken at hand-out time after "+
			"every later operation and at the end of the case; non-trivial = a held reconstruction result outlived a later successful reconstruction of ANOTHER message whose "+
			"joined size is not larger (so an internal buffer could have been reused)",
		func(rt *rapid.T, c *stats.Case) {
			s := &stream{}
			nItems := rapid.IntRange(2, stats.Pick(6, 12)).Draw(rt, "items")
			profile := rapid.SampledFrom([]string{"drawn", "drawn", "descending", "ascending", "same-size"}).Draw(rt, "profile")
			publishFirst := rapid.Bool().Draw(rt, "publishFirst")
			c.Label("profile:" + profile)
			c.Label("stream:items=" + bucket(nItems))

			// ---- the messages of the stream
			var d0, p0, n0 int
			if profile == "same-size" {
				d0, p0 = genDP(rt)
				n0, _ = genMsgLen(rt, d0)
			}
			for id := 0; id < nItems; id++ {
				var it *streamItem
				switch {
				case profile == "same-size":
					it = genDirectItem(rt, id, d0, p0, n0)
					it.nonce = genNonce(rt, c)
				case rapid.IntRange(0, 2).Draw(rt, "committeeMode") == 0:
					// committee mode: genWorld publishes with CreatePropellerUnits and takes the units over the wire
					w := genWorld(rt, c)
					it = &streamItem{id: id, mode: "committee", d: w.d, p: w.p, msg: w.msg, pub: w.publisher, committee: w.committee, nonce: w.nonce, w: w, lm: w.lm}
					it.msg = append([]byte{}, w.msg...) // the original the oracle holds on to is not the slice the world works with
					it.joined = joinedSize(it.msg, it.d, it.p)
					if w.fullFlow {
						it.in = w.in
						it.created, it.createdSnap = w.created, snapshotUnits(w.created)
					}
					it.wire, it.wireSnap = w.units, snapshotUnits(w.units)
					it.received = make([]*propeller.Unit, it.d+it.p)
					it.route = &router{w: w, c: c, vs: map[mkey]*propeller.UnitValidator{}}
					it.published = true
					c.Label("mode:committee")
				default:
					d, p := genDP(rt)
					n, _ := genMsgLen(rt, d)
					it = genDirectItem(rt, id, d, p, n)
					it.nonce = genNonce(rt, c)
					c.Label("mode:direct")
				}
				s.items = append(s.items, it)
				c.Fp("it %s %d %d %d %x %x %d", it.mode, it.d, it.p, len(it.msg), refLeafHash(it.msg), it.committee, it.nonce)
				s.mustBeUnchanged(c, fmt.Sprintf("message #%d was generated", id))
			}
			publish := func(it *streamItem) {
				if it.published {
					return
				}
				if key, detail := it.publishDirect(); key != "" {
					c.Violation(key, "%s", detail)
				}
				s.mustBeUnchanged(c, fmt.Sprintf("CreatePropellerUnits for message #%d", it.id))
			}
			if publishFirst {
				c.Label("publish:up-front")
				for _, it := range s.items {
					publish(it)
				}
			} else {
				c.Label("publish:before-first-use")
			}

			// ---- the order in which the receiver reconstructs them
			order := make([]int, nItems)
			for i := range order {
				order[i] = i
			}
			switch profile {
			case "descending":
				sort.SliceStable(order, func(a, b int) bool { return s.items[order[a]].joined > s.items[order[b]].joined })
			case "ascending":
				sort.SliceStable(order, func(a, b int) bool { return s.items[order[a]].joined < s.items[order[b]].joined })
			}
			for x := rapid.IntRange(0, nItems).Draw(rt, "extra"); x > 0; x-- {
				order = append(order, rapid.IntRange(0, nItems-1).Draw(rt, "again"))
			}
			if profile == "drawn" {
				order = rapid.Permutation(order).Draw(rt, "order")
			}

			type done struct{ item, joined int }
			var ok []done
			outlived, dataMissing, shard0Missing := 0, false, false
			record := func(it *streamItem, present []bool) {
				for _, e := range ok {
					if e.item != it.id && it.joined <= e.joined {
						outlived++
					}
				}
				ok = append(ok, done{it.id, it.joined})
				for i := 0; i < it.d; i++ {
					if !present[i] {
						dataMissing = true
					}
				}
				if !present[0] {
					shard0Missing = true
				}
			}

			for opNo, k := range order {
				it := s.items[k]
				publish(it)
				total := it.d + it.p

				// now and then a reconstruction that must not deliver anything else than the message, in between
				if rapid.IntRange(0, 3).Draw(rt, "failingFirst") == 0 {
					vi := s.items[rapid.IntRange(0, nItems-1).Draw(rt, "failingItem")]
					if vi.published && (vi.mode == "direct" || vi.w.fullFlow) {
						kind := rapid.SampledFrom([]string{"too-few", "shard-bit", "root-first"}).Draw(rt, "failingKind")
						all := make([]bool, vi.d+vi.p)
						for i := range all {
							all[i] = kind != "too-few" || i < vi.d-1
						}
						bad := ptrsOf(vi.honest(), all)
						switch kind {
						case "shard-bit":
							v := rapid.IntRange(0, len(bad)-1).Draw(rt, "victim")
							sh := bad[v].ShardData[0]
							sh[rapid.IntRange(0, len(sh)-1).Draw(rt, "pos")] ^= 1 << uint(rapid.IntRange(0, 7).Draw(rt, "bit"))
						case "root-first":
							bad[0].MessageRoot[rapid.IntRange(0, 31).Draw(rt, "pos")] ^= 1 << uint(rapid.IntRange(0, 7).Draw(rt, "bit"))
						}
						c.Fp("bad %d %s", vi.id, kind)
						c.Label("between:" + kind)
						r := construct(bad, rapid.IntRange(0, len(bad)-1).Draw(rt, "badLocal"), vi.d, vi.p)
						if r.pn != nil {
							c.Violation("construct-panic", "op %d: ConstructMessageFromUnits of message #%d with %s panicked: %v", opNo, vi.id, kind, r.pn)
						}
						if r.err == nil && (kind == "too-few" || !bytes.Equal(r.msg, vi.msg)) {
							c.Violation("construct-different-message", "op %d: ConstructMessageFromUnits of message #%d with %s delivered a message (len %d, published len %d)", opNo, vi.id, kind, len(r.msg), len(vi.msg))
						}
						s.mustBeUnchanged(c, fmt.Sprintf("op %d: a reconstruction of message #%d with %s (err=%v)", opNo, vi.id, kind, r.err))
					}
				}

				if it.mode == "direct" {
					present := genPresent(rt, c, it.d, it.p, stats.Known(kNilUnit0))
					local := rapid.IntRange(0, total-1).Draw(rt, "localShard")
					alias := rapid.Bool().Draw(rt, "aliasLive")
					c.Fp("rc %d %s %d %v", k, bits(present), local, alias)
					if key, detail := s.reconstruct(it, opNo, "direct", presentPtrs(it, present, alias), local); key != "" {
						c.Violation(key, "%s", detail)
					}
					record(it, present)
					s.mustBeUnchanged(c, fmt.Sprintf("op %d: reconstruction of message #%d (joined size %d)", opNo, it.id, it.joined))
					continue
				}

				// committee mode: deliveries through the routed validator, reconstruction like the subprocessor does
				w := it.w
				if it.present == nil {
					it.present = genPresent(rt, c, it.d, it.p, w.fullFlow && stats.Known(kNilUnit0))
					for i, in := range it.present {
						if in {
							it.pending = append(it.pending, i)
						}
					}
					it.pending = rapid.Permutation(it.pending).Draw(rt, "arrival")
					if w.fullFlow && stats.Known(kNilUnit0) { // shard 0 arrives first while the nil-unit-0 finding is open
						sort.SliceStable(it.pending, func(a, b int) bool { return it.pending[a] == 0 && it.pending[b] != 0 })
					}
				}
				count := 0
				for _, u := range it.received {
					if u != nil {
						count++
					}
				}
				// first visit: up to the build threshold; later visits: everything that is still to arrive
				upTo := len(it.pending)
				if count < it.d {
					upTo = it.d - count
				}
				for _, i := range it.pending[:upTo] {
					sender, okS := w.rs.honestSender(w.publisher.id, w.local.id, i)
					if !okS {
						stats.HarnessError("no honest sender for shard %d", i)
					}
					u := cloneUnit(&it.wire[i])
					if err := it.route.deliver(&u, sender); err != nil {
						c.Violation("honest-rejected", "op %d: honest unit %d/%d of message #%d (N=%d, data %d, coding %d, local shard %d, msg len %d, nonce %d) sent by its scheduled sender was rejected: %v",
							opNo, i, total, it.id, len(w.members), it.d, it.p, w.localIdx, len(it.msg), it.nonce, err)
					}
					it.received[i] = &u
				}
				it.pending = it.pending[upTo:]
				got := make([]bool, total)
				for i := range it.received {
					got[i] = it.received[i] != nil
				}
				c.Fp("rcv %d %s", k, bits(got))
				s.mustBeUnchanged(c, fmt.Sprintf("op %d: %d units of message #%d validated", opNo, upTo, it.id))
				if !w.fullFlow {
					c.Label("validator-only(reference publisher)")
					continue
				}
				if key, detail := s.reconstruct(it, opNo, "committee", append([]*propeller.Unit{}, it.received...), w.localIdx); key != "" {
					c.Violation(key, "%s", detail)
				}
				record(it, got)
				s.mustBeUnchanged(c, fmt.Sprintf("op %d: reconstruction of message #%d (joined size %d)", opNo, it.id, it.joined))
			}

			s.mustBeUnchanged(c, "the end of the case")

			c.Label("stream:reconstructions=" + bucket(len(ok)))
			c.Label("stream:held-values-reverified=" + bucketBig(s.reverify))
			if len(ok) >= 2 {
				c.Label("held-result-reverified-after-later-reconstruction")
			}
			if dataMissing {
				c.Label("data-shard-missing")
			}
			if shard0Missing {
				c.Label("shard0-missing")
			}
			if outlived > 0 {
				c.NonTrivial("held-result-outlived-not-larger-reconstruction")
				c.Label("outlived-pairs=" + bucket(outlived))
			}
			c.Sample(func() any {
				var items []map[string]any
				for _, it := range s.items {
					items = append(items, map[string]any{"mode": it.mode, "data": it.d, "parity": it.p, "msg_len": len(it.msg), "joined": it.joined})
				}
				return map[string]any{"profile": profile, "publish_first": publishFirst, "messages": items, "reconstruction_order": order,
					"held_results": len(s.held), "held_values_reverified": s.reverify}
			})
		})
}

// ---------------------------------------------------------------------------------- concurrent variant (-race)

type raceOp struct {
	item    int
	present []bool
	local   int
	alias   bool
	yield   bool
}

type raceWorker struct {
	s    stream
	ops  []raceOp
	key  string
	fail string
}

func (wk *raceWorker) run(wg *sync.WaitGroup, start <-chan struct{}) {
	defer wg.Done()
	defer func() {
		if r := recover(); r != nil {
			wk.key, wk.fail = "panic", fmt.Sprintf("worker panicked: %v", r)
		}
	}()
	<-start
	for opNo, op := range wk.ops {
		it := wk.s.items[op.item]
		if !it.published {
			if wk.key, wk.fail = it.publishDirect(); wk.key != "" {
				return
			}
		}
		if op.yield {
			runtime.Gosched()
		}
		if wk.key, wk.fail = wk.s.reconstruct(it, opNo, "concurrent", presentPtrs(it, op.present, op.alias), op.local); wk.key != "" {
			return
		}
		if op.yield {
			runtime.Gosched()
		}
		if wk.key, wk.fail = wk.s.firstChange(fmt.Sprintf("op %d of the same goroutine (others running concurrently)", opNo)); wk.key != "" {
			return
		}
	}
}

func TestRaceStreamHeldResults(t *testing.T) {
	// Fewer Ps than goroutines: the goroutines really run in parallel and also take turns on the same P.
	defer runtime.GOMAXPROCS(runtime.GOMAXPROCS(2))
	stats.Check(t, stats.Budget{Quick: 120, Thorough: 2500},
		"2..4 goroutines (2 Ps, -race), each reconstructing its own stream of 2..5 messages ((data,parity) in 1..8 x 1..8, lengths at padding/varint boundaries, any present "+
			"subset >= data, published up-front or inside the goroutine, drawn yield points) while holding every earlier result; schedule-independent oracle: every value handed "+
			"out to a goroutine (units, message, local shard, local proof) and every input it passed equals the published original / the deep copy taken at hand-out time after "+
			"each of its own later operations and after all goroutines have finished; plus the race detector on the delivered bytes; non-trivial = some goroutine held a result "+
			"across a later reconstruction",
		func(rt *rapid.T, c *stats.Case) {
			nW := rapid.IntRange(2, 4).Draw(rt, "goroutines")
			publishFirst := rapid.Bool().Draw(rt, "publishFirst")
			workers := make([]*raceWorker, nW)
			id := 0
			for g := range workers {
				wk := &raceWorker{}
				nItems := rapid.IntRange(2, 5).Draw(rt, "items")
				for i := 0; i < nItems; i++ {
					d, p := genDP(rt)
					n, _ := genMsgLen(rt, d)
					it := genDirectItem(rt, id, d, p, n)
					it.nonce = genNonce(rt, c)
					id++
					wk.s.items = append(wk.s.items, it)
					c.Fp("g%d it %d %d %d %x", g, d, p, n, refLeafHash(it.msg))
					if publishFirst {
						if key, detail := it.publishDirect(); key != "" {
							c.Violation(key, "%s", detail)
						}
					}
				}
				order := make([]int, nItems)
				for i := range order {
					order[i] = i
				}
				for x := rapid.IntRange(0, 2).Draw(rt, "extra"); x > 0; x-- {
					order = append(order, rapid.IntRange(0, nItems-1).Draw(rt, "again"))
				}
				order = rapid.Permutation(order).Draw(rt, "order")
				for _, k := range order {
					it := wk.s.items[k]
					op := raceOp{item: k, present: genPresent(rt, c, it.d, it.p, stats.Known(kNilUnit0)), local: rapid.IntRange(0, it.d+it.p-1).Draw(rt, "localShard"),
						alias: rapid.Bool().Draw(rt, "aliasLive"), yield: rapid.Bool().Draw(rt, "yield")}
					wk.ops = append(wk.ops, op)
					c.Fp("g%d rc %d %s %d %v", g, k, bits(op.present), op.local, op.yield)
				}
				workers[g] = wk
			}
			c.Labelf("goroutines=%d", nW)
			if publishFirst {
				c.Label("publish:up-front")
			} else {
				c.Label("publish:inside-goroutine")
			}

			var wg sync.WaitGroup
			start := make(chan struct{})
			for _, wk := range workers {
				wg.Add(1)
				go wk.run(&wg, start)
			}
			close(start)
			wg.Wait()

			held := 0
			for g, wk := range workers {
				if wk.key != "" {
					c.Violation(wk.key, "goroutine %d of %d: %s", g, nW, wk.fail)
				}
				if key, detail := wk.s.firstChange("all goroutines finished"); key != "" {
					c.Violation(key, "goroutine %d of %d: %s", g, nW, detail)
				}
				held += len(wk.s.held)
			}
			c.Label("stream:reconstructions=" + bucket(held))
			c.NonTrivial("results-held-across-later-concurrent-reconstructions")
			c.Sample(func() any {
				var gs []map[string]any
				for _, wk := range workers {
					var items []map[string]any
					for _, it := range wk.s.items {
						items = append(items, map[string]any{"data": it.d, "parity": it.p, "msg_len": len(it.msg), "joined": it.joined})
					}
					gs = append(gs, map[string]any{"messages": items, "reconstructions": len(wk.ops)})
				}
				return map[string]any{"goroutines": gs, "publish_first": publishFirst}
			})
		})
}
