package c19

// Independent reference implementations, written from the schemes the propeller package documents
// (doc comments of padding.go, merkle/merkle.go, signing.go, scheduler.go, proto/propeller.proto).
// Nothing in this file calls the code under test except refCreate's use of the Reed-Solomon
// wrapper (trusted there; checked on its own by TestPropReedSolomon).

import (
	"bytes"
	"crypto/ed25519"
	"crypto/sha256"
	"sort"
	"sync"

	"github.com/NethermindEth/juno/consensus/propeller"
	"github.com/NethermindEth/juno/consensus/propeller/merkle"
	"github.com/NethermindEth/juno/consensus/propeller/reedsolomon"
	"github.com/libp2p/go-libp2p/core/crypto"
	"github.com/libp2p/go-libp2p/core/peer"

	"verif/harness/internal/stats"
)

// ---------------------------------------------------------------- varint + padding

func refPutUvarint(x uint64) []byte {
	var out []byte
	for x >= 0x80 {
		out = append(out, byte(x&0x7f)|0x80)
		x >>= 7
	}
	return append(out, byte(x))
}

// refUvarint parses a base-128 little-endian unsigned varint of at most 64 bits.
func refUvarint(b []byte) (val uint64, n int, ok bool) {
	for i := 0; i < len(b) && i < 10; i++ {
		c := b[i]
		if i == 9 && c > 1 {
			return 0, 0, false // more than 64 bits
		}
		val |= uint64(c&0x7f) << (7 * uint(i))
		if c < 0x80 {
			return val, i + 1, true
		}
	}
	return 0, 0, false // truncated or too long
}

// refPad: [varint(len(msg))] [msg] [zeros] with the total the smallest multiple of 2*numDataShards.
func refPad(msg []byte, numDataShards int) []byte {
	out := append(refPutUvarint(uint64(len(msg))), msg...)
	div := 2 * numDataShards
	for len(out)%div != 0 {
		out = append(out, 0)
	}
	return out
}

// refUnpad: ok=false when the varint is malformed or the declared length exceeds the available data.
func refUnpad(p []byte) ([]byte, bool) {
	l, n, ok := refUvarint(p)
	if !ok {
		return nil, false
	}
	if l > uint64(len(p)-n) {
		return nil, false
	}
	return p[n : n+int(l)], true
}

// ---------------------------------------------------------------- merkle

type hash = [32]byte

func refLeafHash(data []byte) hash {
	h := sha256.New()
	h.Write([]byte("<leaf>"))
	h.Write(data)
	h.Write([]byte("</leaf>"))
	var out hash
	copy(out[:], h.Sum(nil))
	return out
}

func refNodeHash(l, r hash) hash {
	h := sha256.New()
	h.Write([]byte("<node><left>"))
	h.Write(l[:])
	h.Write([]byte("</left><right>"))
	h.Write(r[:])
	h.Write([]byte("</right></node>"))
	var out hash
	copy(out[:], h.Sum(nil))
	return out
}

// refLayer hashes the leaves and pads with hash(empty leaf) to the next power of two, minimum 2.
func refLayer(leaves [][]byte) []hash {
	size := 2
	for size < len(leaves) {
		size *= 2
	}
	out := make([]hash, size)
	for i := range out {
		if i < len(leaves) {
			out[i] = refLeafHash(leaves[i])
		} else {
			out[i] = refLeafHash(nil)
		}
	}
	return out
}

func refSubRoot(h []hash) hash {
	if len(h) == 1 {
		return h[0]
	}
	m := len(h) / 2
	return refNodeHash(refSubRoot(h[:m]), refSubRoot(h[m:]))
}

// refSubProof returns the siblings of leaf i inside the perfect subtree h, ordered leaf level first.
func refSubProof(h []hash, i int) []hash {
	if len(h) == 1 {
		return nil
	}
	m := len(h) / 2
	if i < m {
		return append(refSubProof(h[:m], i), refSubRoot(h[m:]))
	}
	return append(refSubProof(h[m:], i-m), refSubRoot(h[:m]))
}

func refRoot(leaves [][]byte) hash { return refSubRoot(refLayer(leaves)) }

func refProof(leaves [][]byte, i int) []hash { return refSubProof(refLayer(leaves), i) }

// refVerify: bit k of the index tells whether the running hash is the left (0) or right (1) child at level k.
func refVerify(root hash, leaf []byte, index uint32, siblings []hash) bool {
	cur := refLeafHash(leaf)
	for k, s := range siblings {
		bit := uint32(0)
		if k < 32 {
			bit = (index >> uint(k)) & 1
		}
		if bit == 0 {
			cur = refNodeHash(cur, s)
		} else {
			cur = refNodeHash(s, cur)
		}
	}
	return cur == root
}

// ---------------------------------------------------------------- protobuf (hand-rolled proto3 wire format)

func pbBytesField(field int, b []byte) []byte {
	out := []byte{byte(field<<3 | 2)}
	out = append(out, refPutUvarint(uint64(len(b)))...)
	return append(out, b...)
}

// refShardsOfPeerProto encodes message ShardsOfPeer{repeated Shard shards = 1}, Shard{bytes data = 1}.
// "The proto-encoded bytes of this message are used as Merkle tree leaf data" (propeller.proto).
func refShardsOfPeerProto(shards [][]byte) []byte {
	var out []byte
	for _, s := range shards {
		var inner []byte
		if len(s) > 0 { // proto3: empty scalar omitted
			inner = pbBytesField(1, s)
		}
		out = append(out, pbBytesField(1, inner)...)
	}
	return out
}

// ---------------------------------------------------------------- signing

// refSignPayload: "<propeller>" || root || committeeID || big-endian uint64 nonce || "<propeller/>".
func refSignPayload(root, committee hash, nonce int64) []byte {
	out := []byte("<propeller>")
	out = append(out, root[:]...)
	out = append(out, committee[:]...)
	n := uint64(nonce)
	for s := 56; s >= 0; s -= 8 {
		out = append(out, byte(n>>uint(s)))
	}
	return append(out, []byte("<propeller/>")...)
}

// ---------------------------------------------------------------- identities

type ident struct {
	priv crypto.PrivKey
	pub  crypto.PubKey
	id   peer.ID
	sk   ed25519.PrivateKey
	pk   ed25519.PublicKey
}

const nIdents = 40

var (
	identOnce sync.Once
	identPool []ident
)

func identities() []ident {
	identOnce.Do(func() {
		for i := 0; i < nIdents; i++ {
			seed := make([]byte, ed25519.SeedSize)
			seed[0], seed[1] = byte(i+1), 0xc9
			priv, pub, err := crypto.GenerateEd25519Key(bytes.NewReader(seed))
			if err != nil {
				stats.HarnessError("keygen: %v", err)
			}
			id, err := peer.IDFromPublicKey(pub)
			if err != nil {
				stats.HarnessError("peer id: %v", err)
			}
			rawS, err1 := priv.Raw()
			rawP, err2 := pub.Raw()
			if err1 != nil || err2 != nil || len(rawS) != ed25519.PrivateKeySize || len(rawP) != ed25519.PublicKeySize {
				stats.HarnessError("raw keys: %v %v", err1, err2)
			}
			identPool = append(identPool, ident{priv: priv, pub: pub, id: id, sk: ed25519.PrivateKey(rawS), pk: ed25519.PublicKey(rawP)})
		}
	})
	return identPool
}

// ---------------------------------------------------------------- schedule

// refSchedule is the documented shard-to-peer mapping: peers sorted by ID, the publisher skipped,
// shard i broadcast by the i-th remaining peer; numData = max(1, floor((N-1)/3)), coding = N-1-numData.
type refSchedule struct {
	sorted []peer.ID
}

func newRefSchedule(ids []peer.ID) refSchedule {
	s := append([]peer.ID{}, ids...)
	sort.Slice(s, func(i, j int) bool { return string(s[i]) < string(s[j]) })
	return refSchedule{sorted: s}
}

func (s refSchedule) member(id peer.ID) bool {
	for _, x := range s.sorted {
		if x == id {
			return true
		}
	}
	return false
}

func (s refSchedule) numData() int {
	d := (len(s.sorted) - 1) / 3
	if d < 1 {
		d = 1
	}
	return d
}

func (s refSchedule) numCoding() int { return len(s.sorted) - 1 - s.numData() }

// broadcasters returns, for the given publisher, the peer responsible for each shard index.
func (s refSchedule) broadcasters(publisher peer.ID) []peer.ID {
	var out []peer.ID
	for _, x := range s.sorted {
		if x != publisher {
			out = append(out, x)
		}
	}
	return out
}

// honestSender: who hands shard idx of publisher's message to the node `local` in the intended flow:
// the publisher itself for local's own shard, the shard's broadcaster otherwise.
func (s refSchedule) honestSender(publisher, local peer.ID, idx int) (peer.ID, bool) {
	b := s.broadcasters(publisher)
	if !s.member(publisher) || idx < 0 || idx >= len(b) {
		return "", false
	}
	if b[idx] == local {
		return publisher, true
	}
	return b[idx], true
}

func (s refSchedule) localIndex(publisher, local peer.ID) int {
	for i, x := range s.broadcasters(publisher) {
		if x == local {
			return i
		}
	}
	return -1
}

// ---------------------------------------------------------------- reference publisher

type leafMode int

const (
	leafProto leafMode = iota // leaf = protobuf encoding of the unit's ShardsOfPeer (documented scheme)
	leafRaw                   // leaf = the raw shard (what CreatePropellerUnits does in the pinned tree)
)

func leafBytes(lm leafMode, shards [][]byte) []byte {
	if lm == leafRaw && len(shards) == 1 {
		return shards[0]
	}
	return refShardsOfPeerProto(shards)
}

func shardSlices(sd propeller.ShardData) [][]byte {
	out := make([][]byte, len(sd))
	for i, s := range sd {
		out[i] = s
	}
	return out
}

// refCreate is the reference publisher: pad, erasure-code, commit to the leaves, sign the root,
// one unit per shard carrying the nonce that was signed.
func refCreate(pub ident, committee hash, nonce int64, msg []byte, d, p int, lm leafMode) ([]propeller.Unit, error) {
	shards, err := reedsolomon.EncodeData(refPad(msg, d), d, p)
	if err != nil {
		return nil, err
	}
	leaves := make([][]byte, len(shards))
	for i, s := range shards {
		leaves[i] = leafBytes(lm, [][]byte{s})
	}
	root := refRoot(leaves)
	sig := ed25519.Sign(pub.sk, refSignPayload(root, committee, nonce))
	units := make([]propeller.Unit, len(shards))
	for i, s := range shards {
		sib := refProof(leaves, i)
		ms := make([]merkle.Hash, len(sib))
		for k := range sib {
			ms[k] = merkle.Hash(sib[k])
		}
		units[i] = propeller.Unit{
			CommitteeID: propeller.CommitteeID(committee),
			Publisher:   pub.id,
			MessageRoot: propeller.MessageRoot(root),
			MerkleProof: merkle.Proof{Siblings: ms},
			Signature:   append([]byte{}, sig...),
			ShardIndex:  propeller.ShardIndex(i),
			ShardData:   propeller.ShardData{append([]byte{}, s...)},
			Nonce:       propeller.Nonce(nonce),
		}
	}
	return units, nil
}

// ---------------------------------------------------------------- unit helpers

func cloneUnit(u *propeller.Unit) propeller.Unit {
	c := *u
	c.Signature = append(propeller.Signature{}, u.Signature...)
	c.ShardData = make(propeller.ShardData, len(u.ShardData))
	for i, s := range u.ShardData {
		c.ShardData[i] = append(propeller.Shard{}, s...)
	}
	c.MerkleProof.Siblings = append([]merkle.Hash{}, u.MerkleProof.Siblings...)
	return c
}

// unitDiff names the first field in which two units differ ("" when equal).
func unitDiff(a, b *propeller.Unit) string {
	switch {
	case a.CommitteeID != b.CommitteeID:
		return "CommitteeID"
	case a.Publisher != b.Publisher:
		return "Publisher"
	case a.MessageRoot != b.MessageRoot:
		return "MessageRoot"
	case a.ShardIndex != b.ShardIndex:
		return "ShardIndex"
	case a.Nonce != b.Nonce:
		return "Nonce"
	case !bytes.Equal(a.Signature, b.Signature):
		return "Signature"
	case len(a.ShardData) != len(b.ShardData):
		return "ShardData(len)"
	case len(a.MerkleProof.Siblings) != len(b.MerkleProof.Siblings):
		return "MerkleProof(len)"
	}
	for i := range a.ShardData {
		if !bytes.Equal(a.ShardData[i], b.ShardData[i]) {
			return "ShardData"
		}
	}
	for i := range a.MerkleProof.Siblings {
		if a.MerkleProof.Siblings[i] != b.MerkleProof.Siblings[i] {
			return "MerkleProof"
		}
	}
	return ""
}

func siblingsOf(u *propeller.Unit) []hash {
	out := make([]hash, len(u.MerkleProof.Siblings))
	for i, s := range u.MerkleProof.Siblings {
		out[i] = hash(s)
	}
	return out
}

// splitmix64 stream: message bodies are a pure function of drawn values.
func fillPRNG(b []byte, seed uint64) {
	x := seed
	for i := 0; i < len(b); i += 8 {
		x += 0x9e3779b97f4a7c15
		z := x
		z = (z ^ (z >> 30)) * 0xbf58476d1ce4e5b9
		z = (z ^ (z >> 27)) * 0x94d049bb133111eb
		z ^= z >> 31
		for k := 0; k < 8 && i+k < len(b); k++ {
			b[i+k] = byte(z >> (8 * uint(k)))
		}
	}
}
