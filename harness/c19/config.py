# Driver configuration for property C19 (read by /verif/checks_config.py)
PROP = dict(
        pkg="c19", level="exploration",
        technique=("property-based testing (rapid): round trips and differential against independent reference implementations "
                   "(padding, tagged-SHA-256 Merkle tree, protobuf leaf encoding, Ed25519 payload, shard schedule, reference publisher); "
                   "adversarial single-field corruptions through the routed UnitValidator and straight into reconstruction; "
                   "immutability oracle over a stream of messages: every value handed out / passed in is re-verified against its hand-out-time copy "
                   "after every later operation (sequential, and concurrent under -race)"),
        level_text=("Exploration: tens of thousands of generated (length, data, parity, present-subset, corruption, arrival-order, message-stream) cases per run, "
                    "every result compared with an explicit oracle; samples the space, does not prove absence."),
        rule=("message lengths 0..4 KiB biased to k*2*data +-{0,1,2} (raw and varint-prefixed) and to 127/128, 16383/16384; (data,parity) in 1..8 x 1..8 "
              "for create/reconstruct and Reed-Solomon (parity 0 too), committees of 2..25 Ed25519 peers (data = max(1,(N-1)/3)) for the receiver pipeline; "
              "any present subset of size >= data incl. shard 0 missing / all data shards missing / exactly threshold; index-addressed unit slices with nil holes "
              "as the Processor builds them; units delivered in any order from the scheduled senders through a model of the Processor's per-message-key routing, "
              "interleaved with deliveries wrong in one field (shard byte/length/count, proof sibling/length, index, signature, committee, publisher, nonce, root, sender, "
              "duplicate); malformed protobuf units. Non-trivial = at least one data shard missing so that erasure recovery really runs (shard-0-missing counted as "
              "its own label); for the auxiliary tests: padding/varint boundary, a data shard dropped, non-power-of-two leaf count, a malformed unit that still decodes. "
              "Result lifetime (TestPropStreamHeldResults, TestRaceStreamHeldResults): a case is a STREAM of 2..6 (thorough 2..12) such messages on one "
              "goroutine - own (data,parity)/committee, length, publisher, nonce each; published up-front or right before first use; reconstructed in drawn / "
              "descending / ascending / equal joined-size order (joined size = shard size x (data+parity)), some again from another subset, with failing "
              "reconstructions (too few shards, flipped shard/root bit) in between; the units of CreatePropellerUnits / UnitFromProto / accepted by Validate and the "
              "message, local shard and local proof of EVERY earlier reconstruction are kept and re-verified against the published original / deep copies taken at "
              "hand-out time after every later operation and at the end of the case, and so are the caller's message slice, unit slice and pointed-to units "
              "(direct mode passes pointers to the live units or to copies). Non-trivial there = a held result outlived a later successful reconstruction of "
              "another message whose joined size is not larger. Concurrent variant under -race: 2..4 goroutines on 2 Ps, each with its own stream of 2..5 messages "
              "and drawn yield points, holding all earlier results; schedule-independent oracle (every held value equals its hand-out-time copy after each own "
              "operation and after the join) plus the race detector on delivered bytes. "
              "Distinct = distinct SHA-256 of the rendered case."),
        assumptions=["klauspost/reedsolomon arithmetic is trusted beyond the encode/drop/recover round trip",
                     "SHA-256 and Ed25519 (Go standard library) are trusted; collisions are not considered",
                     "the Processor goroutines/channels are not driven (not wired in the pinned tree: nil logger, nil event channel); its routing by message key and its "
                     "index-addressed unitsReceived slice are modelled from processor.go",
                     "committee members have Ed25519 identity peer IDs (NewValidator panics otherwise by design)"],
        runs=[dict(run="^Test(Prop|Known)"), dict(run="^TestRace", race=True)],
    )
