# Driver configuration for property C19 (read by /verif/checks_config.py)
PROP = dict(
        pkg="c19", level="exploration",
        technique=("property-based testing (rapid): round trips and differential against independent reference implementations "
                   "(padding, tagged-SHA-256 Merkle tree, protobuf leaf encoding, Ed25519 payload, shard schedule, reference publisher); "
                   "adversarial single-field corruptions through the routed UnitValidator and straight into reconstruction"),
        level_text=("Exploration: tens of thousands of generated (length, data, parity, present-subset, corruption, arrival-order) cases per run, "
                    "every result compared with an explicit oracle; samples the space, does not prove absence."),
        rule=("message lengths 0..4 KiB biased to k*2*data +-{0,1,2} (raw and varint-prefixed) and to 127/128, 16383/16384; (data,parity) in 1..8 x 1..8 "
              "for create/reconstruct and Reed-Solomon (parity 0 too), committees of 2..25 Ed25519 peers (data = max(1,(N-1)/3)) for the receiver pipeline; "
              "any present subset of size >= data incl. shard 0 missing / all data shards missing / exactly threshold; index-addressed unit slices with nil holes "
              "as the Processor builds them; units delivered in any order from the scheduled senders through a model of the Processor's per-message-key routing, "
              "interleaved with deliveries wrong in one field (shard byte/length/count, proof sibling/length, index, signature, committee, publisher, nonce, root, sender, "
              "duplicate); malformed protobuf units. Non-trivial = at least one data shard missing so that erasure recovery really runs (shard-0-missing counted as "
              "its own label); for the auxiliary tests: padding/varint boundary, a data shard dropped, non-power-of-two leaf count, a malformed unit that still decodes. "
              "Distinct = distinct SHA-256 of the rendered case."),
        assumptions=["klauspost/reedsolomon arithmetic is trusted beyond the encode/drop/recover round trip",
                     "SHA-256 and Ed25519 (Go standard library) are trusted; collisions are not considered",
                     "the Processor goroutines/channels are not driven (not wired in the pinned tree: nil logger, nil event channel); its routing by message key and its "
                     "index-addressed unitsReceived slice are modelled from processor.go",
                     "committee members have Ed25519 identity peer IDs (NewValidator panics otherwise by design)"],
        runs=[dict(run="^Test(Prop|Known)")],
    )
