// Package c19: erasure-coded broadcast rebuilds the exact message from any sufficient shards (property C19).
//
// Code under test: consensus/propeller (PadMessage/UnpadMessage, CreatePropellerUnits,
// ConstructMessageFromUnits, UnitValidator, Scheduler, Unit <-> protobuf), propeller/merkle,
// propeller/reedsolomon. Oracles are the reference implementations of ref_test.go (written from the
// documented schemes), round trips, and the accept/reject statement of the property.
//
// Intended flow that the generators follow (engine.go, propeller.go, processor.go):
//
//	publisher: Engine.prepareUnitsForBroadcast -> CreatePropellerUnits -> Unit.ToProto -> wire
//	receiver : UnitFromProto -> Processor.ProcessMessage routes by (committee, publisher, root, nonce)
//	           to one subprocessor = one UnitValidator -> Validate(unit, sender) ->
//	           unitsReceived[unit.ShardIndex] = unit (slice of NumTotalShards entries, nil = not received)
//	           -> at BuildThreshold valid units: ConstructMessageFromUnits(unitsReceived, localShardIndex, data, coding)
package c19

import (
	"bytes"
	"crypto/ed25519"
	"fmt"
	"math"
	"testing"

	"github.com/NethermindEth/juno/consensus/propeller"
	"github.com/NethermindEth/juno/consensus/propeller/merkle"
	pb "github.com/NethermindEth/juno/consensus/propeller/proto"
	"github.com/NethermindEth/juno/consensus/propeller/reedsolomon"
	"github.com/libp2p/go-libp2p/core/peer"
	"github.com/starknet-io/starknet-p2p-specs/p2p/proto/common"
	"google.golang.org/protobuf/proto"
	"pgregory.net/rapid"

	"verif/harness/internal/stats"
)

func TestMain(m *testing.M) { stats.Main(m) }

// Known-finding keys (see /verif/known_findings.json).
const (
	kNilUnit0  = "c19-construct-nil-unit0"           // ConstructMessageFromUnits reads units[0] although nil marks a missing shard
	kNonce     = "c19-create-units-nonce-unset"      // CreatePropellerUnits signs `nonce` but leaves Unit.Nonce zero
	kLeaf      = "c19-merkle-leaf-encoding-mismatch" // producer/reconstruction commit to raw shards, validator checks proto-encoded ShardsOfPeer
	kUnpad     = "c19-unpad-length-overflow"         // UnpadMessage: varintLen+msgLen wraps for msgLen >= 2^64-10 -> slice panic
	kFromProto = "c19-unitfromproto-malformed-panic" // UnitFromProto panics on zero shards / merkle_root shorter than 32 bytes
)

// safely runs code under test and returns the recovered panic value, if any. Never call
// c.Violation inside f (rapid unwinds with a panic of its own).
func safely(f func()) (p any) {
	defer func() {
		if r := recover(); r != nil {
			p = r
		}
	}()
	f()
	return nil
}

// ---------------------------------------------------------------------------------- generators

func genDP(rt *rapid.T) (int, int) {
	return rapid.IntRange(1, 8).Draw(rt, "data"), rapid.IntRange(1, 8).Draw(rt, "parity")
}

// genMsgLen: 0..4 KiB biased to k*2*data +- {0,1,2} (for the raw and for the varint-prefixed length)
// and to the varint boundaries 127/128 and 16383/16384.
func genMsgLen(rt *rapid.T, d int) (int, string) {
	div := 2 * d
	switch rapid.SampledFrom([]string{"small", "boundary", "boundary", "boundary", "varint", "uniform"}).Draw(rt, "lenKind") {
	case "small":
		return rapid.IntRange(0, 40).Draw(rt, "len"), "small"
	case "boundary":
		k := rapid.IntRange(1, 4096/div).Draw(rt, "k")
		target := k*div + rapid.IntRange(-2, 2).Draw(rt, "delta")
		if rapid.Bool().Draw(rt, "prefixedTarget") {
			for vl := 1; vl <= 3; vl++ {
				if n := target - vl; n >= 0 && len(refPutUvarint(uint64(n))) == vl {
					return n, "boundary"
				}
			}
		}
		if target < 0 {
			target = 0
		}
		return target, "boundary"
	case "varint":
		return rapid.SampledFrom([]int{126, 127, 128, 129, 127, 128, 16382, 16383, 16384, 16385}).Draw(rt, "len"), "varint"
	default:
		return rapid.IntRange(0, 4096).Draw(rt, "len"), "uniform"
	}
}

func genMsg(rt *rapid.T, n int) []byte {
	if n <= 48 {
		return rapid.SliceOfN(rapid.Byte(), n, n).Draw(rt, "msg")
	}
	msg := make([]byte, n)
	switch rapid.SampledFrom([]string{"prng", "prng", "prng", "zeros", "ff"}).Draw(rt, "fill") {
	case "prng":
		fillPRNG(msg, rapid.Uint64().Draw(rt, "fillSeed"))
	case "ff":
		for i := range msg {
			msg[i] = 0xff
		}
	}
	return msg
}

func genHash(rt *rapid.T, label string) hash {
	var h hash
	fillPRNG(h[:], rapid.Uint64().Draw(rt, label))
	return h
}

// genNonce: the engine passes time.Now().UnixNano(); also small and extreme values.
func genNonce(rt *rapid.T, c *stats.Case) int64 {
	var n int64
	switch rapid.SampledFrom([]string{"unix", "unix", "small", "zero", "extreme"}).Draw(rt, "nonceKind") {
	case "unix":
		n = 1_790_000_000_000_000_000 + rapid.Int64Range(0, 1_000_000_000_000).Draw(rt, "nonce")
	case "small":
		n = rapid.Int64Range(1, 3).Draw(rt, "nonce")
	case "extreme":
		n = rapid.SampledFrom([]int64{-1, math.MaxInt64, math.MinInt64}).Draw(rt, "nonce")
	}
	if n != 0 && stats.Known(kNonce) {
		c.Excluded(kNonce)
		n = 0
	}
	return n
}

// genPresent draws which shards are present: size >= d, any positions.
func genPresent(rt *rapid.T, c *stats.Case, d, p int, force0 bool) []bool {
	total := d + p
	idx := make([]int, total)
	for i := range idx {
		idx[i] = i
	}
	present := make([]bool, total)
	mode := rapid.SampledFrom([]string{"random", "random", "exact", "exact", "no-data", "no-zero", "all"}).Draw(rt, "subsetMode")
	if mode == "no-data" && p < d {
		mode = "exact"
	}
	switch mode {
	case "all":
		for i := range present {
			present[i] = true
		}
	case "no-zero":
		for i := range present {
			present[i] = i != 0
		}
		if total-1 < d {
			present[0] = true
		}
	case "no-data":
		s := rapid.IntRange(d, p).Draw(rt, "size")
		for _, i := range rapid.Permutation(idx[d:]).Draw(rt, "perm")[:s] {
			present[i] = true
		}
	case "exact":
		for _, i := range rapid.Permutation(idx).Draw(rt, "perm")[:d] {
			present[i] = true
		}
	default:
		s := rapid.IntRange(d, total).Draw(rt, "size")
		for _, i := range rapid.Permutation(idx).Draw(rt, "perm")[:s] {
			present[i] = true
		}
	}
	if force0 && !present[0] {
		c.Excluded(kNilUnit0)
		present[0] = true
	}
	return present
}

func labelSubset(c *stats.Case, present []bool, d int) {
	n, dataMissing := 0, 0
	for i, ok := range present {
		if ok {
			n++
		} else if i < d {
			dataMissing++
		}
	}
	if dataMissing > 0 {
		c.NonTrivial("data-shard-missing")
	}
	if !present[0] {
		c.NonTrivial("shard0-missing")
	}
	if dataMissing == d {
		c.Label("all-data-shards-missing")
	}
	if n == d {
		c.Label("exactly-threshold")
	}
	if n == len(present) {
		c.Label("nothing-missing")
	}
}

func bits(present []bool) string {
	b := make([]byte, len(present))
	for i, ok := range present {
		b[i] = '0'
		if ok {
			b[i] = '1'
		}
	}
	return string(b)
}

// ---------------------------------------------------------------------------------- Pad / Unpad

func TestPropPadUnpad(t *testing.T) {
	stats.Check(t, stats.Budget{Quick: 8000, Thorough: 100000},
		"PadMessage vs reference layout [varint|msg|zeros to the next multiple of 2*data] for data 1..16 and lengths 0..4 KiB biased to "+
			"padding and varint boundaries; Unpad(Pad(m)) = m; UnpadMessage on arbitrary buffers (declared length exact/over/huge/overflowing, "+
			"non-canonical or truncated varint) vs reference parser, never a panic; non-trivial = prefixed length within 2 of a multiple of 2*data "+
			"or message length at a varint boundary",
		func(rt *rapid.T, c *stats.Case) {
			d := rapid.IntRange(1, 16).Draw(rt, "data")
			n, kind := genMsgLen(rt, d)
			msg := genMsg(rt, n)
			c.Fp("pad d=%d n=%d %x", d, n, refLeafHash(msg))
			c.Label("len:" + kind)
			unp := len(refPutUvarint(uint64(n))) + n
			if r := unp % (2 * d); r <= 2 || r >= 2*d-2 {
				c.NonTrivial("padding-boundary")
			}
			if n == 127 || n == 128 || n == 16383 || n == 16384 {
				c.NonTrivial("varint-boundary")
			}
			in := append([]byte{}, msg...)
			var padded []byte
			if pn := safely(func() { padded = propeller.PadMessage(in, d) }); pn != nil {
				c.Violation("panic", "PadMessage(len %d, %d) panicked: %v", n, d, pn)
			}
			if want := refPad(msg, d); !bytes.Equal(padded, want) {
				c.Violation("pad-layout", "PadMessage(len %d, data %d) has length %d, want %d (varint|msg|zeros, multiple of %d); first bytes %x want %x",
					n, d, len(padded), len(want), 2*d, head(padded), head(want))
			}
			var got []byte
			var err error
			if pn := safely(func() { got, err = propeller.UnpadMessage(padded) }); pn != nil {
				c.Violation("panic", "UnpadMessage(PadMessage(len %d, %d)) panicked: %v", n, d, pn)
			}
			if err != nil || !bytes.Equal(got, msg) {
				c.Violation("unpad-pad", "UnpadMessage(PadMessage(m,%d)) = len %d, err %v; want the %d-byte message", d, len(got), err, n)
			}

			// arbitrary buffer
			buf, bkind := genUnpadInput(rt, c)
			c.Fp("unpad %x", buf)
			c.Label("unpad:" + bkind)
			want, ok := refUnpad(buf)
			got, err = nil, nil
			if pn := safely(func() { got, err = propeller.UnpadMessage(append([]byte{}, buf...)) }); pn != nil {
				c.Violation("unpad-panic", "UnpadMessage(%x) panicked: %v (documented: error when the encoded length exceeds the available data)", buf, pn)
			}
			if ok != (err == nil) || (ok && !bytes.Equal(got, want)) {
				c.Violation("unpad-arbitrary", "UnpadMessage(%x) = %x, err %v; reference: ok=%v %x", buf, got, err, ok, want)
			}
			if !ok {
				c.Label("unpad-rejected")
			}
		})
}

func head(b []byte) []byte {
	if len(b) > 12 {
		return b[:12]
	}
	return b
}

func genUnpadInput(rt *rapid.T, c *stats.Case) ([]byte, string) {
	kind := rapid.SampledFrom([]string{"fits", "over", "huge", "overflow", "overflow", "noncanonical", "truncated", "empty", "random"}).Draw(rt, "bufKind")
	bodyLen := rapid.IntRange(0, 20).Draw(rt, "bodyLen")
	body := rapid.SliceOfN(rapid.Byte(), bodyLen, bodyLen).Draw(rt, "body")
	var l uint64
	switch kind {
	case "empty":
		return nil, kind
	case "random":
		return body, kind
	case "truncated":
		n := rapid.IntRange(1, 11).Draw(rt, "contBytes")
		return bytes.Repeat([]byte{0x80 | byte(bodyLen)}, n), kind
	case "noncanonical":
		l = uint64(rapid.IntRange(0, bodyLen).Draw(rt, "declared"))
		return append([]byte{byte(l) | 0x80, 0x00}, body...), kind
	case "fits":
		l = uint64(rapid.IntRange(0, bodyLen).Draw(rt, "declared"))
	case "over":
		l = uint64(bodyLen + rapid.IntRange(1, 300).Draw(rt, "excess"))
	case "huge":
		l = rapid.SampledFrom([]uint64{1 << 32, 1<<63 - 1, 1 << 63, math.MaxUint64 - 10}).Draw(rt, "declared")
	case "overflow": // varintLen (10) + declared length wraps around 2^64
		l = math.MaxUint64 - uint64(rapid.IntRange(0, 9).Draw(rt, "below"))
		if stats.Known(kUnpad) {
			c.Excluded(kUnpad)
			l, kind = 1<<63, "huge"
		}
	}
	return append(refPutUvarint(l), body...), kind
}

// ---------------------------------------------------------------------------------- Reed-Solomon

func TestPropReedSolomon(t *testing.T) {
	stats.Check(t, stats.Budget{Quick: 4000, Thorough: 50000},
		"EncodeData of a padded message for (data,parity) in 1..8 x 0..8: data shards are the split input, all shards equal length; "+
			"drop any subset of <= parity shards -> RecoverData returns every original shard; drop > parity -> error, no panic; "+
			"non-trivial = at least one data shard dropped",
		func(rt *rapid.T, c *stats.Case) {
			d := rapid.IntRange(1, 8).Draw(rt, "data")
			p := rapid.SampledFrom([]int{0, 1, 1, 2, 2, 3, 3, 4, 4, 5, 6, 7, 8}).Draw(rt, "parity")
			n, _ := genMsgLen(rt, d)
			data := refPad(genMsg(rt, n), d)
			orig := append([]byte{}, data...)
			total := d + p
			var shards [][]byte
			var err error
			if pn := safely(func() { shards, err = reedsolomon.EncodeData(data, d, p) }); pn != nil {
				c.Violation("panic", "EncodeData(len %d,%d,%d) panicked: %v", len(data), d, p, pn)
			}
			if err != nil || len(shards) != total {
				c.Violation("rs-encode", "EncodeData(len %d,%d,%d) = %d shards, err %v", len(orig), d, p, len(shards), err)
			}
			var cat []byte
			for i, s := range shards {
				if len(s) != len(orig)/d {
					c.Violation("rs-encode", "shard %d has length %d, want %d", i, len(s), len(orig)/d)
				}
				if i < d {
					cat = append(cat, s...)
				}
			}
			if !bytes.Equal(cat, orig) {
				c.Violation("rs-encode", "the first %d shards are not the input split in order", d)
			}
			full := make([][]byte, total)
			for i, s := range shards {
				full[i] = append([]byte{}, s...)
			}
			idx := make([]int, total)
			for i := range idx {
				idx[i] = i
			}
			perm := rapid.Permutation(idx).Draw(rt, "dropOrder")
			k := rapid.IntRange(0, p).Draw(rt, "drop")
			if rapid.IntRange(0, 2).Draw(rt, "maxDrop") == 0 {
				k = p
			}
			in := make([][]byte, total)
			for i := range in {
				in[i] = append([]byte{}, full[i]...)
			}
			dropped := make([]bool, total)
			for _, i := range perm[:k] {
				in[i], dropped[i] = nil, true
				if i < d {
					c.NonTrivial("data-shard-dropped")
				}
			}
			if dropped[0] {
				c.Label("shard0-dropped")
			}
			if k == p && p > 0 {
				c.Label("dropped-max")
			}
			c.Fp("rs %d %d %x %v", d, p, refLeafHash(orig), perm[:k])
			var out [][]byte
			if pn := safely(func() { out, err = reedsolomon.RecoverData(in, d, p) }); pn != nil {
				c.Violation("panic", "RecoverData(%d,%d) with %v dropped panicked: %v", d, p, perm[:k], pn)
			}
			if err != nil || len(out) != total {
				c.Violation("rs-recover", "RecoverData(%d,%d) with shards %v dropped: %d shards, err %v", d, p, perm[:k], len(out), err)
			}
			for i := range out {
				if !bytes.Equal(out[i], full[i]) {
					c.Violation("rs-recover", "RecoverData(%d,%d) with %v dropped: shard %d differs from the encoded one", d, p, perm[:k], i)
				}
			}
			// too many missing
			if k2 := p + 1; k2 <= total {
				in2 := make([][]byte, total)
				for i := range in2 {
					in2[i] = append([]byte{}, full[i]...)
				}
				for _, i := range perm[:k2] {
					in2[i] = nil
				}
				if pn := safely(func() { _, err = reedsolomon.RecoverData(in2, d, p) }); pn != nil {
					c.Violation("panic", "RecoverData with %d > parity shards missing panicked: %v", k2, pn)
				}
				if err == nil {
					c.Violation("rs-too-few", "RecoverData(%d,%d) succeeded with %d shards missing", d, p, k2)
				}
			}
		})
}

// ---------------------------------------------------------------------------------- Merkle

func TestPropMerkle(t *testing.T) {
	stats.Check(t, stats.Budget{Quick: 4000, Thorough: 50000},
		"merkle.New on 1..20 arbitrary leaves (empty and duplicate leaves allowed): root and every proof equal an independent recursive "+
			"reference (tagged SHA-256, padding to a power of two >= 2 with the empty-leaf hash); Proof.Verify agrees with a reference verifier on "+
			"honest and corrupted (leaf, sibling, root, index, proof length) inputs and rejects every effective corruption; "+
			"non-trivial = leaf count not a power of two (padding leaves) or > 2",
		func(rt *rapid.T, c *stats.Case) {
			n := rapid.SampledFrom([]int{1, 2, 3, 4, 5, 7, 8, 9, 15, 16, 17, 20, 6, 10, 12}).Draw(rt, "leaves")
			distinct := rapid.Bool().Draw(rt, "distinct")
			leaves := make([][]byte, n)
			for i := range leaves {
				leaves[i] = rapid.SliceOfN(rapid.Byte(), 0, 6).Draw(rt, "leaf")
				if distinct {
					leaves[i] = append([]byte{byte(i + 1)}, leaves[i]...)
				}
			}
			c.Fp("merkle %x", leaves)
			if n&(n-1) != 0 {
				c.NonTrivial("padding-leaves")
			}
			if n > 2 {
				c.NonTrivial("depth>1")
			}
			var root merkle.Hash
			var tree merkle.Tree
			if pn := safely(func() { root, tree = merkle.New(leaves) }); pn != nil {
				c.Violation("panic", "merkle.New(%d leaves) panicked: %v", n, pn)
			}
			wantRoot := refRoot(leaves)
			if hash(root) != wantRoot || len(tree) != n {
				c.Violation("merkle-root", "merkle.New(%x): root %x, %d proofs; reference root %x", leaves, root, len(tree), wantRoot)
			}
			for i := range leaves {
				want := refProof(leaves, i)
				got := make([]hash, len(tree[i].Siblings))
				for k, s := range tree[i].Siblings {
					got[k] = hash(s)
				}
				if fmt.Sprint(got) != fmt.Sprint(want) {
					c.Violation("merkle-proof", "proof of leaf %d of %x differs from the reference", i, leaves)
				}
				if !tree[i].Verify(&root, leaves[i], uint32(i)) || !refVerify(wantRoot, leaves[i], uint32(i), want) {
					c.Violation("merkle-verify", "honest proof of leaf %d of %x does not verify", i, leaves)
				}
			}
			// one corruption
			i := rapid.IntRange(0, n-1).Draw(rt, "victim")
			leaf := append([]byte{}, leaves[i]...)
			sib := append([]merkle.Hash{}, tree[i].Siblings...)
			r := root
			index := uint32(i)
			mustReject := true
			kind := rapid.SampledFrom([]string{"leaf", "sibling", "root", "index", "index-alias", "truncate", "extend"}).Draw(rt, "corruption")
			switch kind {
			case "leaf":
				leaf = append(leaf, rapid.Byte().Draw(rt, "extra"))
			case "sibling":
				k := rapid.IntRange(0, len(sib)-1).Draw(rt, "level")
				sib[k][rapid.IntRange(0, 31).Draw(rt, "pos")] ^= 1 << uint(rapid.IntRange(0, 7).Draw(rt, "bit"))
			case "root":
				r[rapid.IntRange(0, 31).Draw(rt, "pos")] ^= 1 << uint(rapid.IntRange(0, 7).Draw(rt, "bit"))
			case "index":
				size := 1 << uint(len(sib))
				index = uint32((i + rapid.IntRange(1, size-1).Draw(rt, "shift")) % size)
				mustReject = distinct // equal sibling subtrees make positions interchangeable
			case "index-alias": // bits above the proof length are not looked at by the documented walk
				index = uint32(i + (1<<uint(len(sib)))*rapid.IntRange(1, 3).Draw(rt, "mult"))
				mustReject = false
			case "truncate":
				sib = sib[:len(sib)-1]
			case "extend":
				sib = append(sib, sib[len(sib)-1])
			}
			c.Label("corrupt:" + kind)
			pr := merkle.Proof{Siblings: sib}
			var got bool
			if pn := safely(func() { got = pr.Verify(&r, leaf, index) }); pn != nil {
				c.Violation("panic", "Proof.Verify panicked: %v", pn)
			}
			rs := make([]hash, len(sib))
			for k := range sib {
				rs[k] = hash(sib[k])
			}
			want := refVerify(hash(r), leaf, index, rs)
			if got != want || (mustReject && got) {
				c.Violation("merkle-corrupt", "Verify after %s corruption of leaf %d of %x = %v, reference %v, must reject: %v", kind, i, leaves, got, want, mustReject)
			}
		})
}

// ---------------------------------------------------------------------------------- Create -> subset -> Construct

func ptrsOf(units []propeller.Unit, present []bool) []*propeller.Unit {
	out := make([]*propeller.Unit, len(units))
	for i := range units {
		if present[i] {
			u := cloneUnit(&units[i])
			out[i] = &u
		}
	}
	return out
}

type constructResult struct {
	msg   []byte
	shard propeller.ShardData
	proof merkle.Proof
	err   error
	pn    any
}

func construct(units []*propeller.Unit, local, d, p int) (r constructResult) {
	r.pn = safely(func() {
		r.msg, r.shard, r.proof, r.err = propeller.ConstructMessageFromUnits(units, propeller.ShardIndex(local), d, p)
	})
	return r
}

// checkReconstruction: the oracle for one ConstructMessageFromUnits call on honest units.
func checkReconstruction(c *stats.Case, what string, r constructResult, msg []byte, honest []propeller.Unit, present []bool, local, d, p int, lm leafMode) {
	if r.pn != nil {
		c.Violation("construct-panic", "%s: ConstructMessageFromUnits(present=%s, local %d, data %d, parity %d) panicked: %v", what, bits(present), local, d, p, r.pn)
	}
	if r.err != nil {
		c.Violation("construct-error", "%s: ConstructMessageFromUnits(present=%s, local %d, data %d, parity %d, msg len %d) failed: %v", what, bits(present), local, d, p, len(msg), r.err)
	}
	if !bytes.Equal(r.msg, msg) {
		c.Violation("construct-message", "%s: reconstructed message (len %d) differs from the published one (len %d); present=%s data %d parity %d",
			what, len(r.msg), len(msg), bits(present), d, p)
	}
	hu := &honest[local]
	if len(r.shard) != 1 || !bytes.Equal(r.shard[0], hu.ShardData[0]) {
		c.Violation("construct-local-shard", "%s: local shard %d returned by reconstruction differs from the publisher's shard", what, local)
	}
	root := merkle.Hash(hu.MessageRoot)
	leaf := leafBytes(lm, shardSlices(r.shard))
	sib := make([]hash, len(r.proof.Siblings))
	for k, s := range r.proof.Siblings {
		sib[k] = hash(s)
	}
	if !r.proof.Verify(&root, leaf, uint32(local)) || !refVerify(hash(root), leaf, uint32(local), sib) {
		c.Violation("construct-local-proof", "%s: local proof for shard %d returned by reconstruction does not verify against the signed root", what, local)
	}
	if fmt.Sprint(sib) != fmt.Sprint(siblingsOf(hu)) {
		c.Violation("construct-local-proof", "%s: local proof for shard %d differs from the publisher's proof", what, local)
	}
}

// checkHonestUnits: every created unit equals the reference publisher's unit; proof and signature verify
// with the package's own verifiers and with the independent ones.
func checkHonestUnits(c *stats.Case, units []propeller.Unit, pub ident, committee hash, nonce int64, msg []byte, d, p int, lm leafMode) {
	want, err := refCreate(pub, committee, nonce, msg, d, p, lm)
	if err != nil {
		c.Violation("rs-encode", "reference publisher: EncodeData failed: %v", err)
	}
	if len(units) != d+p {
		c.Violation("unit-count", "CreatePropellerUnits(data %d, parity %d) returned %d units", d, p, len(units))
	}
	for i := range units {
		u := &units[i]
		if f := unitDiff(u, &want[i]); f != "" {
			c.Violation("unit-field:"+f, "CreatePropellerUnits(nonce %d, msg len %d, data %d, parity %d): unit %d field %s differs from the reference publisher (unit nonce %d, root %x vs %x)",
				nonce, len(msg), d, p, i, f, u.Nonce, u.MessageRoot, want[i].MessageRoot)
		}
		root := merkle.Hash(u.MessageRoot)
		leaf := leafBytes(lm, shardSlices(u.ShardData))
		if !u.MerkleProof.Verify(&root, leaf, uint32(u.ShardIndex)) || !refVerify(hash(root), leaf, uint32(i), siblingsOf(u)) {
			c.Violation("unit-proof", "unit %d: Merkle proof does not verify against the signed root", i)
		}
		if err := propeller.VerifyMessageSignature(pub.pub, &u.MessageRoot, &u.CommitteeID, u.Nonce, u.Signature); err != nil {
			c.Violation("unit-signature", "unit %d (created with nonce %d, carries nonce %d): signature does not verify over the unit's own (root, committee, nonce): %v", i, nonce, u.Nonce, err)
		}
		if !ed25519.Verify(pub.pk, refSignPayload(hash(u.MessageRoot), hash(u.CommitteeID), int64(u.Nonce)), u.Signature) {
			c.Violation("unit-signature", "unit %d: Ed25519 signature invalid over the documented payload", i)
		}
	}
}

// currentLeafMode: the leaf encoding the oracles hold the producer/reconstruction to. The documented one
// (protobuf ShardsOfPeer); while kLeaf is a known finding the raw-shard commitment of the pinned tree is
// tolerated as well (whichever of the two the units actually use must then be used consistently).
func currentLeafMode(c *stats.Case, units []propeller.Unit) leafMode {
	if !stats.Known(kLeaf) || len(units) == 0 {
		return leafProto
	}
	leaves := make([][]byte, len(units))
	for i := range units {
		leaves[i] = leafBytes(leafProto, shardSlices(units[i].ShardData))
	}
	if hash(units[0].MessageRoot) == refRoot(leaves) {
		c.Label("leaf:proto")
		return leafProto
	}
	c.Excluded(kLeaf)
	c.Label("leaf:raw(known deviation)")
	return leafRaw
}

func TestPropCreateReconstruct(t *testing.T) {
	stats.Check(t, stats.Budget{Quick: 10000, Thorough: 120000},
		"CreatePropellerUnits for lengths 0..4 KiB (padding/varint boundaries), (data,parity) in 1..8 x 1..8, Ed25519 key, committee, nonce: units equal the "+
			"reference publisher field by field, proofs and signature verify (package verifier + independent verifier); index-addressed slice with nil holes for any "+
			"present subset of size >= data (shard 0 missing, all data shards missing, exactly threshold) -> ConstructMessageFromUnits returns the message bit for bit "+
			"and the publisher's local shard+proof; fewer than data shards -> error; one present unit corrupted (shard bit/length, swapped or duplicated shards, root) "+
			"-> error or the same message, never a panic; non-trivial = at least one data shard missing",
		func(rt *rapid.T, c *stats.Case) {
			d, p := genDP(rt)
			total := d + p
			n, lk := genMsgLen(rt, d)
			msg := genMsg(rt, n)
			pub := identities()[rapid.IntRange(0, nIdents-1).Draw(rt, "publisher")]
			committee := genHash(rt, "committee")
			nonce := genNonce(rt, c)
			c.Label("len:" + lk)

			cid := propeller.CommitteeID(committee)
			in := append([]byte{}, msg...)
			var units []propeller.Unit
			var err error
			if pn := safely(func() { units, err = propeller.CreatePropellerUnits(pub.priv, &cid, propeller.Nonce(nonce), in, d, p) }); pn != nil {
				c.Violation("panic", "CreatePropellerUnits(msg len %d, data %d, parity %d) panicked: %v", n, d, p, pn)
			}
			if err != nil {
				c.Violation("create-error", "CreatePropellerUnits(msg len %d, data %d, parity %d) failed: %v", n, d, p, err)
			}
			lm := currentLeafMode(c, units)
			checkHonestUnits(c, units, pub, committee, nonce, msg, d, p, lm)

			present := genPresent(rt, c, d, p, stats.Known(kNilUnit0))
			local := rapid.IntRange(0, total-1).Draw(rt, "localShard")
			labelSubset(c, present, d)
			c.Fp("cr %d %d %d %x %x %d %s %d", d, p, n, refLeafHash(msg), committee, nonce, bits(present), local)
			c.Sample(func() any {
				return map[string]any{"data": d, "parity": p, "msg_len": n, "present": bits(present), "local_shard": local, "nonce": nonce}
			})
			ptrs := ptrsOf(units, present)
			checkReconstruction(c, "honest subset", construct(ptrs, local, d, p), msg, units, present, local, d, p, lm)
			for i, up := range ptrs { // the caller's units are not altered
				if up != nil && unitDiff(up, &units[i]) != "" {
					c.Violation("construct-mutates-input", "ConstructMessageFromUnits altered unit %d (%s)", i, unitDiff(up, &units[i]))
				}
			}

			// below the threshold: an error, not a panic (and not a message)
			if rapid.IntRange(0, 3).Draw(rt, "tooFew") == 0 {
				few := make([]bool, total)
				k := 0
				for i := range few {
					if present[i] && k < d-1 {
						few[i] = true
						k++
					}
				}
				if stats.Known(kNilUnit0) && !few[0] && d > 1 {
					few[0] = true
					for i := total - 1; i > 0; i-- {
						if few[i] {
							few[i] = false
							break
						}
					}
				}
				r := construct(ptrsOf(units, few), local, d, p)
				if r.pn != nil {
					c.Violation("construct-panic", "ConstructMessageFromUnits with %d < %d shards (present=%s) panicked: %v", d-1, d, bits(few), r.pn)
				}
				if r.err == nil {
					c.Violation("construct-too-few", "ConstructMessageFromUnits succeeded with %d < %d shards", d-1, d)
				}
				c.Label("below-threshold")
			}

			// a corrupted unit reaches reconstruction (validation bypassed): error or the same message
			if rapid.Bool().Draw(rt, "inject") {
				bad := ptrsOf(units, present)
				var pres []int
				for i, ok := range present {
					if ok {
						pres = append(pres, i)
					}
				}
				v := pres[rapid.IntRange(0, len(pres)-1).Draw(rt, "victim")]
				kind := rapid.SampledFrom([]string{"shard-bit", "shard-bit", "shard-len", "swap", "dup", "root-bit", "root-first"}).Draw(rt, "inject-kind")
				switch kind {
				case "shard-bit":
					s := bad[v].ShardData[0]
					s[rapid.IntRange(0, len(s)-1).Draw(rt, "pos")] ^= 1 << uint(rapid.IntRange(0, 7).Draw(rt, "bit"))
				case "shard-len":
					if rapid.Bool().Draw(rt, "shorter") {
						bad[v].ShardData[0] = bad[v].ShardData[0][:len(bad[v].ShardData[0])-1]
					} else {
						bad[v].ShardData[0] = append(bad[v].ShardData[0], 0)
					}
				case "swap":
					w := pres[rapid.IntRange(0, len(pres)-1).Draw(rt, "other")]
					bad[v].ShardData, bad[w].ShardData = bad[w].ShardData, bad[v].ShardData
				case "dup":
					w := pres[rapid.IntRange(0, len(pres)-1).Draw(rt, "other")]
					cp := cloneUnit(bad[w])
					bad[v] = &cp
				case "root-bit":
					pos, bit := rapid.IntRange(0, 31).Draw(rt, "pos"), uint(rapid.IntRange(0, 7).Draw(rt, "bit"))
					for _, i := range pres {
						bad[i].MessageRoot[pos] ^= 1 << bit
					}
				case "root-first":
					bad[pres[0]].MessageRoot[rapid.IntRange(0, 31).Draw(rt, "pos")] ^= 1 << uint(rapid.IntRange(0, 7).Draw(rt, "bit"))
				}
				c.Label("inject:" + kind)
				c.Fp("inject %s %d", kind, v)
				r := construct(bad, local, d, p)
				if r.pn != nil {
					c.Violation("construct-panic", "ConstructMessageFromUnits with a corrupted unit (%s at %d, present=%s, data %d parity %d) panicked: %v", kind, v, bits(present), d, p, r.pn)
				}
				if r.err == nil && !bytes.Equal(r.msg, msg) {
					c.Violation("construct-different-message", "ConstructMessageFromUnits with a corrupted unit (%s at %d, present=%s, data %d parity %d, msg len %d) delivered a different message (len %d)",
						kind, v, bits(present), d, p, n, len(r.msg))
				}
				if r.err != nil {
					c.Label("inject-rejected")
				} else {
					c.Label("inject-same-message")
				}
			}
		})
}

// ---------------------------------------------------------------------------------- receiver pipeline

type world struct {
	rs        refSchedule
	sch       *propeller.Scheduler
	members   []ident
	local     ident
	publisher ident
	outsider  ident
	d, p      int
	localIdx  int
	msg       []byte
	committee hash
	nonce     int64
	units     []propeller.Unit // honest units as they come off the wire
	fullFlow  bool             // units made by CreatePropellerUnits and reconstruction checked (false while kLeaf is a known finding)
	lm        leafMode
	in        []byte           // the caller's message slice that was handed to CreatePropellerUnits (must stay equal to msg)
	created   []propeller.Unit // the units exactly as CreatePropellerUnits handed them out (before the wire)
}

func genWorld(rt *rapid.T, c *stats.Case) *world {
	pool := identities()
	w := &world{}
	n := rapid.SampledFrom([]int{2, 3, 4, 4, 5, 6, 7, 7, 8, 9, 10, 10, 11, 13, 16, 19, 22, 25}).Draw(rt, "committeeSize")
	idx := make([]int, nIdents)
	for i := range idx {
		idx[i] = i
	}
	perm := rapid.Permutation(idx).Draw(rt, "members")
	for _, i := range perm[:n] {
		w.members = append(w.members, pool[i])
	}
	w.outsider = pool[perm[n]]
	lp := rapid.IntRange(0, n-1).Draw(rt, "localPos")
	pp := rapid.IntRange(0, n-2).Draw(rt, "publisherPos")
	if pp >= lp {
		pp++
	}
	w.local, w.publisher = w.members[lp], w.members[pp]
	ids := make([]peer.ID, n)
	peers := make([]propeller.PeerCommittee, n)
	for i, m := range w.members {
		ids[i] = m.id
		peers[i] = propeller.PeerCommittee{ID: m.id, Stake: propeller.Stake(i + 1)}
	}
	w.rs = newRefSchedule(ids)
	w.d, w.p = w.rs.numData(), w.rs.numCoding()
	w.localIdx = w.rs.localIndex(w.publisher.id, w.local.id)
	var err error
	if pn := safely(func() { w.sch, err = propeller.NewScheduler(w.local.id, peers) }); pn != nil || err != nil {
		c.Violation("scheduler", "NewScheduler(%d peers): %v %v", n, err, pn)
	}
	// the documented schedule
	if w.sch.NumDataShards() != w.d || w.sch.NumCodingShards() != w.p || w.sch.BuildThreshold() != w.d {
		c.Violation("scheduler", "N=%d: data %d coding %d threshold %d, documented %d/%d/%d", n, w.sch.NumDataShards(), w.sch.NumCodingShards(), w.sch.BuildThreshold(), w.d, w.p, w.d)
	}
	for i, want := range w.rs.broadcasters(w.publisher.id) {
		got, err := w.sch.PeerForShardIndex(w.publisher.id, propeller.ShardIndex(i))
		if err != nil || got != want {
			c.Violation("scheduler", "PeerForShardIndex(shard %d) = %s, %v; documented %s", i, got, err, want)
		}
	}
	if li, err := w.sch.ShardIndexForPublisher(w.publisher.id); err != nil || int(li) != w.localIdx {
		c.Violation("scheduler", "ShardIndexForPublisher = %d, %v; documented %d", li, err, w.localIdx)
	}

	ln, lk := genMsgLen(rt, w.d)
	w.msg = genMsg(rt, ln)
	c.Label("len:" + lk)
	w.committee = genHash(rt, "committee")
	w.fullFlow = !stats.Known(kLeaf)
	w.lm = leafProto
	var units []propeller.Unit
	if w.fullFlow {
		w.nonce = genNonce(rt, c)
		cid := propeller.CommitteeID(w.committee)
		w.in = append([]byte{}, w.msg...)
		if pn := safely(func() {
			units, err = propeller.CreatePropellerUnits(w.publisher.priv, &cid, propeller.Nonce(w.nonce), w.in, w.d, w.p)
		}); pn != nil || err != nil {
			c.Violation("create-error", "CreatePropellerUnits(msg len %d, data %d, parity %d): %v %v", ln, w.d, w.p, err, pn)
		}
		if len(units) != w.d+w.p {
			c.Violation("unit-count", "CreatePropellerUnits(data %d, parity %d) returned %d units", w.d, w.p, len(units))
		}
	} else {
		// kLeaf known: the producer's units can never pass the validator; exercise the validator with
		// units of the reference publisher (documented leaf encoding) and skip reconstruction here.
		c.Excluded(kLeaf)
		w.nonce = rapid.Int64().Draw(rt, "nonce")
		if units, err = refCreate(w.publisher, w.committee, w.nonce, w.msg, w.d, w.p, leafProto); err != nil {
			c.Violation("rs-encode", "reference publisher: EncodeData(data %d, parity %d) failed: %v", w.d, w.p, err)
		}
	}
	w.created = units
	// over the wire
	for i := range units {
		var back propeller.Unit
		var raw []byte
		var perr error
		if pn := safely(func() {
			raw, perr = proto.Marshal(units[i].ToProto())
			if perr != nil {
				return
			}
			var m pb.PropellerUnit
			if perr = proto.Unmarshal(raw, &m); perr != nil {
				return
			}
			back, perr = propeller.UnitFromProto(&m)
		}); pn != nil || perr != nil {
			c.Violation("proto-roundtrip", "unit %d: ToProto/Marshal/Unmarshal/UnitFromProto failed: %v %v", i, perr, pn)
		}
		if f := unitDiff(&units[i], &back); f != "" {
			c.Violation("proto-roundtrip", "unit %d: field %s changed by the protobuf round trip", i, f)
		}
		w.units = append(w.units, back)
	}
	return w
}

type mkey struct {
	committee hash
	publisher peer.ID
	root      hash
	nonce     int64
}

// router models Processor.ProcessMessage/createSubprocessor: one validator per message key, created only
// when the local node has a shard index for the claimed publisher.
type router struct {
	w  *world
	c  *stats.Case
	vs map[mkey]*propeller.UnitValidator
}

func (r *router) route(u *propeller.Unit) *propeller.UnitValidator {
	k := mkey{hash(u.CommitteeID), u.Publisher, hash(u.MessageRoot), int64(u.Nonce)}
	if v, ok := r.vs[k]; ok {
		return v
	}
	var err error
	if pn := safely(func() { _, err = r.w.sch.ShardIndexForPublisher(u.Publisher) }); pn != nil {
		r.c.Violation("panic", "ShardIndexForPublisher(%s) panicked: %v", u.Publisher, pn)
	}
	wantOK := r.w.rs.member(u.Publisher) && u.Publisher != r.w.local.id
	if (err == nil) != wantOK {
		r.c.Violation("scheduler", "ShardIndexForPublisher(%q) err=%v; member-and-not-local=%v", string(u.Publisher), err, wantOK)
	}
	if err != nil {
		return nil
	}
	var v propeller.UnitValidator
	if pn := safely(func() { v = propeller.NewValidator(u.Publisher, r.w.sch) }); pn != nil {
		r.c.Violation("panic", "NewValidator panicked: %v", pn)
	}
	r.vs[k] = &v
	return &v
}

// deliver returns nil when the unit is accepted, the rejection otherwise.
func (r *router) deliver(u *propeller.Unit, sender peer.ID) error {
	v := r.route(u)
	if v == nil {
		r.c.Label("dropped-by-routing")
		return fmt.Errorf("no subprocessor for publisher")
	}
	var err error
	if pn := safely(func() { err = v.Validate(u, sender) }); pn != nil {
		r.c.Violation("validate-panic", "Validate(unit index %d, %d shards, %d siblings, sender %s) panicked: %v", u.ShardIndex, len(u.ShardData), len(u.MerkleProof.Siblings), sender, pn)
	}
	return err
}

type event struct {
	unit   propeller.Unit
	sender peer.ID
	honest bool
	kind   string
	dup    bool
}

var corruptionKinds = []string{"shard-bit", "shard-len", "shard-count", "proof-bit", "proof-len", "index", "index-oob", "signature",
	"committee", "publisher", "nonce", "root", "sender", "dup"}

// corrupt makes one adversarial delivery out of an honest unit: exactly one field (or the sender) is wrong.
// The sender is otherwise the one scheduled for the unit as it now claims to be (the strongest position).
func (w *world) corrupt(rt *rapid.T, c *stats.Case) (ev event, skip bool) {
	total := len(w.units)
	i := rapid.IntRange(0, total-1).Draw(rt, "victim")
	u := cloneUnit(&w.units[i])
	sender, _ := w.rs.honestSender(w.publisher.id, w.local.id, i)
	kind := rapid.SampledFrom(corruptionKinds).Draw(rt, "corruption")
	flip := func(b []byte) {
		b[rapid.IntRange(0, len(b)-1).Draw(rt, "pos")] ^= 1 << uint(rapid.IntRange(0, 7).Draw(rt, "bit"))
	}
	switch kind {
	case "shard-bit":
		flip(u.ShardData[0])
	case "shard-len":
		if rapid.Bool().Draw(rt, "shorter") {
			u.ShardData[0] = u.ShardData[0][:len(u.ShardData[0])-1]
		} else {
			u.ShardData[0] = append(u.ShardData[0], 0)
		}
	case "shard-count":
		if rapid.Bool().Draw(rt, "none") {
			u.ShardData = propeller.ShardData{}
		} else {
			u.ShardData = append(u.ShardData, append(propeller.Shard{}, u.ShardData[0]...))
		}
	case "proof-bit":
		k := rapid.IntRange(0, len(u.MerkleProof.Siblings)-1).Draw(rt, "level")
		flip(u.MerkleProof.Siblings[k][:])
	case "proof-len":
		s := u.MerkleProof.Siblings
		if rapid.Bool().Draw(rt, "shorter") {
			u.MerkleProof.Siblings = s[:len(s)-1]
		} else {
			u.MerkleProof.Siblings = append(s, s[len(s)-1])
		}
	case "index":
		if total == 1 {
			kind = "index-oob"
			u.ShardIndex = propeller.ShardIndex(1)
			break
		}
		j := (i + rapid.IntRange(1, total-1).Draw(rt, "shift")) % total
		u.ShardIndex = propeller.ShardIndex(j)
		sender, _ = w.rs.honestSender(w.publisher.id, w.local.id, j)
		if unitDiff(&u, &w.units[j]) == "" { // identical shards and proofs: this IS the honest unit j
			c.Label("index-swap-identical-units")
			return event{}, true
		}
	case "index-oob":
		size := 1 << uint(len(u.MerkleProof.Siblings))
		u.ShardIndex = rapid.SampledFrom([]propeller.ShardIndex{propeller.ShardIndex(total), propeller.ShardIndex(i + size),
			propeller.ShardIndex(i + 2*size), math.MaxUint32, 1 << 31}).Draw(rt, "oob")
	case "signature":
		switch rapid.SampledFrom([]string{"flip", "truncate", "empty", "extend"}).Draw(rt, "sigKind") {
		case "flip":
			flip(u.Signature)
		case "truncate":
			u.Signature = u.Signature[:len(u.Signature)-1]
		case "empty":
			u.Signature = nil
		case "extend":
			u.Signature = append(u.Signature, 0)
		}
	case "committee":
		flip(u.CommitteeID[:])
	case "publisher":
		cands := []ident{w.outsider}
		for _, m := range w.members {
			if m.id != w.publisher.id {
				cands = append(cands, m)
			}
		}
		q := cands[rapid.IntRange(0, len(cands)-1).Draw(rt, "newPublisher")]
		u.Publisher = q.id
		if s, ok := w.rs.honestSender(q.id, w.local.id, i); ok && q.id != w.local.id {
			sender = s
		}
	case "nonce":
		if rapid.Bool().Draw(rt, "plusOne") {
			u.Nonce++
		} else {
			u.Nonce ^= propeller.Nonce(int64(1) << uint(rapid.IntRange(0, 63).Draw(rt, "bit")))
		}
	case "root":
		flip(u.MessageRoot[:])
	case "sender":
		cands := []peer.ID{w.outsider.id}
		for _, m := range w.members {
			if m.id != sender {
				cands = append(cands, m.id)
			}
		}
		sender = cands[rapid.IntRange(0, len(cands)-1).Draw(rt, "wrongSender")]
	case "dup":
		return event{kind: "dup", dup: true}, false
	}
	return event{unit: u, sender: sender, kind: kind}, false
}

func TestPropValidatePipeline(t *testing.T) {
	stats.Check(t, stats.Budget{Quick: 8000, Thorough: 100000},
		"receiver of a committee of N in 2..25 Ed25519 peers (data/coding from the scheduler), any local/publisher pair: honest units (CreatePropellerUnits -> protobuf "+
			"round trip) of a present subset >= BuildThreshold arrive in any order from their scheduled senders, interleaved with 0..4 adversarial deliveries each wrong in "+
			"exactly one field (shard byte/length/count, proof sibling/length, index in/out of range, signature, committee, publisher, nonce, root, sender, duplicate); "+
			"deliveries are routed to one UnitValidator per (committee,publisher,root,nonce) like the Processor does; every honest unit must be accepted, every adversarial one "+
			"rejected, no panic; unitsReceived (index-addressed, nil holes) -> ConstructMessageFromUnits at the threshold and again with all present units returns the message "+
			"bit for bit and the publisher's local shard+proof; non-trivial = at least one data shard missing",
		func(rt *rapid.T, c *stats.Case) {
			w := genWorld(rt, c)
			total := w.d + w.p
			present := genPresent(rt, c, w.d, w.p, false)
			labelSubset(c, present, w.d)
			var order []int
			for i, ok := range present {
				if ok {
					order = append(order, i)
				}
			}
			order = rapid.Permutation(order).Draw(rt, "arrival")
			if w.fullFlow && stats.Known(kNilUnit0) && order[0] != 0 {
				// reconstruction at the threshold would see unitsReceived[0] == nil: shard 0 is made to arrive first
				c.Excluded(kNilUnit0)
				rest := []int{0}
				for _, i := range order {
					if i != 0 {
						rest = append(rest, i)
					}
				}
				order = rest
				present[0] = true
			}
			var evs []event
			for _, i := range order {
				s, ok := w.rs.honestSender(w.publisher.id, w.local.id, i)
				if !ok {
					stats.HarnessError("no honest sender for shard %d", i)
				}
				evs = append(evs, event{unit: cloneUnit(&w.units[i]), sender: s, honest: true, kind: "honest"})
			}
			nAdv := rapid.SampledFrom([]int{0, 1, 1, 2, 2, 3, 4}).Draw(rt, "adversarial")
			for a := 0; a < nAdv; a++ {
				ev, skip := w.corrupt(rt, c)
				if skip {
					continue
				}
				pos := rapid.IntRange(0, len(evs)).Draw(rt, "position")
				evs = append(evs[:pos], append([]event{ev}, evs[pos:]...)...)
			}
			c.Fp("pipe N=%d l=%s p=%s %x %x %d %s", len(w.members), w.local.id, w.publisher.id, refLeafHash(w.msg), w.committee, w.nonce, bits(present))
			c.Sample(func() any {
				kinds := []string{}
				for _, e := range evs {
					kinds = append(kinds, fmt.Sprintf("%s#%d", e.kind, e.unit.ShardIndex))
				}
				return map[string]any{"committee_size": len(w.members), "data": w.d, "coding": w.p, "local_shard": w.localIdx, "msg_len": len(w.msg),
					"present": bits(present), "deliveries": kinds, "producer": map[bool]string{true: "CreatePropellerUnits", false: "reference publisher"}[w.fullFlow]}
			})

			r := &router{w: w, c: c, vs: map[mkey]*propeller.UnitValidator{}}
			received := make([]*propeller.Unit, total)
			count := 0
			var lastAccepted *event
			for k := range evs {
				e := &evs[k]
				if e.dup {
					if lastAccepted == nil {
						continue
					}
					e.unit, e.sender = cloneUnit(&lastAccepted.unit), lastAccepted.sender
				}
				c.Fp("%s %d %s", e.kind, e.unit.ShardIndex, e.sender)
				err := r.deliver(&e.unit, e.sender)
				if e.honest {
					if err != nil {
						c.Violation("honest-rejected", "honest unit %d/%d (N=%d, data %d, coding %d, local shard %d, msg len %d, nonce %d) sent by its scheduled sender was rejected: %v",
							e.unit.ShardIndex, total, len(w.members), w.d, w.p, w.localIdx, len(w.msg), w.nonce, err)
					}
					received[int(e.unit.ShardIndex)] = &e.unit
					count++
					lastAccepted = e
					if count == w.d && w.fullFlow {
						got := make([]bool, total)
						for i := range received {
							got[i] = received[i] != nil
						}
						checkReconstruction(c, "at BuildThreshold", construct(append([]*propeller.Unit{}, received...), w.localIdx, w.d, w.p), w.msg, w.units, got, w.localIdx, w.d, w.p, w.lm)
					}
					continue
				}
				c.Label("adv:" + e.kind)
				if err == nil {
					c.Violation("corrupt-accepted", "adversarial unit (%s; claims index %d, sender %s; N=%d data %d coding %d local shard %d) was accepted by Validate",
						e.kind, e.unit.ShardIndex, e.sender, len(w.members), w.d, w.p, w.localIdx)
				}
			}
			if w.fullFlow && count > w.d {
				c.Label("above-threshold")
				checkReconstruction(c, "all present", construct(append([]*propeller.Unit{}, received...), w.localIdx, w.d, w.p), w.msg, w.units, present, w.localIdx, w.d, w.p, w.lm)
			}
			if !w.fullFlow {
				c.Label("validator-only(reference publisher)")
			}
		})
}

// ---------------------------------------------------------------------------------- malformed wire units

var wireKinds = []string{"identity", "root-nil", "root-short", "root-empty", "root-long", "shards-nil", "shards-empty", "shards-two-same", "shards-two-diff",
	"shards-three-lastdiff", "sibling-short", "sibling-long", "sibling-empty", "index-high", "publisher-nil", "publisher-garbage", "sig-empty",
	"committee-nil", "committee-short", "committee-long", "byte-flip", "byte-flip", "truncate"}

func TestPropWireMalformed(t *testing.T) {
	stats.Check(t, stats.Budget{Quick: 5000, Thorough: 60000},
		"one honest unit's protobuf message is malformed in one place (root/committee/sibling of wrong length or absent, 0/2/3 shards, index >= 2^32, publisher absent or "+
			"garbage, empty signature, a flipped or cut byte of the encoding) and fed to UnitFromProto then, if it decodes, to the routed UnitValidator from the scheduled "+
			"sender: never a panic; accepted only if the decoded unit equals the honest unit of its index; the unmodified unit is accepted; non-trivial = decoding succeeded on a modified message",
		func(rt *rapid.T, c *stats.Case) {
			w := genWorld(rt, c)
			i := rapid.IntRange(0, len(w.units)-1).Draw(rt, "victim")
			m := w.units[i].ToProto()
			kind := rapid.SampledFrom(wireKinds).Draw(rt, "wireKind")
			if stats.Known(kFromProto) {
				switch kind {
				case "root-nil", "root-short", "root-empty":
					c.Excluded(kFromProto)
					kind = "root-long"
				case "shards-nil", "shards-empty":
					c.Excluded(kFromProto)
					kind = "shards-two-same"
				}
			}
			shard := m.Shards.Shards[0].Data
			switch kind {
			case "root-nil":
				m.MerkleRoot = nil
			case "root-short":
				m.MerkleRoot.Elements = m.MerkleRoot.Elements[:rapid.IntRange(1, 31).Draw(rt, "rootLen")]
			case "root-empty":
				m.MerkleRoot.Elements = nil
			case "root-long":
				m.MerkleRoot.Elements = append(append([]byte{}, m.MerkleRoot.Elements...), 1, 2, 3)
			case "shards-nil":
				m.Shards = nil
			case "shards-empty":
				m.Shards.Shards = nil
			case "shards-two-same":
				m.Shards.Shards = append(m.Shards.Shards, &pb.Shard{Data: append([]byte{}, shard...)})
			case "shards-two-diff":
				m.Shards.Shards = append(m.Shards.Shards, &pb.Shard{Data: append([]byte{9}, shard...)})
			case "shards-three-lastdiff":
				m.Shards.Shards = append(m.Shards.Shards, &pb.Shard{Data: append([]byte{}, shard...)}, &pb.Shard{Data: shard[:len(shard)-1]})
			case "sibling-short":
				m.MerkleProof.Siblings[0].Elements = m.MerkleProof.Siblings[0].Elements[:31]
			case "sibling-long":
				m.MerkleProof.Siblings[0].Elements = append(append([]byte{}, m.MerkleProof.Siblings[0].Elements...), 7)
			case "sibling-empty":
				m.MerkleProof.Siblings[0] = &common.Hash256{}
			case "index-high":
				m.Index += uint64(rapid.IntRange(1, 3).Draw(rt, "wraps")) << 32
			case "publisher-nil":
				m.Publisher = nil
			case "publisher-garbage":
				m.Publisher = &common.PeerID{Id: rapid.SliceOfN(rapid.Byte(), 0, 40).Draw(rt, "pid")}
			case "sig-empty":
				m.Signature = nil
			case "committee-nil":
				m.CommitteeId = nil
			case "committee-short":
				m.CommitteeId.Elements = m.CommitteeId.Elements[:31]
			case "committee-long":
				m.CommitteeId.Elements = append(append([]byte{}, m.CommitteeId.Elements...), 0)
			}
			raw, err := proto.Marshal(m)
			if err != nil {
				stats.HarnessError("marshal: %v", err)
			}
			switch kind {
			case "byte-flip":
				raw[rapid.IntRange(0, len(raw)-1).Draw(rt, "pos")] ^= 1 << uint(rapid.IntRange(0, 7).Draw(rt, "bit"))
			case "truncate":
				raw = raw[:rapid.IntRange(0, len(raw)-1).Draw(rt, "cut")]
			}
			c.Fp("wire %s %x", kind, refLeafHash(raw))
			c.Label("wire:" + kind)
			var back pb.PropellerUnit
			if err := proto.Unmarshal(raw, &back); err != nil {
				c.Label("unmarshal-failed")
				return
			}
			if len(back.GetShards().GetShards()) == 0 || len(back.GetMerkleRoot().GetElements()) < 32 {
				c.Label("class:no-shards-or-short-root")
				if stats.Known(kFromProto) {
					c.Excluded(kFromProto)
					return
				}
			}
			var u propeller.Unit
			if pn := safely(func() { u, err = propeller.UnitFromProto(&back) }); pn != nil {
				c.Violation("fromproto-panic", "UnitFromProto panicked on a %s message (%d shards, %d-byte root): %v", kind, len(back.GetShards().GetShards()), len(back.GetMerkleRoot().GetElements()), pn)
			}
			if err != nil {
				c.Label("rejected-at-decode")
				return
			}
			if kind != "identity" {
				c.NonTrivial("malformed-decoded")
			}
			sender, ok := w.rs.honestSender(u.Publisher, w.local.id, int(u.ShardIndex))
			if !ok {
				sender = w.publisher.id
			}
			r := &router{w: w, c: c, vs: map[mkey]*propeller.UnitValidator{}}
			verr := r.deliver(&u, sender)
			// the decoded unit may legitimately be the honest unit of the index it now claims (identical shards, e.g. 1 data + 1 parity)
			j := i
			if int(u.ShardIndex) < len(w.units) {
				j = int(u.ShardIndex)
			}
			same := unitDiff(&u, &w.units[j]) == ""
			switch {
			case verr == nil && !same:
				c.Violation("malformed-accepted", "a %s message decoded to a unit differing from the honest unit %d in %s and was accepted by Validate", kind, j, unitDiff(&u, &w.units[j]))
			case verr != nil && same:
				c.Violation("honest-rejected", "a %s message decoded to exactly the honest unit %d but was rejected: %v", kind, j, verr)
			case verr == nil:
				c.Label("accepted-equal-to-honest")
			default:
				c.Label("rejected-by-validate")
			}
		})
}

// ---------------------------------------------------------------------------------- known-finding witnesses

func witnessUnits(nonce int64) ([]propeller.Unit, ident, propeller.CommitteeID, []byte) {
	pub := identities()[0]
	cid := propeller.CommitteeID{0xc1, 0x9}
	msg := []byte("propeller witness message")
	units, err := propeller.CreatePropellerUnits(pub.priv, &cid, propeller.Nonce(nonce), msg, 2, 4)
	if err != nil {
		stats.HarnessError("witness: CreatePropellerUnits: %v", err)
	}
	return units, pub, cid, msg
}

// Shard 0 is the missing one: units = [nil, u1, ..., u5] as Processor.beforeMessageBuiltStage builds it.
func TestKnownConstructNilUnit0(t *testing.T) {
	units, _, _, msg := witnessUnits(0)
	present := []bool{false, true, true, true, true, true}
	r := construct(ptrsOf(units, present), 1, 2, 4)
	reproduced := r.pn != nil
	t.Logf("ConstructMessageFromUnits(units[0]=nil, 5 of 6 present): panic=%v err=%v msgOK=%v", r.pn, r.err, bytes.Equal(r.msg, msg))
	stats.KnownFindingWitness(t, kNilUnit0, reproduced)
}

func TestKnownNonceUnset(t *testing.T) {
	units, pub, _, _ := witnessUnits(1_790_000_000_000_000_007)
	u := &units[0]
	err := propeller.VerifyMessageSignature(pub.pub, &u.MessageRoot, &u.CommitteeID, u.Nonce, u.Signature)
	reproduced := u.Nonce != propeller.Nonce(1_790_000_000_000_000_007) && err != nil
	t.Logf("CreatePropellerUnits(nonce=1790000000000000007): unit.Nonce=%d, signature over the unit's own fields: %v", u.Nonce, err)
	stats.KnownFindingWitness(t, kNonce, reproduced)
}

func TestKnownMerkleLeafMismatch(t *testing.T) {
	pool := identities()
	ids := []peer.ID{}
	peers := []propeller.PeerCommittee{}
	for _, m := range pool[:7] {
		ids = append(ids, m.id)
		peers = append(peers, propeller.PeerCommittee{ID: m.id, Stake: 1})
	}
	units, pub, _, _ := witnessUnits(0) // nonce 0: the unset Unit.Nonce cannot interfere
	local := pool[1]
	sch, err := propeller.NewScheduler(local.id, peers)
	if err != nil {
		stats.HarnessError("witness: NewScheduler: %v", err)
	}
	rs := newRefSchedule(ids)
	rejected := 0
	v := propeller.NewValidator(pub.id, sch)
	var last error
	for i := range units {
		s, _ := rs.honestSender(pub.id, local.id, i)
		if err := v.Validate(&units[i], s); err != nil {
			rejected++
			last = err
		}
	}
	t.Logf("7 peers, 2 data + 4 coding: Validate rejected %d of %d honestly created units from their scheduled senders (last: %v)", rejected, len(units), last)
	stats.KnownFindingWitness(t, kLeaf, rejected == len(units))
}

func TestKnownUnpadOverflow(t *testing.T) {
	buf := append(refPutUvarint(math.MaxUint64), 0, 0)
	var err error
	pn := safely(func() { _, err = propeller.UnpadMessage(buf) })
	t.Logf("UnpadMessage(%x): panic=%v err=%v", buf, pn, err)
	stats.KnownFindingWitness(t, kUnpad, pn != nil)
}

func TestKnownUnitFromProtoPanic(t *testing.T) {
	units, _, _, _ := witnessUnits(0)
	noShards := units[0].ToProto()
	noShards.Shards = nil
	shortRoot := units[0].ToProto()
	shortRoot.MerkleRoot.Elements = shortRoot.MerkleRoot.Elements[:31]
	p1 := safely(func() { _, _ = propeller.UnitFromProto(noShards) })
	p2 := safely(func() { _, _ = propeller.UnitFromProto(shortRoot) })
	t.Logf("UnitFromProto(no shards): panic=%v; UnitFromProto(31-byte merkle_root): panic=%v", p1, p2)
	stats.KnownFindingWitness(t, kFromProto, p1 != nil || p2 != nil)
}
