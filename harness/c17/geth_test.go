package c17

// Geth mode of the C17 script: the model L1 node of c17_test.go is served as an Ethereum JSON-RPC endpoint
// (in-process go-ethereum rpc.Server behind a websocket: eth_chainId, eth_blockNumber,
// eth_getBlockByNumber("finalized"), eth_getLogs, eth_subscribe("logs")) and the real l1.Client reaches it
// through the REAL l1.GethL1StateProvider, exactly as juno's node wiring does (ws URL + core contract address).
// Nothing between the websocket and l1.Client is replaced: rpc.Client (reconnects), ethclient, the abigen
// filterer (log decoding), FilterStateUpdate, WatchStateUpdate, forwardStateUpdates, stateUpdateFromGethContract.
//
// Every model decision (what a call answers, which call fails, when the chain changes during the scan) is still
// taken by the model provider of c17_test.go; this file only translates it to and from the wire:
//   - logs are types.Log values of the core contract (topic LogStateUpdate, ABI-packed data, removed flag);
//   - an injected failure is a JSON-RPC error answer, except "no such block" for eth_getBlockByNumber (finalized, safe,
//     latest tag), which is the JSON null a real node answers; the real adapter turns it into eth.ErrNotFound;
//   - a subscription failure is the node cutting the websocket connections (a node has no other way to end a
//     subscription); the client's rpc.Client reconnects on its next call and the client resubscribes.
//
// Schedule ownership. A notification written to the websocket travels through five goroutines before it
// reaches the client's channel. The harness does not guess when it has arrived: the provider handed to
// l1.Client is the real GethL1StateProvider embedded in a tap whose WatchStateUpdate lets the real adapter
// write into an intermediate channel and forwards every value to the client's channel unchanged, except for
// MARKER logs (ordinary, valid LogStateUpdate logs with an L2 number >= 2^62 that the node emits on request),
// which it acknowledges to the harness and drops. The stream is FIFO end to end, so when marker k has come out
// of the adapter, everything the node sent before it has come out of it too (or was swallowed by it); from there
// on the count-based synchronisation of c17_test.go applies (client channel drained, two further polls).
// Connections are only cut at such a point, so "delivered to the client" never depends on what was in flight.

import (
	"context"
	"encoding/json"
	"errors"
	"fmt"
	"math/big"
	"net"
	"net/http/httptest"
	"os"
	"runtime"
	"strings"
	"sync"
	"testing"
	"time"

	"github.com/NethermindEth/juno/blockchain/networks"
	"github.com/NethermindEth/juno/l1"
	"github.com/NethermindEth/juno/l1/eth"
	"github.com/NethermindEth/juno/l1/geth/contract"
	"github.com/ethereum/go-ethereum/accounts/abi"
	"github.com/ethereum/go-ethereum/common"
	"github.com/ethereum/go-ethereum/common/hexutil"
	"github.com/ethereum/go-ethereum/core/types"
	"github.com/ethereum/go-ethereum/rpc"
	"pgregory.net/rapid"

	"verif/harness/internal/stats"
)

// markerBase: L2 block numbers at or above it identify stream markers (model L2 numbers stay far below).
const markerBase = uint64(1) << 62

var (
	coreContract     = common.Address(networks.Sepolia.CoreContractAddress)
	stateUpdateEvent abi.Event
)

func init() {
	parsed, err := contract.StarknetMetaData.GetAbi()
	if err != nil {
		panic(err)
	}
	ev, ok := parsed.Events["LogStateUpdate"]
	if !ok {
		panic("c17: core contract ABI has no LogStateUpdate event")
	}
	stateUpdateEvent = ev
}

// ---------------------------------------------------------------------------------------------------------
// wire format

func packLog(l1Height uint64, blockTag, logIndex uint, root, number, hash *big.Int, removed bool) types.Log {
	data, err := stateUpdateEvent.Inputs.Pack(root, number, hash) // (uint256 globalRoot, int256 blockNumber, uint256 blockHash)
	if err != nil {
		stats.HarnessError("c17: packing LogStateUpdate: %v", err)
	}
	var bh, th common.Hash
	new(big.Int).SetUint64(uint64(blockTag) + 1).FillBytes(bh[:])
	bh[0] = 0xb1
	hash.FillBytes(th[:])
	th[0] = 0x77
	return types.Log{
		Address:     coreContract,
		Topics:      []common.Hash{stateUpdateEvent.ID},
		Data:        data,
		BlockNumber: l1Height,
		BlockHash:   bh,
		TxHash:      th,
		Index:       logIndex,
		Removed:     removed,
	}
}

func logOf(e *event, removed bool) types.Log {
	return packLog(e.l1, uint(e.blockID), uint(e.idx), e.root.BigInt(new(big.Int)), new(big.Int).SetUint64(e.l2),
		e.hash.BigInt(new(big.Int)), removed)
}

func markerLog(k int, l1Height uint64) types.Log {
	return packLog(l1Height, 1<<30, 0, new(big.Int), new(big.Int).SetUint64(markerBase+uint64(k)), new(big.Int), false)
}

// logFilter is the filter object of eth_getLogs / eth_subscribe("logs").
type logFilter struct {
	Address   oneOrMany[common.Address] `json:"address"`
	Topics    []oneOrMany[common.Hash]  `json:"topics"`
	FromBlock *rpc.BlockNumber          `json:"fromBlock"`
	ToBlock   *rpc.BlockNumber          `json:"toBlock"`
	BlockHash *common.Hash              `json:"blockHash"`
}

// oneOrMany decodes null, a single value or an array of values (all three are legal in a filter object).
type oneOrMany[T any] []T

func (l *oneOrMany[T]) UnmarshalJSON(b []byte) error {
	s := strings.TrimSpace(string(b))
	switch {
	case s == "null":
		*l = nil
		return nil
	case strings.HasPrefix(s, "["):
		var many []T
		if err := json.Unmarshal(b, &many); err != nil {
			return err
		}
		*l = many
		return nil
	}
	var one T
	if err := json.Unmarshal(b, &one); err != nil {
		return err
	}
	*l = []T{one}
	return nil
}

// matches: does the filter select the LogStateUpdate logs of the core contract (the only logs this node has)?
func (f *logFilter) matches() bool {
	if len(f.Address) > 0 {
		found := false
		for _, a := range f.Address {
			found = found || a == coreContract
		}
		if !found {
			return false
		}
	}
	for i, alt := range f.Topics {
		if len(alt) == 0 {
			continue // wildcard
		}
		if i > 0 {
			return false // the logs carry a single topic
		}
		found := false
		for _, t := range alt {
			found = found || t == stateUpdateEvent.ID
		}
		if !found {
			return false
		}
	}
	return true
}

// ---------------------------------------------------------------------------------------------------------
// the node

type trackingListener struct {
	net.Listener
	mu    sync.Mutex
	conns []net.Conn
}

func (l *trackingListener) Accept() (net.Conn, error) {
	c, err := l.Listener.Accept()
	if err == nil {
		l.mu.Lock()
		l.conns = append(l.conns, c)
		l.mu.Unlock()
	}
	return c, err
}

func (l *trackingListener) drop() int {
	l.mu.Lock()
	cs := l.conns
	l.conns = nil
	l.mu.Unlock()
	for _, c := range cs {
		c.Close()
	}
	return len(cs)
}

// fakeNode is the JSON-RPC front of the model node for ONE client instance.
type fakeNode struct {
	h       *harness
	p       *provider // the model (bound to the instance's generation)
	rpcSrv  *rpc.Server
	httpSrv *httptest.Server
	ln      *trackingListener
	gp      *l1.GethL1StateProvider
	quit    chan struct{}
	wg      sync.WaitGroup

	// live subscription (h.mu)
	notifier   *rpc.Notifier
	subID      rpc.ID
	subMatch   bool
	cutPending bool
	closed     bool
}

type ethAPI struct{ n *fakeNode }

func (a *ethAPI) ChainId(ctx context.Context) (*hexutil.Big, error) { //nolint:revive // eth_chainId
	id, err := a.n.p.ChainID(ctx)
	if err != nil {
		return nil, err
	}
	return (*hexutil.Big)(id), nil
}

func (a *ethAPI) BlockNumber(ctx context.Context) (hexutil.Uint64, error) {
	n, err := a.n.p.LatestHeight(ctx) // (every failure kind is a JSON-RPC error here: the method has no null answer)
	return hexutil.Uint64(n), err
}

func header(n uint64) *types.Header {
	return &types.Header{Number: new(big.Int).SetUint64(n), Difficulty: new(big.Int)}
}

// GetBlockByNumber answers a header, or JSON null for "no such block" (the result type is `any` because a nil
// *types.Header cannot be marshalled).
func (a *ethAPI) GetBlockByNumber(ctx context.Context, nr rpc.BlockNumber, _ bool) (any, error) {
	h := a.n.h
	switch {
	case nr == rpc.FinalizedBlockNumber:
		n, err := a.n.p.FinalisedHeight(ctx)
		if errors.Is(err, eth.ErrNotFound) {
			// "no such block": an execution client that has not been told a finalised checkpoint (yet) answers null
			h.mu.Lock()
			h.flagLocked("geth-finalized-null")
			h.mu.Unlock()
			return nil, nil
		}
		if err != nil {
			return nil, err
		}
		return header(n), nil
	case nr == rpc.SafeBlockNumber:
		// the safe block lies between the finalised block and the tip; unknown whenever the finalised one is
		h.mu.Lock()
		defer h.mu.Unlock()
		if len(h.finPattern) > 0 && h.finPattern[h.finPos%len(h.finPattern)] == kNotFound {
			return nil, nil
		}
		tip := uint64(len(h.blocks) - 1)
		return header(h.fin + (tip-h.fin)/2), nil
	case nr == rpc.LatestBlockNumber || nr == rpc.PendingBlockNumber:
		// (not asked by the adapter as it is; answered like eth_blockNumber, "no such block" being null)
		n, err := a.n.p.LatestHeight(ctx)
		if errors.Is(err, eth.ErrNotFound) {
			return nil, nil
		}
		if err != nil {
			return nil, err
		}
		return header(n), nil
	case nr >= 0:
		h.mu.Lock()
		defer h.mu.Unlock()
		if int(nr) >= len(h.blocks) {
			return nil, nil // unknown block: null
		}
		return header(uint64(nr)), nil
	}
	return nil, fmt.Errorf("c17 node: block tag %d not served", nr)
}

func (a *ethAPI) resolve(nr *rpc.BlockNumber, def uint64) (uint64, error) {
	h := a.n.h
	h.mu.Lock()
	defer h.mu.Unlock()
	switch {
	case nr == nil:
		return def, nil
	case *nr >= 0:
		return uint64(*nr), nil
	case *nr == rpc.LatestBlockNumber || *nr == rpc.PendingBlockNumber:
		return uint64(len(h.blocks) - 1), nil
	case *nr == rpc.FinalizedBlockNumber:
		return h.fin, nil
	case *nr == rpc.SafeBlockNumber:
		return h.fin + (uint64(len(h.blocks)-1)-h.fin)/2, nil
	}
	return 0, fmt.Errorf("c17 node: block tag %d not served", *nr)
}

func (a *ethAPI) GetLogs(_ context.Context, crit logFilter) ([]types.Log, error) {
	if crit.BlockHash != nil {
		return nil, errors.New("c17 node: blockHash filters not served")
	}
	from, err := a.resolve(crit.FromBlock, 0)
	if err != nil {
		return nil, err
	}
	h := a.n.h
	h.mu.Lock()
	top := uint64(len(h.blocks) - 1)
	h.mu.Unlock()
	to, err := a.resolve(crit.ToBlock, top)
	if err != nil {
		return nil, err
	}
	evs, err := a.n.p.filterEvents(from, to, crit.matches())
	if err != nil {
		return nil, err
	}
	out := make([]types.Log, 0, len(evs))
	for _, e := range evs {
		out = append(out, logOf(e, false))
	}
	if len(out) > 0 {
		h.mu.Lock()
		h.flagLocked("geth-getlogs-nonempty")
		h.mu.Unlock()
	}
	return out, nil
}

// Logs implements eth_subscribe("logs", filter).
func (a *ethAPI) Logs(ctx context.Context, crit logFilter) (*rpc.Subscription, error) {
	notifier, ok := rpc.NotifierFromContext(ctx)
	if !ok {
		return nil, rpc.ErrNotificationsUnsupported
	}
	n := a.n
	var rsub *rpc.Subscription
	ms, err := n.p.watch(nil, func(*subscription) {
		// granted by the model: only now does the RPC subscription exist (mu held: deliver sees both or neither)
		if n.closed {
			return // a request of a client that has been stopped, still being served while the node shuts down
		}
		rsub = notifier.CreateSubscription()
		n.notifier, n.subID, n.subMatch = notifier, rsub.ID, crit.matches()
		n.wg.Add(1)
	})
	if err != nil {
		return nil, err
	}
	if rsub == nil {
		return nil, errors.New("c17 node: shutting down")
	}
	go func() {
		defer n.wg.Done()
		select {
		case <-rsub.Err(): // eth_unsubscribe or connection gone
		case <-n.quit:
		}
		ms.Unsubscribe()
	}()
	return rsub, nil
}

// notify writes one log notification to the live subscription (synchronously, onto the websocket).
func (n *fakeNode) notify(l types.Log) { //nolint:gocritic // value semantics wanted
	h := n.h
	h.mu.Lock()
	notifier, id := n.notifier, n.subID
	h.mu.Unlock()
	if notifier == nil {
		stats.HarnessError("c17: notification without a live subscription")
	}
	if err := notifier.Notify(id, l); err != nil {
		if h.cur != nil {
			select {
			case rerr := <-h.cur.done:
				h.cur = nil
				h.fail("client-exited", "Client.Run returned (%v) while the node was sending notifications", rerr)
			default:
			}
		}
		stats.HarnessError("c17: writing a log notification failed: %v", err)
	}
}

// dropConnections makes the node cut its websocket connections. go-ethereum's rpc.Client strands a request whose
// write races with the death of its connection until the request's context expires (30 s in l1.Client); that
// stall is outside the property and would only make cases inconclusive. The cut is therefore performed while the
// client's (only) goroutine is known not to be writing: on its way into its next finalised-height call (tap
// below), which proceeds once the rpc.Client has reported the loss of the connection to the subscription.
func (n *fakeNode) dropConnections() {
	h := n.h
	h.mu.Lock()
	n.notifier = nil
	n.cutPending = true
	h.flagLocked("geth-connection-cut")
	h.mu.Unlock()
	h.waitFor("the node to cut the connection before the next finalised-height request", func() bool { return !n.cutPending })
}

func (h *harness) startNode(p *provider) l1.L1StateProvider {
	n := &fakeNode{h: h, p: p, quit: make(chan struct{})}
	n.rpcSrv = rpc.NewServer()
	if err := n.rpcSrv.RegisterName("eth", &ethAPI{n: n}); err != nil {
		stats.HarnessError("c17: registering the eth API: %v", err)
	}
	n.httpSrv = httptest.NewUnstartedServer(n.rpcSrv.WebsocketHandler([]string{"*"}))
	n.ln = &trackingListener{Listener: n.httpSrv.Listener}
	n.httpSrv.Listener = n.ln
	n.httpSrv.Start()
	h.mu.Lock()
	h.node = n
	h.mu.Unlock()
	// same construction as juno's node wiring (node.newL1StateProvider): ws URL + core contract address
	ctx, cancel := context.WithTimeout(context.Background(), waitGuard)
	defer cancel()
	gp, err := l1.NewGethL1StateProvider(ctx, "ws"+strings.TrimPrefix(n.httpSrv.URL, "http"), networks.Sepolia.CoreContractAddress)
	if err != nil {
		stats.HarnessError("c17: dialling the in-process node: %v", err)
	}
	n.gp = gp
	return &tapProvider{GethL1StateProvider: gp, h: h}
}

// closeNode tears the instance's node down; nothing of it survives (servers, connections, goroutines).
func (h *harness) closeNode() {
	h.mu.Lock()
	n := h.node
	h.node = nil
	if n != nil {
		n.closed = true // (mu: no subscription is registered from here on)
	}
	h.mu.Unlock()
	if n == nil {
		return
	}
	close(n.quit)
	if n.gp != nil {
		n.gp.Close() // idempotent; the client closes it too when Run / CatchUpL1Head returns
	}
	n.rpcSrv.Stop()
	n.ln.drop()
	n.httpSrv.Close()
	n.wg.Wait()
}

// quiesceStream returns once everything the node has written to the live subscription has come out of the adapter.
func (h *harness) quiesceStream() {
	if h.node == nil || h.cur == nil {
		return
	}
	h.mu.Lock()
	up := h.subUp && h.node.notifier != nil && h.node.subMatch
	top := uint64(len(h.blocks) - 1)
	h.mu.Unlock()
	if !up {
		return
	}
	h.markerSent++
	k := h.markerSent
	h.node.notify(markerLog(k, top))
	h.waitFor("stream marker to come out of the adapter", func() bool { return h.markerSeen >= k })
}

// ---------------------------------------------------------------------------------------------------------
// the tap between the real adapter and the client

type tapProvider struct {
	*l1.GethL1StateProvider
	h *harness
}

// tapSub relays the real subscription: Err() carries what the real Err() carries (the error, then closed).
type tapSub struct {
	real    l1.Subscription
	errCh   chan error
	errSeen chan struct{} // closed once the real subscription has reported its end
	once    sync.Once
	quit    chan struct{}
	done    chan struct{}
}

func (s *tapSub) Err() <-chan error { return s.errCh }

func (s *tapSub) Unsubscribe() {
	s.real.Unsubscribe()
	s.once.Do(func() { close(s.quit) })
	<-s.done
}

func (t *tapProvider) WatchStateUpdate(ctx context.Context, ch chan<- *l1.StateUpdate) (l1.Subscription, error) {
	h := t.h
	h.mu.Lock()
	h.updCh = ch
	h.mu.Unlock()
	mid := make(chan *l1.StateUpdate)
	sub, err := t.GethL1StateProvider.WatchStateUpdate(ctx, mid)
	if err != nil {
		return nil, err
	}
	s := &tapSub{real: sub, errCh: make(chan error, 1), errSeen: make(chan struct{}), quit: make(chan struct{}), done: make(chan struct{})}
	h.mu.Lock()
	h.tapCur = s
	h.mu.Unlock()
	go func() {
		defer close(s.done)
		realErr := sub.Err()
		for {
			select {
			case su := <-mid:
				if su.L2BlockNumber >= markerBase {
					h.mu.Lock()
					if k := int(su.L2BlockNumber - markerBase); k > h.markerSeen {
						h.markerSeen = k
					}
					h.mu.Unlock()
					h.notify()
					continue
				}
				select {
				case ch <- su:
				case <-s.quit:
					return
				}
			case err, ok := <-realErr:
				realErr = nil
				close(s.errSeen)
				if ok {
					s.errCh <- err
				}
				close(s.errCh)
			case <-s.quit:
				return
			}
		}
	}()
	return s, nil
}

// FinalisedHeight is the real call; a connection cut the script has requested is performed first (see dropConnections).
func (t *tapProvider) FinalisedHeight(ctx context.Context) (uint64, error) {
	h := t.h
	h.mu.Lock()
	n, s := h.node, h.tapCur
	cut := n != nil && n.cutPending
	h.mu.Unlock()
	if cut {
		if s == nil || n.ln.drop() == 0 {
			stats.HarnessError("c17: no subscription / connection to cut")
		}
		select {
		case <-s.errSeen:
		case <-ctx.Done():
		}
		h.mu.Lock()
		n.cutPending = false
		h.mu.Unlock()
		h.notify()
	}
	return t.GethL1StateProvider.FinalisedHeight(ctx)
}

// ---------------------------------------------------------------------------------------------------------

// awaitGoroutines: a completed case must leave no goroutine behind.
func awaitGoroutines(base int) {
	deadline := time.Now().Add(waitGuard)
	for runtime.NumGoroutine() > base {
		if time.Now().After(deadline) {
			buf := make([]byte, 1<<20)
			buf = buf[:runtime.Stack(buf, true)]
			fmt.Fprintf(os.Stderr, "%s\n", buf)
			stats.HarnessError("c17: %d goroutines outlive the case (%d before it)", runtime.NumGoroutine(), base)
		}
		time.Sleep(50 * time.Microsecond) // teardown pace only
	}
}

func runScriptGeth(rt *rapid.T, c *stats.Case) {
	c.Label("via-geth-adapter")
	runScriptMode(rt, c, true)
}

const ruleGeth = "the script of TestPropL1HeadScript with the model L1 node served as an Ethereum JSON-RPC endpoint (in-process go-ethereum " +
	"rpc.Server over a websocket) to the real l1.GethL1StateProvider + l1.Client + Blockchain: logs (incl. removed=true copies) travel as " +
	"eth_subscribe notifications through ethclient, the abigen filterer and forwardStateUpdates; the catch-up scan is eth_blockNumber / " +
	"eth_getBlockByNumber(finalized) / eth_getLogs; injected failures are JSON-RPC errors, 'no finalised block' is the JSON null answer (label " +
	"geth-finalized-null) that the adapter reports as eth.ErrNotFound; a subscription failure is the node cutting the " +
	"connection (rpc.Client reconnects, the client resubscribes); synchronisation by stream markers acknowledged at the adapter's output + " +
	"counts. Same oracles and non-trivial rule as TestPropL1HeadScript"

// TestPropL1HeadScriptGeth runs the script through the real go-ethereum adapter.
func TestPropL1HeadScriptGeth(t *testing.T) {
	stats.Check(t, stats.Budget{Quick: 400, Thorough: 3000}, ruleGeth, runScriptGeth)
}

// TestRaceL1HeadScriptGeth is the same under the race detector.
func TestRaceL1HeadScriptGeth(t *testing.T) {
	stats.Check(t, stats.Budget{Quick: 120, Thorough: 800}, ruleGeth, runScriptGeth)
}
