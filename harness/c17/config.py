# Driver configuration for property C17 (read by /verif/checks_config.py)
PROP = dict(
        pkg="c17", level="exploration",
        technique=("scripted-environment PBT (rapid): real l1.Client + real Blockchain driven by a model L1 node, reached either directly "
                   "(L1StateProvider implemented by the model) or through the real GethL1StateProvider against an in-process Ethereum JSON-RPC "
                   "node (go-ethereum rpc.Server over a websocket); provider failures carry the adapter's error kinds (transport error, "
                   "eth.ErrNotFound / JSON null for the finalized tag, context deadline) incl. long outages of the finalised-height query; "
                   "Ethereum-like height geometry (tip hundreds of blocks above events and finalised height); invariants over every observed "
                   "head + model comparison at count-based quiescence; -race"),
        level_text=("Exploration: generated L1-node scripts (hundreds per quick run, thousands per thorough run) executed against the real "
                    "concurrent client; per-value invariants checked at every OnNewL1Head / feed value / sampled L1Head() read and the stored head "
                    "compared with a reference model at every quiescent point. Samples the space of scripts and lets the Go scheduler/timers add "
                    "their own interleavings; does not enumerate interleavings and does not prove absence."),
        rule=("rapid-drawn script over a model Ethereum chain (blocks with 0-3 LogStateUpdate events, L2 numbers strictly increasing along the "
              "canonical chain; the initial chain may start with 2-1500 empty blocks and end with 5-1000 empty blocks, the initial finalised height "
              "is inside the events, anywhere in 0..tip, or a fixed lag 0-300 below the tip): mine a block, mine a run of 5-1000 blocks without "
              "events (labels gap>=63-blocks, unfinalised-event-64+-below-tip), deliver queued logs, advance the finalised height (+1, to an event "
              "block, to tip-lag with lag 0/1/32/63/64/65/96/128/300, uniform up to the tip), reorg of the non-finalised suffix: depth 1-4, or deep "
              "(label deep-reorg: down to any event block / any block above the finalised height, replacement chain mostly empty; label "
              "reorg-of-delivered-event-64+-below-tip) with Removed copies of every delivered log, ascending or descending, then the new logs; "
              "subscription error, unreachable node with missed logs, failing resubscriptions/FinalisedHeight/ChainID/LatestHeight/"
              "FilterStateUpdate, every failure with a drawn KIND (generic transport error, the eth.ErrNotFound sentinel, wrapped "
              "context.DeadlineExceeded; labels fin-error / fin-not-found / fin-deadline and fin-<kind>-with-unfinalised-event-64+-below-tip); "
              "OUTAGE of the finalised-height query (label outage: from a drawn step on, or from the very start, EVERY poll fails - not-found x3 / "
              "error / deadline / mixed pattern - until a drawn 'recover' step or the end of the script; meanwhile mining, deliveries (<= 96, the real "
              "client does not read its 128-slot channel while it retries), finality progress, shallow and deep reorgs, subscription errors (label "
              "sub-error-during-outage, the wait for the resubscription is made up after the outage), client restarts (label "
              "client-start-during-outage) and 2-24 further polls per sync step go on; label fin-pattern>=20-failed-polls) or a FLAKY cyclic pattern "
              "of answer kinds with at least one answer (label flaky-finalised-query); any LatestHeight call after the one of the catch-up scan is "
              "answered by a drawn cyclic pattern of kinds; chain changes during the catch-up scan (reorg depth 1-4, 70 or 1000) and FINALITY ADVANCES during it (before the 1st-4th FilterStateUpdate call, to the next / last event block or the tip, once or twice; label midscan-finality-advance-between-chunks), chunk sizes 1-50 "
              "(64/100/256/1000/5000 when the tip is more than 40 chunks up, so a scan stays within ~40 queries), closing phase in which finality "
              "creeps to the tip block by block (event block by event block on a tall chain), restart via Run or CatchUpL1Head (same DB, same or "
              "fresh Blockchain). During an outage no model comparison is made (nothing is reported as finalised); the per-value invariants - "
              "head is a delivered, unremoved event at or below the largest finalised height REPORTED so far (an error or 'not found' reports "
              "nothing) - are checked at every observation as always. The same scripts also run in geth mode "
              "(TestProp/TestRaceL1HeadScriptGeth, label via-geth-adapter): the model node answers eth_chainId / eth_blockNumber / "
              "eth_getBlockByNumber(finalized) / eth_getLogs / eth_subscribe(logs) over a websocket to the real l1.GethL1StateProvider, so logs and "
              "their removed=true copies (label geth-removed-log) pass through ethclient, the abigen filterer, forwardStateUpdates and "
              "stateUpdateFromGethContract, injected failures are JSON-RPC errors except 'not found' for eth_getBlockByNumber(finalized) (also "
              "served: the safe and latest tags), which is answered with JSON null as a real execution client without a finalised checkpoint does "
              "(label geth-finalized-null; the adapter maps it to eth.ErrNotFound), and a subscription failure is the node cutting the connection "
              "(label geth-connection-cut; rpc.Client reconnects, the client resubscribes); the harness waits on stream markers acknowledged at the "
              "adapter's output, then on counts. Non-trivial = a Removed copy is delivered for a buffered event, "
              "or finality advances past >= 2 buffered L1 blocks at once, or a restart/resubscription happens with a non-empty buffer; distinct = "
              "distinct SHA-256 of the rendered script."),
        assumptions=["an error, a 'not found' (null) answer or an expired context of the finalised-height query reports NOTHING as finalised; "
                     "during an outage of that query the real client sits in its retry loop and reads neither its channel nor the subscription "
                     "error, so at most 96 logs are delivered per outage and the waits for resubscription are postponed to the end of the outage",
                     "the L1 node is well-behaved: finalised height monotone, finalised blocks never reorged, a Removed copy is delivered for every "
                     "delivered log of a reorged block before any log of the replacing blocks and before finality reaches that height",
                     "logs are delivered in chain order; logs mined while the node is unreachable may be missed (then they are not 'delivered')",
                     "after a failed catch-up scan the documented lag is accepted: 'delivered' means delivered to the running client instance, "
                     "the head stored by earlier instances is the floor",
                     "geth mode: the provider handed to l1.Client is the real GethL1StateProvider embedded in a tap that relays the "
                     "subscription (values, error) unchanged, drops the harness's marker logs and records the client's channel; the websocket "
                     "connection is only cut when nothing the node sent is still inside the adapter and while the client's goroutine is not "
                     "writing a request (go-ethereum's rpc.Client strands a request whose write races with the connection's death until its "
                     "30 s context expires: a liveness stall outside this property); notifications lost in flight at a connection loss are "
                     "therefore not generated",
                     "trusted base in geth mode: go-ethereum rpc server/client, ethclient, abi packing of the generated logs"],
        runs=[dict(run="^TestProp"), dict(run="^TestRace", race=True)],
    )
