# Driver configuration for property C17 (read by /verif/checks_config.py)
PROP = dict(
        pkg="c17", level="exploration",
        technique=("scripted-environment PBT (rapid): real l1.Client + real Blockchain driven by a model L1 node, reached either directly "
                   "(L1StateProvider implemented by the model) or through the real GethL1StateProvider against an in-process Ethereum JSON-RPC "
                   "node (go-ethereum rpc.Server over a websocket); invariants over every observed head + model comparison at count-based "
                   "quiescence; -race"),
        level_text=("Exploration: generated L1-node scripts (hundreds per quick run, thousands per thorough run) executed against the real "
                    "concurrent client; per-value invariants checked at every OnNewL1Head / feed value / sampled L1Head() read and the stored head "
                    "compared with a reference model at every quiescent point. Samples the space of scripts and lets the Go scheduler/timers add "
                    "their own interleavings; does not enumerate interleavings and does not prove absence."),
        rule=("rapid-drawn script over a model Ethereum chain (blocks with 0-3 LogStateUpdate events, L2 numbers strictly increasing along the "
              "canonical chain): mine, deliver queued logs, advance the finalised height, reorg depth 1-4 of the non-finalised suffix (Removed copies of "
              "every delivered log, ascending or descending, then the new logs), subscription error, unreachable node with missed logs, failing "
              "resubscriptions/FinalisedHeight/ChainID/LatestHeight/FilterStateUpdate, chain changes during the catch-up scan, chunk sizes 1-50, closing phase in which finality creeps to the tip block by block, "
              "restart via Run or CatchUpL1Head (same DB, same or fresh Blockchain). The same scripts also run in geth mode "
              "(TestProp/TestRaceL1HeadScriptGeth, label via-geth-adapter): the model node answers eth_chainId / eth_blockNumber / "
              "eth_getBlockByNumber(finalized) / eth_getLogs / eth_subscribe(logs) over a websocket to the real l1.GethL1StateProvider, so logs and "
              "their removed=true copies (label geth-removed-log) pass through ethclient, the abigen filterer, forwardStateUpdates and "
              "stateUpdateFromGethContract, injected failures are JSON-RPC errors, and a subscription failure is the node cutting the connection "
              "(label geth-connection-cut; rpc.Client reconnects, the client resubscribes); the harness waits on stream markers acknowledged at the "
              "adapter's output, then on counts. Non-trivial = a Removed copy is delivered for a buffered event, "
              "or finality advances past >= 2 buffered L1 blocks at once, or a restart/resubscription happens with a non-empty buffer; distinct = "
              "distinct SHA-256 of the rendered script."),
        assumptions=["the L1 node is well-behaved: finalised height monotone, finalised blocks never reorged, a Removed copy is delivered for every "
                     "delivered log of a reorged block before any log of the replacing blocks and before finality reaches that height",
                     "logs are delivered in chain order; logs mined while the node is unreachable may be missed (then they are not 'delivered')",
                     "after a failed catch-up scan the documented lag is accepted: 'delivered' means delivered to the running client instance, "
                     "the head stored by earlier instances is the floor",
                     "geth mode: the provider handed to l1.Client is the real GethL1StateProvider embedded in a tap that relays the "
                     "subscription (values, error) unchanged, drops the harness's marker logs and records the client's channel; the websocket "
                     "connection is only cut when nothing the node sent is still inside the adapter and while the client's goroutine is not "
                     "writing a request (go-ethereum's rpc.Client strands a request whose write races with the connection's death until its "
                     "30 s context expires: a liveness stall outside this property); notifications lost in flight at a connection loss are "
                     "therefore not generated",
                     "trusted base in geth mode: go-ethereum rpc server/client, ethclient, abi packing of the generated logs"],
        runs=[dict(run="^TestProp"), dict(run="^TestRace", race=True)],
    )
