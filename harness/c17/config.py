# Driver configuration for property C17 (read by /verif/checks_config.py)
PROP = dict(
        pkg="c17", level="exploration",
        technique="scripted-environment PBT (rapid): real l1.Client + real Blockchain driven by a model L1 node; invariants over every observed head + model comparison at count-based quiescence; -race",
        level_text=("Exploration: generated L1-node scripts (hundreds per quick run, thousands per thorough run) executed against the real "
                    "concurrent client; per-value invariants checked at every OnNewL1Head / feed value / sampled L1Head() read and the stored head "
                    "compared with a reference model at every quiescent point. Samples the space of scripts and lets the Go scheduler/timers add "
                    "their own interleavings; does not enumerate interleavings and does not prove absence."),
        rule=("rapid-drawn script over a model Ethereum chain (blocks with 0-3 LogStateUpdate events, L2 numbers strictly increasing along the "
              "canonical chain): mine, deliver queued logs, advance the finalised height, reorg depth 1-4 of the non-finalised suffix (Removed copies of "
              "every delivered log, ascending or descending, then the new logs), subscription error, unreachable node with missed logs, failing "
              "resubscriptions/FinalisedHeight/ChainID/LatestHeight/FilterStateUpdate, chain changes during the catch-up scan, chunk sizes 1-50, closing phase in which finality creeps to the tip block by block, "
              "restart via Run or CatchUpL1Head (same DB, same or fresh Blockchain). Non-trivial = a Removed copy is delivered for a buffered event, "
              "or finality advances past >= 2 buffered L1 blocks at once, or a restart/resubscription happens with a non-empty buffer; distinct = "
              "distinct SHA-256 of the rendered script."),
        assumptions=["the L1 node is well-behaved: finalised height monotone, finalised blocks never reorged, a Removed copy is delivered for every "
                     "delivered log of a reorged block before any log of the replacing blocks and before finality reaches that height",
                     "logs are delivered in chain order; logs mined while the node is unreachable may be missed (then they are not 'delivered')",
                     "after a failed catch-up scan the documented lag is accepted: 'delivered' means delivered to the running client instance, "
                     "the head stored by earlier instances is the floor",
                     "GethL1StateProvider (go-ethereum adapter) is not exercised (DESIGN section 6)"],
        runs=[dict(run="^TestProp"), dict(run="^TestRace", race=True)],
    )
