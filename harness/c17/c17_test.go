// Package c17: the recorded L1 head is always a finalised, still-canonical L1 state commit (property C17).
//
// The REAL l1.Client (Run, CatchUpL1Head) is driven by a harness implementation of l1.L1StateProvider that
// is backed by a model Ethereum chain owned by the generator, against a real blockchain.Blockchain on an
// in-memory database. A rapid-drawn script decides what the L1 node does next (mine a block carrying 0-3
// LogStateUpdate events or a run of 5..1000 blocks without any, hand the next queued log to the subscription,
// advance the finalised height (by one, to an event, to a fixed lag below the tip, anywhere), reorg the
// non-finalised suffix (a few blocks or down to any block above the finalised one), break the subscription, make
// resubscription / FinalisedHeight / the catch-up queries fail, restart the client). Every provider failure has a
// KIND, the ones the real adapter produces: transport error, the eth.ErrNotFound sentinel ("no such block": the
// node has no finalised block to report, typical after a restart of the L1 node), expired context. The
// finalised-height query can fail for a whole stretch of the script (outage: every poll, for dozens of polls) or
// flakily (cyclic pattern), while logs at any depth below the tip are delivered, finality moves on and reorgs happen.
// Height geometry: the tip may be hundreds of blocks above the buffered events and the finalised height.
// Synchronisation with the concurrent client is by COUNTS (channel drained, then two further FinalisedHeight
// answers; during an outage: k further polls, then only the per-value invariants are checked, because nothing is
// reported as finalised meanwhile); wall-clock guards only ever make a case inconclusive.
//
// The same script runs in two modes. In the interface mode the model node implements l1.L1StateProvider itself.
// In the geth mode (geth_test.go) the model node is served as an Ethereum JSON-RPC endpoint over a websocket
// (in-process go-ethereum rpc.Server) and the client talks to it through the REAL l1.GethL1StateProvider
// (ethclient + abigen filterer + forwardStateUpdates), as the node does in production.
//
// Oracles (schedule independent):
//   - at every OnNewL1Head callback, every value seen on the L1-head feed and every sampled Blockchain.L1Head():
//     the head is an event the L1 node delivered, not on a reorged-out block, at an L1 height <= the largest
//     finalised height the provider has reported so far; the L2 number never decreases; a set head never becomes unset;
//   - at quiescence: the head equals the event with the highest L1 block (last delivered inside a block) among the
//     events delivered to the running client instance, not removed, at or below the finalised height; when there
//     is none, the head is what the database held when the instance started.
package c17

import (
	"context"
	"errors"
	"fmt"
	"math"
	"os"
	"runtime"
	"strings"
	"sync"
	"sync/atomic"
	"testing"
	"time"

	"math/big"

	"github.com/NethermindEth/juno/blockchain"
	"github.com/NethermindEth/juno/blockchain/networks"
	"github.com/NethermindEth/juno/core"
	"github.com/NethermindEth/juno/core/felt"
	"github.com/NethermindEth/juno/db"
	"github.com/NethermindEth/juno/db/memory"
	_ "github.com/NethermindEth/juno/encoder/registry"
	"github.com/NethermindEth/juno/l1"
	"github.com/NethermindEth/juno/l1/eth"
	"github.com/NethermindEth/juno/utils/log"
	"pgregory.net/rapid"

	"verif/harness/internal/stats"
)

func TestMain(m *testing.M) { stats.Main(m) }

// waitGuard bounds every wait for the concurrent client. Exceeding it is never a verdict about juno.
const waitGuard = 30 * time.Second

var inconclusive atomic.Int32

// ---------------------------------------------------------------------------------------------------------
// model

type event struct {
	id     int
	l1, l2 uint64
	hash   felt.Felt
	root   felt.Felt

	blockID, idx int // identity of its Ethereum block and its position in it (geth mode: block hash, log index)

	orphaned bool // its Ethereum block was reorged out
	notified bool // the Removed copy was handed to the client
	ever     bool // handed to some client instance (subscription or FilterStateUpdate)
	gen      int  // last client instance it was handed to
	seq      int  // sequence number of its last delivery
}

func (e *event) String() string {
	if e == nil {
		return "<unset>"
	}
	return fmt.Sprintf("e%d(L1=%d,L2=%d)", e.id, e.l1, e.l2)
}

func (e *event) update(removed bool) *l1.StateUpdate {
	return &l1.StateUpdate{L2BlockNumber: e.l2, L2BlockHash: e.hash, StateRoot: e.root, L1RefHeight: e.l1, Removed: removed}
}

type l1block struct{ evs []*event }

type item struct {
	ev      *event
	removed bool
}

// plan is everything the provider needs to decide, on the client's goroutine, during one client instance's
// start-up; it is drawn up-front on the test goroutine (rapid.T is not goroutine safe).
type plan struct {
	chunk        uint64
	chainIDFailN int
	chainIDKind  int
	latestFail   bool // the first LatestHeight call (the one of the catch-up scan) fails
	latestKind   int
	latestLater  []int // answer kinds of any further LatestHeight call (cyclic)
	finFailN     int
	finKind      int
	filterFailAt int // index of the FilterStateUpdate call that fails (-1: none)
	filterKind   int
	watchFailN   int
	midAt        int // index of the FilterStateUpdate call before which the chain changes (-1: none)
	midReorg     bool
	midDepth     int
	midSpec      []int
	midOrder     int
	// FINALITY moves while the client is still scanning (added after seed C17-h): before FilterStateUpdate call number finAdvAt
	// (-1: never) the finalised height rises to the next / the last block carrying events above it, or to the tip; and again
	// before the following call when finAdvTwice is set
	finAdvAt    int
	finAdvMode  int
	finAdvTwice bool
}

func (p plan) String() string {
	s := fmt.Sprintf("chunk=%d chainIDFail=%d latestFail=%v finFail=%d filterFailAt=%d watchFail=%d", p.chunk, p.chainIDFailN, p.latestFail, p.finFailN, p.filterFailAt, p.watchFailN)
	s += fmt.Sprintf(" kinds(chainID=%s latest=%s fin=%s filter=%s laterLatest=%s)", kindName[p.chainIDKind], kindName[p.latestKind],
		kindName[p.finKind], kindName[p.filterKind], kindsString(p.latestLater))
	if p.finAdvAt >= 0 {
		s += fmt.Sprintf(" finality-advance@filter#%d(mode=%d,twice=%v)", p.finAdvAt, p.finAdvMode, p.finAdvTwice)
	}
	if p.midAt >= 0 {
		if p.midReorg {
			s += fmt.Sprintf(" midscan@%d=reorg(depth<=%d,new=%v,order=%d)", p.midAt, p.midDepth, p.midSpec, p.midOrder)
		} else {
			s += fmt.Sprintf(" midscan@%d=mine(%v)", p.midAt, p.midSpec[:1])
		}
	}
	return s
}

const (
	srcCallback = iota
	srcFeed
	srcBackground
	srcStep
	nSrc
)

var srcName = [nSrc]string{"OnNewL1Head", "l1-head-feed", "background L1Head()", "L1Head()"}

type obsState struct {
	has bool
	l2  uint64
	ev  *event
}

type violation struct{ key, msg string }

type running struct {
	cancel context.CancelFunc
	done   chan error
}

type harness struct {
	rt *rapid.T
	c  *stats.Case
	db db.KeyValueStore
	bc *blockchain.Blockchain

	script []string // test goroutine only

	mu sync.Mutex
	// model L1 chain
	blocks []*l1block // canonical chain, index = L1 height
	mined  int        // blocks ever mined (including orphaned ones)
	fin    uint64
	l2base uint64
	all    []*event
	byHash map[felt.Felt]*event
	// delivery state
	gen                int
	seq                int
	pending            []item
	unsyncedRemovalMin uint64
	floor              *event // head in the database when the current instance started
	runInst            bool   // the current instance is a Run client (not the one-shot catch-up)
	missMode           bool
	// provider state
	pl          plan
	subUp       bool
	hold        bool
	watchFailN  int
	finFailN    int
	curSub      *subscription
	updCh       chan<- *l1.StateUpdate
	filterCalls int
	injected    int
	latestGiven uint64 // LatestHeight answer of this instance
	prevFrom    uint64 // lower bound of the previous FilterStateUpdate request
	// what the node answers to the finalised-height query (a property of the NODE: survives client restarts)
	finPattern    []int // cyclic per-call answer kinds (nil: every call is answered); without kOK it is an outage
	finPos        int
	outagePolls   int  // FinalisedHeight calls answered with a failure since the pattern was installed
	finFailKind   int  // kind of the transient failures counted by finFailN
	finCalls      int  // FinalisedHeight calls of this instance (any answer)
	latestCalls   int  // LatestHeight calls of this instance (any answer)
	scanDisturbed bool // the first LatestHeight / FinalisedHeight call of this instance (those of the scan) failed
	stallSent     int  // logs handed to the channel during outages since the channel was last known drained
	pendingResub  bool // the subscription was broken during an outage: the client has not noticed yet
	// counters
	finOK, watchOK, watchFail int
	reported                  bool
	reportedMax, lastReported uint64
	// observations
	obs   [nSrc]obsState
	viol  []violation
	flags map[string]bool
	note  chan struct{}

	cur      *running
	deferred []func() // waits for the client that can only complete once the outage is over (test goroutine only)
	obsStop  chan struct{}
	obsWG    sync.WaitGroup

	// geth mode (geth_test.go): the model node is reached through the real GethL1StateProvider
	viaGeth    bool
	node       *fakeNode // JSON-RPC front of the current client instance
	markerSent int       // test goroutine only
	markerSeen int       // highest stream marker that has come out of the adapter (mu)
	tapCur     *tapSub   // the current subscription as seen by the client (mu)
}

func (h *harness) logf(f string, a ...any) {
	s := fmt.Sprintf(f, a...)
	h.script = append(h.script, s)
	h.c.Fp("%s", s)
}

func (h *harness) fail(key, f string, a ...any) {
	h.rt.Helper()
	h.c.Violation(key, "%s\nscript:\n  %s\nmodel: %s", fmt.Sprintf(f, a...), strings.Join(h.script, "\n  "), h.dump())
}

func (h *harness) dump() string {
	h.mu.Lock()
	defer h.mu.Unlock()
	var sb strings.Builder
	fmt.Fprintf(&sb, "gen=%d finalised=%d reportedMax=%d floor=%s canonical:", h.gen, h.fin, h.reportedMax, h.floor)
	for i, b := range h.blocks {
		if len(b.evs) > 0 {
			fmt.Fprintf(&sb, " %d:[", i)
			for _, e := range b.evs {
				fmt.Fprintf(&sb, "e%d/L2=%d/gen%d/seq%d ", e.id, e.l2, e.gen, e.seq)
			}
			sb.WriteString("]")
		}
	}
	return sb.String()
}

func (h *harness) notify() {
	select {
	case h.note <- struct{}{}:
	default:
	}
}

func (h *harness) flagLocked(s string) { h.flags[s] = true }

// --- model operations (mu held)

func (h *harness) nextL2Locked() uint64 {
	for i := len(h.blocks) - 1; i >= 0; i-- {
		if n := len(h.blocks[i].evs); n > 0 {
			return h.blocks[i].evs[n-1].l2 + 1
		}
	}
	return h.l2base
}

func (h *harness) mineLocked(n int) []*event {
	height := uint64(len(h.blocks))
	b := &l1block{}
	h.blocks = append(h.blocks, b)
	h.mined++
	for i := 0; i < n; i++ {
		e := &event{id: len(h.all) + 1, l1: height, l2: h.nextL2Locked(), blockID: h.mined, idx: i}
		e.hash.SetUint64(uint64(e.id))
		e.root.SetUint64(uint64(e.id) + 1<<32)
		h.all = append(h.all, e)
		h.byHash[e.hash] = e
		b.evs = append(b.evs, e)
	}
	if n >= 2 {
		h.flagLocked("same-block-multi")
	}
	return b.evs
}

// mineGapLocked mines k Ethereum blocks without any LogStateUpdate (most Ethereum blocks carry none).
func (h *harness) mineGapLocked(k int) {
	for i := 0; i < k; i++ {
		h.blocks = append(h.blocks, &l1block{})
		h.mined++
	}
	if k >= 63 {
		h.flagLocked("gap>=63-blocks")
	}
}

// deepUnfinalisedLocked: an event the running instance was handed, still canonical, above every finalised height
// reported so far, lies at least `depth` blocks below the chain tip.
func (h *harness) deepUnfinalisedLocked(depth uint64) bool {
	tip := uint64(len(h.blocks) - 1)
	if tip < depth {
		return false
	}
	for _, e := range h.all {
		if e.gen == h.gen && e.ever && !e.orphaned && e.l1 <= tip-depth && (!h.reported || e.l1 > h.reportedMax) {
			return true
		}
	}
	return false
}

// stalledLocked: the node answers no finalised-height query at all (the real client then sits in its retry loop).
func (h *harness) stalledLocked() bool {
	if len(h.finPattern) == 0 {
		return false
	}
	for _, k := range h.finPattern {
		if k == kOK {
			return false
		}
	}
	return true
}

// reorgLocked orphans the last d blocks and mines len(spec) replacement blocks. The provider owes the client a
// Removed copy of every log of the orphaned blocks that the running instance was handed; those are queued
// first (ascending or descending), then the logs of the new blocks.
func (h *harness) reorgLocked(d int, spec []int, order int, queueNew bool) {
	first := len(h.blocks) - d
	if first <= int(h.fin) {
		stats.HarnessError("generator: reorg of finalised block (first=%d finalised=%d)", first, h.fin)
	}
	var notices []*event
	for _, b := range h.blocks[first:] {
		for _, e := range b.evs {
			e.orphaned = true
			if e.gen == h.gen && e.ever {
				notices = append(notices, e)
			}
		}
	}
	kept := h.pending[:0:0]
	for _, it := range h.pending {
		if !it.removed && it.ev.orphaned {
			continue // a log of an orphaned block that was never sent is simply not sent
		}
		kept = append(kept, it)
	}
	h.pending = kept
	h.blocks = h.blocks[:first]
	if order == 1 {
		for i, j := 0, len(notices)-1; i < j; i, j = i+1, j-1 {
			notices[i], notices[j] = notices[j], notices[i]
		}
	}
	heights := map[uint64]bool{}
	for _, e := range notices {
		heights[e.l1] = true
	}
	if len(heights) >= 2 {
		h.flagLocked("reorg-of-2+-buffered-blocks")
	}
	for _, e := range notices {
		h.pending = append(h.pending, item{e, true})
		if e.l1 < h.unsyncedRemovalMin {
			h.unsyncedRemovalMin = e.l1
		}
	}
	for _, n := range spec {
		evs := h.mineLocked(n)
		if queueNew {
			for _, e := range evs {
				h.pending = append(h.pending, item{e, false})
			}
		} else if len(evs) > 0 {
			h.flagLocked("missed-events")
		}
	}
}

// finCapLocked: finality may not overtake the height of a reorged log whose Removed copy the client has not
// provably processed yet (a real node emits the removal at reorg time, finality follows two epochs later).
func (h *harness) finCapLocked() uint64 {
	cap := uint64(len(h.blocks) - 1)
	if h.unsyncedRemovalMin != math.MaxUint64 && h.unsyncedRemovalMin-1 < cap {
		cap = h.unsyncedRemovalMin - 1
	}
	return cap
}

func (h *harness) bufferedHeightsLocked(lo, hi uint64) int {
	seen := map[uint64]bool{}
	for _, e := range h.all {
		if e.gen == h.gen && e.ever && !e.orphaned && e.l1 > lo && e.l1 <= hi {
			seen[e.l1] = true
		}
	}
	return len(seen)
}

// catchUpCleanLocked: the start-up scan of the current instance met no provider failure and no chain change.
func (h *harness) catchUpCleanLocked() bool {
	p := h.pl
	return !p.latestFail && p.finFailN == 0 && !h.scanDisturbed && (p.filterFailAt < 0 || h.filterCalls <= p.filterFailAt) &&
		(p.midAt < 0 || h.filterCalls <= p.midAt)
}

// canonicalFinalisedLocked is the last LogStateUpdate of the canonical chain at or below the finalised height.
func (h *harness) canonicalFinalisedLocked() *event {
	for n := int(h.fin); n >= 0; n-- {
		if k := len(h.blocks[n].evs); k > 0 {
			return h.blocks[n].evs[k-1]
		}
	}
	return nil
}

// checkCatchUp: an undisturbed start-up scan must leave the head at the last finalised canonical commit (that is
// what the scan is documented to be for), or where it was when the chain has none.
func (h *harness) checkCatchUp(where string) {
	got, set := h.readHead(h.bc, srcStep)
	h.mu.Lock()
	clean := h.catchUpCleanLocked()
	exp := h.canonicalFinalisedLocked()
	if exp == nil {
		exp = h.floor
	}
	h.mu.Unlock()
	h.raise()
	if clean {
		h.c.Label("catchup-clean")
		if (exp == nil) != !set || got != exp {
			h.fail("catchup-complete", "%s: undisturbed catch-up scan left the head at %s, the last finalised canonical commit is %s", where, got, exp)
		}
	}
}

func (h *harness) expectedLocked() *event {
	var best *event
	for _, e := range h.all {
		if e.gen != h.gen || !e.ever || e.orphaned || e.l1 > h.fin {
			continue
		}
		if best == nil || e.l1 > best.l1 || (e.l1 == best.l1 && e.seq > best.seq) {
			best = e
		}
	}
	if best == nil {
		return h.floor
	}
	if h.floor != nil && h.floor.l1 > best.l1 {
		stats.HarnessError("generator: persisted head %s above best delivered finalised event %s", h.floor, best)
	}
	return best
}

// ---------------------------------------------------------------------------------------------------------
// provider (called on the client's goroutine)

type provider struct {
	h   *harness
	gen int
}

type subscription struct {
	h     *harness
	errCh chan error
}

func (s *subscription) Err() <-chan error { return s.errCh }
func (s *subscription) Unsubscribe() {
	s.h.mu.Lock()
	defer s.h.mu.Unlock()
	if s.h.curSub == s {
		s.h.subUp = false
	}
}

var (
	errInjected = errors.New("c17: injected L1 node failure")
	errStale    = errors.New("c17: call from a stopped client instance")
)

// What the node (as seen through the provider) does with one call. The kinds are the ones the real adapter
// (GethL1StateProvider) can produce: a transport / JSON-RPC error, the eth.ErrNotFound sentinel (the node answered
// null: "no such block", e.g. no finalised block known yet after a restart of the L1 node) and an expired call context.
const (
	kOK = iota
	kGeneric
	kNotFound
	kDeadline
)

var kindName = [...]string{"ok", "error", "not-found", "deadline"}

func kindsString(ks []int) string {
	var sb strings.Builder
	sb.WriteString("[")
	for i, k := range ks {
		if i > 0 {
			sb.WriteString(" ")
		}
		sb.WriteString(kindName[k])
	}
	return sb.String() + "]"
}

func kindErr(kind int, what string) error {
	switch kind {
	case kNotFound:
		return fmt.Errorf("c17: %s not found: %w", what, eth.ErrNotFound)
	case kDeadline:
		return fmt.Errorf("c17: %s: %w", what, context.DeadlineExceeded)
	}
	return errInjected
}

func (p *provider) ChainID(context.Context) (*big.Int, error) {
	h := p.h
	h.mu.Lock()
	defer h.mu.Unlock()
	if p.gen != h.gen {
		return nil, errStale
	}
	if h.pl.chainIDFailN > 0 {
		h.pl.chainIDFailN--
		h.injected++
		return nil, kindErr(h.pl.chainIDKind, "chain id")
	}
	return new(big.Int).Set(networks.Sepolia.L1ChainID), nil
}

func (p *provider) FinalisedHeight(context.Context) (uint64, error) {
	h := p.h
	h.mu.Lock()
	defer h.mu.Unlock()
	defer h.notify()
	if p.gen != h.gen {
		return 0, errStale
	}
	idx := h.finCalls
	h.finCalls++
	kind := kOK
	switch {
	case h.finFailN > 0:
		h.finFailN--
		kind = h.finFailKind
	case len(h.finPattern) > 0:
		kind = h.finPattern[h.finPos%len(h.finPattern)]
		h.finPos++
		if kind != kOK {
			h.outagePolls++
			if h.outagePolls >= 20 {
				h.flagLocked("fin-pattern>=20-failed-polls")
			}
		}
	}
	if kind != kOK {
		h.injected++
		if idx == 0 {
			h.scanDisturbed = true
		}
		h.flagLocked("fin-" + kindName[kind])
		if h.deepUnfinalisedLocked(64) {
			h.flagLocked("fin-" + kindName[kind] + "-with-unfinalised-event-64+-below-tip")
		}
		return 0, kindErr(kind, "finalised block")
	}
	if h.deepUnfinalisedLocked(64) {
		h.flagLocked("unfinalised-event-64+-below-tip")
	}
	h.reported = true
	if h.fin > h.reportedMax {
		h.reportedMax = h.fin
	}
	h.lastReported = h.fin
	h.finOK++
	return h.fin, nil
}

func (p *provider) LatestHeight(context.Context) (uint64, error) {
	h := p.h
	h.mu.Lock()
	defer h.mu.Unlock()
	if p.gen != h.gen {
		return 0, errStale
	}
	idx := h.latestCalls
	h.latestCalls++
	kind := kOK
	if idx == 0 {
		if h.pl.latestFail {
			kind = h.pl.latestKind
		}
	} else if n := len(h.pl.latestLater); n > 0 {
		kind = h.pl.latestLater[(idx-1)%n]
	}
	if kind != kOK {
		h.injected++
		if idx == 0 {
			h.scanDisturbed = true
		}
		return 0, kindErr(kind, "latest block")
	}
	h.latestGiven = uint64(len(h.blocks) - 1)
	return h.latestGiven, nil
}

func (p *provider) FilterStateUpdate(_ context.Context, from, to uint64) ([]*l1.StateUpdate, error) {
	evs, err := p.filterEvents(from, to, true)
	if err != nil {
		return nil, err
	}
	var out []*l1.StateUpdate
	for _, e := range evs {
		out = append(out, e.update(false))
	}
	return out, nil
}

// filterEvents answers a log query for [from,to]; the events it returns count as delivered to the current
// instance (match=false: the query asked for another contract/topic, a node returns nothing then).
func (p *provider) filterEvents(from, to uint64, match bool) ([]*event, error) {
	h := p.h
	h.mu.Lock()
	defer h.mu.Unlock()
	if p.gen != h.gen {
		return nil, errStale
	}
	idx := h.filterCalls
	h.filterCalls++
	if idx == h.pl.midAt {
		// The chain moves on while the client is still scanning. No subscription exists yet, so the logs of
		// blocks mined now are never pushed to this client (a later FilterStateUpdate may still return them);
		// queueing them for the later subscription would deliver logs out of chain order, which no node does.
		// The Removed copies the property's assumption promises are queued and sent once the client subscribes.
		if h.pl.midReorg {
			d := h.pl.midDepth
			if max := len(h.blocks) - 1 - int(h.fin); d > max {
				d = max
			}
			if d > 0 {
				spec := h.pl.midSpec
				for len(spec) < d {
					if d > 4 { // deep: the replacement chain is mostly empty blocks, like the chain itself
						spec = append(spec, 0)
					} else {
						spec = append(spec, 1)
					}
				}
				if d > 4 {
					h.flagLocked("deep-reorg")
				}
				h.reorgLocked(d, spec, h.pl.midOrder, false)
				h.flagLocked("midscan-reorg")
			}
		} else {
			if evs := h.mineLocked(h.pl.midSpec[0]); len(evs) > 0 {
				h.flagLocked("missed-events")
			}
			h.flagLocked("midscan-mine")
		}
	}
	if h.pl.finAdvAt >= 0 && (idx == h.pl.finAdvAt || (h.pl.finAdvTwice && idx == h.pl.finAdvAt+1)) {
		// finality moves on while the client is still scanning: whatever the scan read at its start is stale now. The scan is
		// then no longer expected to end exactly on the last finalised commit (that oracle is for undisturbed scans); the
		// invariants (never above what was reported as finalised, never regressing, a delivered unremoved event) stay.
		fin, cap := h.fin, h.finCapLocked()
		target := fin
		switch h.pl.finAdvMode {
		case 0: // the next block carrying events
			for n := fin + 1; n <= cap; n++ {
				if len(h.blocks[n].evs) > 0 {
					target = n
					break
				}
			}
		case 1: // the last block carrying events
			for n := cap; n > fin; n-- {
				if len(h.blocks[n].evs) > 0 {
					target = n
					break
				}
			}
		default:
			target = cap
		}
		if target > fin {
			if h.bufferedHeightsLocked(fin, target) >= 2 {
				h.flagLocked("nt:finality-past-2-buffered")
			}
			h.fin = target
			h.scanDisturbed = true
			h.flagLocked("midscan-finality-advance")
			if idx > 0 {
				h.flagLocked("midscan-finality-advance-between-chunks")
			}
		}
	}
	if idx == h.pl.filterFailAt {
		h.injected++
		if idx > 0 {
			h.flagLocked("catchup-partial")
		}
		h.flagLocked("catchup-filter-fail")
		return nil, kindErr(h.pl.filterKind, "logs")
	}
	// the scan is documented to walk back from LatestHeight in contiguous chunks of at most the configured size
	wantTo := h.latestGiven
	if idx > 0 {
		wantTo = h.prevFrom - 1
	}
	if from > to || to != wantTo || to-from+1 > h.pl.chunk || (idx > 0 && h.prevFrom == 0) {
		h.viol = append(h.viol, violation{"filter-range", fmt.Sprintf("FilterStateUpdate call #%d asks for [%d,%d]; expected a range of at most %d blocks ending at %d", idx, from, to, h.pl.chunk, wantTo)})
		return nil, nil
	}
	h.prevFrom = from
	var out []*event
	for n := from; match && n <= to && n < uint64(len(h.blocks)); n++ {
		for _, e := range h.blocks[n].evs {
			h.seq++
			e.seq, e.gen, e.ever = h.seq, h.gen, true
			out = append(out, e)
		}
	}
	if idx > 0 {
		h.flagLocked("catchup-multi-chunk")
	}
	return out, nil
}

func (p *provider) WatchStateUpdate(_ context.Context, ch chan<- *l1.StateUpdate) (l1.Subscription, error) {
	s, err := p.watch(ch, nil)
	if err != nil {
		return nil, err
	}
	return s, nil
}

// watch is the model's answer to a subscription request; onUp runs (mu held) when the subscription is granted.
func (p *provider) watch(ch chan<- *l1.StateUpdate, onUp func(*subscription)) (*subscription, error) {
	h := p.h
	h.mu.Lock()
	defer h.mu.Unlock()
	defer h.notify()
	if p.gen != h.gen {
		return nil, errStale
	}
	if ch != nil { // geth mode: the client's channel is recorded by the tap (geth_test.go)
		h.updCh = ch
	}
	if h.hold || h.watchFailN > 0 {
		if !h.hold {
			h.watchFailN--
		}
		h.watchFail++
		h.injected++
		return nil, errInjected
	}
	s := &subscription{h: h, errCh: make(chan error, 1)}
	h.curSub = s
	h.subUp = true
	h.watchOK++
	if onUp != nil {
		onUp(s)
	}
	return s, nil
}

func (p *provider) Close() {}

// ---------------------------------------------------------------------------------------------------------
// observation

// observeLocked checks the invariants that must hold for every head value ever visible.
func (h *harness) observeLocked(src int, num uint64, hash, root *felt.Felt) *event {
	bad := func(key, f string, a ...any) {
		h.viol = append(h.viol, violation{key, srcName[src] + ": " + fmt.Sprintf(f, a...)})
	}
	if hash == nil || root == nil {
		bad("head-unknown-event", "head %d with nil hash/root", num)
		return nil
	}
	e := h.byHash[*hash]
	if e == nil {
		bad("head-unknown-event", "head (L2=%d hash=%s) is no event of the L1 node", num, hash.String())
		return nil
	}
	if e.l2 != num || !e.root.Equal(root) {
		bad("head-fields-mismatch", "head (L2=%d root=%s) carries hash of %s (root %s)", num, root.String(), e, e.root.String())
	}
	if !e.ever {
		bad("head-not-delivered", "head %s was never delivered to the client", e)
	}
	if e.orphaned {
		bad("head-removed", "head %s is a log of a reorged-out L1 block (removal notified: %v)", e, e.notified)
	}
	if !h.reported || e.l1 > h.reportedMax {
		bad("head-above-finalised", "head %s lies above the largest finalised height reported so far (%d, any reported: %v)", e, h.reportedMax, h.reported)
	}
	o := &h.obs[src]
	if o.has && num < o.l2 {
		bad("head-regressed", "head moved from %s back to %s", o.ev, e)
	}
	o.has, o.l2, o.ev = true, num, e
	return e
}

func (h *harness) onNewL1Head(head *core.L1Head) {
	h.mu.Lock()
	defer h.mu.Unlock()
	h.observeLocked(srcCallback, head.BlockNumber, head.BlockHash, head.StateRoot)
}

// readHead samples Blockchain.L1Head() and checks the per-value invariants.
func (h *harness) readHead(bc *blockchain.Blockchain, src int) (*event, bool) {
	head, err := bc.L1Head()
	h.mu.Lock()
	defer h.mu.Unlock()
	if err != nil {
		if !errors.Is(err, db.ErrKeyNotFound) {
			h.viol = append(h.viol, violation{"l1head-read-error", fmt.Sprintf("%s: %v", srcName[src], err)})
		} else if h.obs[src].has {
			h.viol = append(h.viol, violation{"head-unset", fmt.Sprintf("%s: head was %s and is now absent", srcName[src], h.obs[src].ev)})
		}
		return nil, false
	}
	return h.observeLocked(src, head.BlockNumber, head.BlockHash, head.StateRoot), true
}

func (h *harness) raise() {
	h.mu.Lock()
	var v *violation
	if len(h.viol) > 0 {
		v = &h.viol[0]
	}
	h.mu.Unlock()
	if v != nil {
		h.fail(v.key, "%s", v.msg)
	}
}

func (h *harness) startObservers() {
	h.obsStop = make(chan struct{})
	stop, bc := h.obsStop, h.bc
	sub := bc.SubscribeL1Head()
	h.obsWG.Add(2)
	go func() {
		defer h.obsWG.Done()
		defer sub.Unsubscribe()
		for {
			select {
			case <-stop:
				return
			case hd, ok := <-sub.Recv():
				if !ok {
					return
				}
				h.mu.Lock()
				h.observeLocked(srcFeed, hd.BlockNumber, hd.BlockHash, hd.StateRoot)
				h.mu.Unlock()
			}
		}
	}()
	go func() {
		defer h.obsWG.Done()
		for {
			select {
			case <-stop:
				return
			default:
			}
			h.readHead(bc, srcBackground)
			time.Sleep(150 * time.Microsecond) // sampling pace only
		}
	}()
}

func (h *harness) stopObservers() {
	if h.obsStop != nil {
		close(h.obsStop)
		h.obsWG.Wait()
		h.obsStop = nil
	}
}

// ---------------------------------------------------------------------------------------------------------
// synchronisation with the client

func (h *harness) giveUp(what string) {
	n := inconclusive.Add(1)
	fmt.Fprintf(os.Stderr, "c17: inconclusive case (%s not reached within %s)\n", what, waitGuard)
	if n > 3 {
		stats.HarnessError("c17: %d cases inconclusive (client did not reach %q within %s)", n, what, waitGuard)
	}
	h.rt.Skip("inconclusive: " + what)
}

func (h *harness) waitFor(what string, cond func() bool) {
	deadline := time.Now().Add(waitGuard)
	for {
		h.mu.Lock()
		ok := cond()
		h.mu.Unlock()
		if ok {
			return
		}
		if h.cur != nil {
			select {
			case err := <-h.cur.done:
				h.cur = nil
				h.fail("client-exited", "Client.Run returned (%v) while the harness waited for %q", err, what)
			default:
			}
		}
		if time.Now().After(deadline) {
			h.giveUp(what)
		}
		select {
		case <-h.note:
		case <-time.After(100 * time.Microsecond):
		}
	}
}

// syncCheck waits for quiescence by counts and compares the stored head with the model.
func (h *harness) syncCheck(where string) {
	h.mu.Lock()
	hold, ch := h.hold, h.updCh
	h.mu.Unlock()
	if hold || h.cur == nil {
		return
	}
	h.mu.Lock()
	stalled := h.stalledLocked()
	h.mu.Unlock()
	if stalled {
		h.stallSync(where)
		return
	}
	h.quiesceStream()
	h.waitFor("subscription channel drained", func() bool { return len(ch) == 0 })
	h.mu.Lock()
	c0 := h.finOK
	h.mu.Unlock()
	h.waitFor("two further FinalisedHeight answers", func() bool { return h.finOK >= c0+2 })
	got, set := h.readHead(h.bc, srcStep)
	h.mu.Lock()
	exp := h.expectedLocked()
	last, fin := h.lastReported, h.fin
	h.stallSent = 0
	h.unsyncedRemovalMin = math.MaxUint64
	for _, it := range h.pending {
		if it.removed && it.ev.l1 < h.unsyncedRemovalMin {
			h.unsyncedRemovalMin = it.ev.l1
		}
	}
	h.mu.Unlock()
	h.raise()
	if last != fin {
		stats.HarnessError("c17: at quiescence the last reported finalised height is %d, model says %d", last, fin)
	}
	h.compare(where, got, set, exp)
}

// stallSync: the node answers no finalised-height query. Nothing is reported as finalised meanwhile, so there is no
// quiescent value to compare with; the harness lets the client poll k more times (a count) and checks what every
// observer checks all the time: whatever head is visible is a delivered, unremoved event at or below the largest
// finalised height REPORTED so far.
func (h *harness) stallSync(where string) {
	k := rapid.SampledFrom([]int{2, 2, 3, 8, 24}).Draw(h.rt, "outagePolls")
	h.logf("(outage: %d further finalised-height polls)", k)
	h.mu.Lock()
	c0 := h.finCalls
	h.mu.Unlock()
	h.waitFor("further FinalisedHeight calls during the outage ("+where+")", func() bool { return h.finCalls >= c0+k })
	h.readHead(h.bc, srcStep)
	h.raise()
}

func (h *harness) runDeferred() {
	d := h.deferred
	h.deferred = nil
	for _, f := range d {
		f()
	}
}

// endOutage: the node answers the finalised-height query again; waits postponed during the outage are made up.
func (h *harness) endOutage() {
	h.mu.Lock()
	h.finPattern, h.finPos, h.outagePolls = nil, 0, 0
	h.pendingResub = false
	h.mu.Unlock()
	h.runDeferred()
}

func (h *harness) compare(where string, got *event, set bool, exp *event) {
	switch {
	case exp == nil && set:
		h.fail("quiescent-head", "%s: head is %s but no delivered, unremoved event lies at or below the finalised height and none was stored before", where, got)
	case exp != nil && !set:
		h.fail("quiescent-head", "%s: head is unset, expected %s", where, exp)
	case exp != nil && got != exp:
		h.fail("quiescent-head", "%s: head is %s, expected %s (highest L1 block among delivered, unremoved events at or below the finalised height; last delivered inside the block)", where, got, exp)
	}
}

// deliver hands the next k queued logs to the subscription channel.
func (h *harness) deliver(k int) {
	for i := 0; i < k; i++ {
		h.mu.Lock()
		if !h.subUp || len(h.pending) == 0 {
			h.mu.Unlock()
			return
		}
		if h.stalledLocked() {
			// the real client does not read its channel (128 slots) while it retries the finalised-height query
			if h.stallSent >= 96 {
				h.mu.Unlock()
				return
			}
			h.stallSent++
			h.flagLocked("delivery-during-outage")
		}
		it := h.pending[0]
		h.pending = h.pending[1:]
		ch, node := h.updCh, h.node
		if node != nil && !node.subMatch {
			// the subscription filter does not select the contract's LogStateUpdate logs: nothing is sent
			if !it.removed {
				h.flagLocked("missed-events")
			}
			h.mu.Unlock()
			continue
		}
		if it.removed {
			it.ev.notified = true
			h.flagLocked("nt:removal-of-buffered")
		} else {
			h.seq++
			it.ev.seq, it.ev.gen, it.ev.ever = h.seq, h.gen, true
			if it.ev.l1 <= h.fin {
				h.flagLocked("late-delivery")
			}
		}
		if node != nil && it.removed {
			h.flagLocked("geth-removed-log")
		}
		h.mu.Unlock()
		if node != nil {
			node.notify(logOf(it.ev, it.removed))
			continue
		}
		select {
		case ch <- it.ev.update(it.removed):
		default:
			stats.HarnessError("c17: subscription channel full")
		}
	}
}

func (h *harness) stopClient() {
	if h.cur == nil {
		return
	}
	h.cur.cancel()
	select {
	case err := <-h.cur.done:
		h.cur = nil
		if err != nil {
			h.fail("client-run-error", "Client.Run returned %v", err)
		}
	case <-time.After(waitGuard):
		h.cur = nil
		h.giveUp("Client.Run to return after cancellation")
	}
}

// ---------------------------------------------------------------------------------------------------------
// script steps

var (
	genEvents = rapid.SampledFrom([]int{0, 0, 0, 1, 1, 1, 1, 2, 2, 3})
	// replacement blocks of a reorg: more often empty, so that what the client kept of the old fork is not simply overwritten
	genReorgEvents = rapid.SampledFrom([]int{0, 0, 0, 0, 1, 1, 2, 3})
	genChunk       = rapid.SampledFrom([]uint64{1, 1, 2, 2, 3, 5, 8, 50})
	// chunk sizes for a tall chain (1000 is the client's default); the scan stays within a few dozen queries
	genBigChunk = rapid.SampledFrom([]uint64{64, 100, 256, 1000, 1000, 5000})
	// runs of Ethereum blocks without a state update: around one and two epochs (32 / 64 blocks) and far beyond
	genGap = rapid.SampledFrom([]int{5, 31, 32, 33, 62, 63, 64, 65, 66, 96, 127, 128, 129, 200, 500, 1000})
	// distance of the finalised block below the tip
	genFinLag   = rapid.SampledFrom([]uint64{0, 1, 32, 63, 64, 65, 96, 128, 300})
	genFailKind = rapid.SampledFrom([]int{kGeneric, kGeneric, kNotFound, kNotFound, kNotFound, kDeadline})
	genAnyKind  = rapid.SampledFrom([]int{kOK, kOK, kOK, kGeneric, kNotFound, kNotFound, kDeadline})
)

const maxScanQueries = 40

func (h *harness) drawPlan(label string) plan {
	rt := h.rt
	p := plan{filterFailAt: -1, midAt: -1, finAdvAt: -1}
	p.chunk = genChunk.Draw(rt, label+"chunk")
	h.mu.Lock()
	tip := uint64(len(h.blocks) - 1)
	h.mu.Unlock()
	if tip/p.chunk > maxScanQueries {
		p.chunk = genBigChunk.Draw(rt, label+"bigChunk")
		if tip/p.chunk > maxScanQueries {
			p.chunk = tip/maxScanQueries + 1
		}
	}
	if rapid.IntRange(0, 9).Draw(rt, label+"chainIDFail") == 0 {
		p.chainIDFailN = 1
		p.chainIDKind = genFailKind.Draw(rt, label+"chainIDKind")
	}
	p.latestFail = rapid.IntRange(0, 11).Draw(rt, label+"latestFail") == 0
	if p.latestFail {
		p.latestKind = genFailKind.Draw(rt, label+"latestKind")
	}
	// the unchanged client asks for the latest height once per instance; whoever asks again is answered by this
	p.latestLater = rapid.SliceOfN(genAnyKind, 1, 4).Draw(rt, label+"latestLater")
	if rapid.IntRange(0, 9).Draw(rt, label+"finFail") == 0 {
		p.finFailN = rapid.IntRange(1, 2).Draw(rt, label+"finFailN")
		p.finKind = genFailKind.Draw(rt, label+"finKind")
	}
	if rapid.IntRange(0, 3).Draw(rt, label+"filterFail") == 0 {
		p.filterFailAt = rapid.IntRange(0, 3).Draw(rt, label+"filterFailAt")
		p.filterKind = genFailKind.Draw(rt, label+"filterKind")
	}
	p.watchFailN = rapid.SampledFrom([]int{0, 0, 0, 1, 2}).Draw(rt, label+"watchFail")
	if rapid.IntRange(0, 5).Draw(rt, label+"mid") == 0 {
		p.midAt = rapid.IntRange(0, 2).Draw(rt, label+"midAt")
		p.midReorg = rapid.Bool().Draw(rt, label+"midReorg")
		p.midDepth = rapid.SampledFrom([]int{1, 2, 3, 4, 1, 2, 3, 4, 70, 1000}).Draw(rt, label+"midDepth")
		p.midSpec = rapid.SliceOfN(genReorgEvents, 1, 4).Draw(rt, label+"midSpec")
		p.midOrder = rapid.IntRange(0, 1).Draw(rt, label+"midOrder")
	}
	if rapid.IntRange(0, 3).Draw(rt, label+"finAdv") == 0 {
		p.finAdvAt = rapid.IntRange(0, 3).Draw(rt, label+"finAdvAt")
		p.finAdvMode = rapid.IntRange(0, 2).Draw(rt, label+"finAdvMode")
		p.finAdvTwice = rapid.Bool().Draw(rt, label+"finAdvTwice")
	}
	return p
}

// newInstance stops whatever runs, re-reads the stored head (the floor of the new instance) and installs plan p.
func (h *harness) newInstance(p plan, newBC, run bool) *l1.Client {
	h.stopClient()
	h.stopObservers()
	h.closeNode()
	h.raise()
	if newBC {
		h.bc = blockchain.New(h.db, &networks.Sepolia)
	}
	floor, _ := h.readHead(h.bc, srcStep)
	h.raise()
	h.mu.Lock()
	if h.runInst {
		for _, e := range h.all {
			if e.gen == h.gen && e.ever && !e.orphaned && e.l1 > h.fin {
				h.flagLocked("nt:restart-nonempty-buffer")
				break
			}
		}
	}
	h.gen++
	h.runInst = run
	h.floor = floor
	h.pending = nil
	h.unsyncedRemovalMin = math.MaxUint64
	h.pl = p
	h.subUp, h.hold, h.curSub, h.updCh = false, false, nil, nil
	h.watchFailN, h.finFailN, h.finFailKind = p.watchFailN, p.finFailN, p.finKind
	h.finCalls, h.latestCalls, h.scanDisturbed, h.stallSent, h.pendingResub = 0, 0, false, 0, false
	if h.stalledLocked() {
		h.flagLocked("client-start-during-outage")
	}
	h.filterCalls, h.injected, h.latestGiven, h.prevFrom = 0, 0, 0, 0
	h.finOK, h.watchOK, h.watchFail = 0, 0, 0
	gen := h.gen
	h.markerSeen, h.tapCur = 0, nil
	h.mu.Unlock()
	h.markerSent = 0
	h.deferred = nil // (they concerned the instance that has just been stopped)
	h.startObservers()
	var prov l1.L1StateProvider = &provider{h: h, gen: gen}
	if h.viaGeth {
		prov = h.startNode(&provider{h: h, gen: gen})
	}
	return l1.NewClient(prov, h.bc, log.NewNopZapLogger(),
		l1.WithEventListener(l1.SelectiveListener{OnNewL1HeadCb: h.onNewL1Head}),
		l1.WithResubscribeDelay(time.Millisecond),
		l1.WithPollFinalisedInterval(time.Millisecond),
		l1.WithCatchUpChunkSize(p.chunk))
}

func (h *harness) restart(first bool) {
	rt := h.rt
	newBC := !first && rapid.Bool().Draw(rt, "newBlockchain")
	if !first && rapid.IntRange(0, 3).Draw(rt, "catchUpOnly") == 0 {
		// the one-shot start-up path (used by the migration): CatchUpL1Head on a fresh client, synchronous
		p := h.drawPlan("cu-")
		p.watchFailN = 0
		h.logf("catch-up-only client (newBlockchain=%v) %s", newBC, p)
		cl := h.newInstance(p, newBC, false)
		err := cl.CatchUpL1Head(context.Background())
		got, set := h.readHead(h.bc, srcStep)
		h.raise()
		h.mu.Lock()
		injected := h.injected
		exp := h.expectedLocked()
		if err != nil {
			exp = h.floor
		}
		h.mu.Unlock()
		if err != nil && injected == 0 {
			h.fail("catchup-error", "CatchUpL1Head failed without any provider failure: %v", err)
		}
		h.compare("after CatchUpL1Head (err="+fmt.Sprint(err)+")", got, set, exp)
		if err == nil {
			h.checkCatchUp("after CatchUpL1Head")
		}
		h.c.Label("catch-up-only")
		newBC = false
	}
	p := h.drawPlan("")
	h.logf("start client (newBlockchain=%v) %s", newBC, p)
	cl := h.newInstance(p, newBC, true)
	ctx, cancel := context.WithCancel(context.Background())
	r := &running{cancel: cancel, done: make(chan error, 1)}
	go func() { r.done <- cl.Run(ctx) }()
	h.cur = r
	h.waitFor("first successful WatchStateUpdate", func() bool { return h.watchOK >= 1 })
	h.raise()
	h.checkCatchUp("when Run subscribes after the catch-up scan")
	if !first {
		h.c.Label("restart")
	}
}

func (h *harness) step() {
	rt := h.rt
	h.mu.Lock()
	top := uint64(len(h.blocks) - 1)
	fin := h.fin
	finCap := h.finCapLocked()
	hold := h.hold
	npend := len(h.pending)
	stalled, patterned, pendingResub := h.stalledLocked(), len(h.finPattern) > 0, h.pendingResub
	h.mu.Unlock()

	kinds := []string{"mine", "mine", "mine", "mine", "mine", "mine", "sync", "restart", "gap"}
	if !hold {
		kinds = append(kinds, "finfail")
		if !pendingResub {
			kinds = append(kinds, "suberr")
			if npend > 0 {
				kinds = append(kinds, "deliver", "deliver", "deliver")
			}
		}
	} else if !pendingResub {
		kinds = append(kinds, "subup", "subup", "subup")
	}
	if patterned {
		kinds = append(kinds, "recover", "recover", "recover")
	} else {
		kinds = append(kinds, "outage")
	}
	if finCap > fin {
		kinds = append(kinds, "finalise", "finalise", "finalise", "finalise")
	}
	if top > fin {
		kinds = append(kinds, "reorg", "reorg", "reorg")
	}
	kind := rapid.SampledFrom(kinds).Draw(rt, "step")
	switch kind {
	case "mine":
		n := genEvents.Draw(rt, "events")
		auto := rapid.Bool().Draw(rt, "deliverNow")
		h.mu.Lock()
		evs := h.mineLocked(n)
		height := len(h.blocks) - 1
		if !h.hold || !h.missMode {
			for _, e := range evs {
				h.pending = append(h.pending, item{e, false})
			}
		} else if len(evs) > 0 {
			h.flagLocked("missed-events")
		}
		h.mu.Unlock()
		h.logf("mine L1 block %d with %d events (deliverNow=%v)", height, n, auto)
		if auto {
			h.deliver(math.MaxInt32)
		}
	case "gap":
		k := genGap.Draw(rt, "gap")
		h.mu.Lock()
		h.mineGapLocked(k)
		height := len(h.blocks) - 1
		h.mu.Unlock()
		h.logf("mine %d L1 blocks without events (tip %d)", k, height)
	case "outage":
		// the node stops answering the finalised-height query (per call: transport error / "no such block" / expired
		// context), for every poll until the script says otherwise, or flakily (a drawn cyclic pattern with answers)
		var pat []int
		switch typ := rapid.SampledFrom([]string{"not-found", "not-found", "not-found", "error", "deadline", "mixed", "flaky", "flaky"}).Draw(rt, "outageType"); typ {
		case "not-found":
			pat = []int{kNotFound}
		case "error":
			pat = []int{kGeneric}
		case "deadline":
			pat = []int{kDeadline}
		case "mixed":
			pat = rapid.SliceOfN(genFailKind, 2, 5).Draw(rt, "pattern")
		default:
			pat = rapid.SliceOfN(genAnyKind, 2, 6).Draw(rt, "pattern")
			pat[rapid.IntRange(0, len(pat)-1).Draw(rt, "answered")] = kOK
		}
		h.mu.Lock()
		h.finPattern, h.finPos, h.outagePolls = pat, 0, 0
		if h.stalledLocked() {
			h.flagLocked("outage")
			if h.deepUnfinalisedLocked(64) {
				h.flagLocked("outage-begins-with-unfinalised-event-64+-below-tip")
			}
		} else {
			h.flagLocked("flaky-finalised-query")
		}
		h.mu.Unlock()
		h.logf("finalised-height queries are from now on answered %s, cyclically", kindsString(pat))
	case "recover":
		h.logf("finalised-height queries are answered again")
		h.endOutage()
	case "deliver":
		k := rapid.IntRange(1, npend).Draw(rt, "k")
		h.logf("deliver next %d queued logs", k)
		h.deliver(k)
	case "finalise":
		mode := rapid.SampledFrom([]string{"+1", "+1", "event", "event", "max", "lag", "lag", "any"}).Draw(rt, "finMode")
		h.mu.Lock()
		var hs []uint64
		for n := fin + 1; n <= finCap; n++ {
			if len(h.blocks[n].evs) > 0 {
				hs = append(hs, n)
			}
		}
		h.mu.Unlock()
		target := fin + 1
		switch {
		case mode == "max":
			target = finCap
		case mode == "event" && len(hs) > 0:
			target = rapid.SampledFrom(hs).Draw(rt, "finTarget")
		case mode == "lag": // a fixed distance below the tip (when that is ahead of the current finalised height)
			if lag := genFinLag.Draw(rt, "finLag"); top >= lag && top-lag > fin {
				target = top - lag
				if target > finCap {
					target = finCap
				}
			}
		case mode == "any":
			target = rapid.Uint64Range(fin+1, finCap).Draw(rt, "finTarget")
		}
		h.mu.Lock()
		if h.bufferedHeightsLocked(fin, target) >= 2 {
			h.flagLocked("nt:finality-past-2-buffered")
		}
		h.fin = target
		h.mu.Unlock()
		h.logf("finalised height %d -> %d", fin, target)
	case "reorg":
		maxd := int(top - fin)
		var d int
		var spec []int
		if maxd > 4 && rapid.IntRange(0, 2).Draw(rt, "deepReorg") == 0 {
			// anything above the finalised block may be reorged: down to a block carrying events, or to any block
			h.mu.Lock()
			var hs []int
			for n := int(fin) + 1; n <= int(top); n++ {
				if len(h.blocks[n].evs) > 0 {
					hs = append(hs, n)
				}
			}
			h.mu.Unlock()
			first := 0
			if len(hs) > 0 && rapid.IntRange(0, 3).Draw(rt, "toEvent") != 0 {
				first = rapid.SampledFrom(hs).Draw(rt, "firstOrphaned")
			} else {
				first = rapid.IntRange(int(fin)+1, int(top)).Draw(rt, "firstOrphaned")
			}
			d = int(top) - first + 1
			// the replacement chain: as long (or one block longer), a few of its blocks carry events
			spec = make([]int, d+rapid.IntRange(0, 1).Draw(rt, "longer"))
			for i, k := 0, rapid.IntRange(0, 3).Draw(rt, "eventBlocks"); i < k; i++ {
				spec[rapid.IntRange(0, len(spec)-1).Draw(rt, "at")] = genEvents.Draw(rt, "events")
			}
			h.mu.Lock()
			if d > 4 {
				h.flagLocked("deep-reorg")
			}
			if d >= 64 {
				for _, e := range h.all {
					if e.gen == h.gen && e.ever && !e.orphaned && int(e.l1) >= first && e.l1+64 <= top {
						h.flagLocked("reorg-of-delivered-event-64+-below-tip")
						break
					}
				}
			}
			h.mu.Unlock()
		} else {
			if maxd > 4 {
				maxd = 4
			}
			d = maxd - rapid.SampledFrom([]int{0, 0, 0, 1, 1, 2, 3}).Draw(rt, "depthBelowMax")
			if d < 1 {
				d = 1
			}
			spec = rapid.SliceOfN(genReorgEvents, d, d+1).Draw(rt, "newBlocks")
		}
		order := rapid.IntRange(0, 1).Draw(rt, "removalOrder")
		auto := rapid.Bool().Draw(rt, "deliverNow")
		h.mu.Lock()
		h.reorgLocked(d, spec, order, !h.hold || !h.missMode)
		h.mu.Unlock()
		h.logf("reorg depth %d (blocks %d..%d orphaned), new blocks carry %s events, removal order %s (deliverNow=%v)",
			d, int(top)-d+1, top, specString(spec), []string{"ascending", "descending"}[order], auto)
		h.c.Label("reorg")
		if auto {
			h.deliver(math.MaxInt32)
		}
	case "suberr":
		hold := rapid.Bool().Draw(rt, "hold")
		failN := rapid.IntRange(0, 2).Draw(rt, "resubFail")
		miss := rapid.Bool().Draw(rt, "missWhileDown")
		// geth mode: everything the node has sent must have left the adapter before the connection is cut,
		// otherwise "delivered" would be ambiguous for the notifications still in flight
		h.quiesceStream()
		h.mu.Lock()
		s := h.curSub
		h.subUp, h.hold, h.watchFailN, h.missMode = false, hold, failN, miss
		w0, f0 := h.watchOK, h.watchFail
		if h.bufferedHeightsLocked(h.fin, math.MaxUint64) > 0 {
			h.flagLocked("nt:resubscribe-nonempty-buffer")
		}
		h.mu.Unlock()
		h.logf("subscription fails (node stays unreachable=%v, logs mined meanwhile are missed=%v, next %d resubscriptions fail)", hold, miss, failN)
		h.c.Label("sub-error")
		if h.node != nil {
			h.node.dropConnections() // a node cannot end a subscription in any other way
		} else {
			select {
			case s.errCh <- errInjected:
			default:
				stats.HarnessError("c17: subscription error channel full")
			}
		}
		wait := func() {
			if hold {
				h.waitFor("a failed resubscription", func() bool { return h.watchFail > f0 })
			} else {
				h.waitFor("resubscription", func() bool { return h.watchOK > w0 })
			}
		}
		if stalled {
			// the real client is busy retrying the finalised-height query: it learns of the broken subscription
			// (and resubscribes) once that query is answered again
			h.mu.Lock()
			h.pendingResub = true
			h.flagLocked("sub-error-during-outage")
			h.mu.Unlock()
			h.deferred = append(h.deferred, wait)
		} else {
			wait()
		}
	case "subup":
		failN := rapid.IntRange(0, 1).Draw(rt, "resubFail")
		h.mu.Lock()
		h.hold, h.watchFailN = false, failN
		w0 := h.watchOK
		h.mu.Unlock()
		h.logf("node reachable again (next %d resubscriptions fail)", failN)
		h.waitFor("resubscription", func() bool { return h.watchOK > w0 })
	case "finfail":
		n := rapid.IntRange(1, 3).Draw(rt, "n")
		fk := genFailKind.Draw(rt, "kind")
		h.mu.Lock()
		h.finFailN, h.finFailKind = n, fk
		h.mu.Unlock()
		h.logf("next %d FinalisedHeight calls fail (%s)", n, kindName[fk])
		h.c.Label("fin-fail")
	case "restart":
		if rapid.Bool().Draw(rt, "syncBeforeRestart") {
			h.syncCheck("before restart")
		}
		h.restart(false)
	case "sync":
		h.logf("sync")
		h.syncCheck("sync step")
	}
	h.readHead(h.bc, srcStep)
	h.raise()
	if kind != "sync" && rapid.Bool().Draw(rt, "syncAfter") {
		h.logf("sync")
		h.syncCheck("after " + kind)
	}
}

// specString renders the events-per-block list of a replacement chain (sparsely when it is long).
func specString(spec []int) string {
	if len(spec) <= 8 {
		return fmt.Sprint(spec)
	}
	var sb strings.Builder
	fmt.Fprintf(&sb, "[%d blocks;", len(spec))
	for i, n := range spec {
		if n > 0 {
			fmt.Fprintf(&sb, " +%d:%d", i, n)
		}
	}
	return sb.String() + "]"
}

func runScript(rt *rapid.T, c *stats.Case) { runScriptMode(rt, c, false) }

func runScriptMode(rt *rapid.T, c *stats.Case, viaGeth bool) {
	h := &harness{rt: rt, c: c, db: memory.New(), byHash: map[felt.Felt]*event{}, flags: map[string]bool{},
		note: make(chan struct{}, 1), unsyncedRemovalMin: math.MaxUint64, viaGeth: viaGeth}
	h.bc = blockchain.New(h.db, &networks.Sepolia)
	goroutines, completed := runtime.NumGoroutine(), false
	defer func() {
		if h.cur != nil {
			h.cur.cancel()
			select {
			case <-h.cur.done:
			case <-time.After(waitGuard):
			}
		}
		h.stopObservers()
		h.closeNode()
		if completed { // (a failing case unwinds through here too: its verdict must not be replaced)
			awaitGoroutines(goroutines)
		}
	}()

	// initial L1 chain: nothing of it has been delivered to anybody
	h.l2base = rapid.SampledFrom([]uint64{0, 1, 100}).Draw(rt, "l2base")
	nb := rapid.IntRange(1, 8).Draw(rt, "initialBlocks")
	// height geometry: the blocks carrying the first state updates may sit far above genesis, and the chain tip
	// may be far above them (on Ethereum the finalised block is normally >= 64 blocks below the tip)
	prefix := rapid.SampledFrom([]int{0, 0, 0, 0, 0, 0, 2, 64, 300, 1500}).Draw(rt, "emptyPrefix")
	h.mineGapLocked(prefix)
	var spec []int
	for i := 0; i < nb; i++ {
		n := genEvents.Draw(rt, "events")
		if prefix == 0 && i == 0 && n > 0 {
			if rapid.IntRange(0, 3).Draw(rt, "block0") != 0 {
				n = 0
			} else {
				c.Label("l1-block0-event")
			}
		}
		spec = append(spec, n)
		h.mineLocked(n)
	}
	suffix := 0
	if rapid.IntRange(0, 2).Draw(rt, "tallTip") == 0 {
		suffix = genGap.Draw(rt, "emptySuffix")
		h.mineGapLocked(suffix)
	}
	tip := prefix + nb + suffix - 1
	switch rapid.SampledFrom([]string{"events", "events", "any", "lag"}).Draw(rt, "initialFinalisedMode") {
	case "events":
		h.fin = uint64(prefix + rapid.IntRange(0, nb-1).Draw(rt, "initialFinalised"))
	case "any":
		h.fin = uint64(rapid.IntRange(0, tip).Draw(rt, "initialFinalised"))
	default:
		if lag := int(genFinLag.Draw(rt, "initialFinLag")); lag <= tip {
			h.fin = uint64(tip - lag)
		}
	}
	h.logf("initial chain: %d empty L1 blocks, then events per L1 block %v, then %d empty blocks (tip %d), finalised %d, first L2 number %d",
		prefix, spec, suffix, tip, h.fin, h.l2base)
	// the node may be in an outage of its finalised-height query from the start (it has just been restarted)
	if rapid.IntRange(0, 7).Draw(rt, "initialOutage") == 0 {
		h.finPattern = []int{kNotFound}
		h.flagLocked("outage")
		h.logf("finalised-height queries are from now on answered %s, cyclically", kindsString(h.finPattern))
	}

	h.restart(true)
	steps := rapid.IntRange(3, stats.Pick(24, 40)).Draw(rt, "nsteps")
	for i := 0; i < steps; i++ {
		h.step()
	}

	// quiescence: node answers everything, is reachable, everything queued delivered, channel drained, two further polls
	h.mu.Lock()
	patterned := len(h.finPattern) > 0
	h.mu.Unlock()
	if patterned {
		h.logf("finalised-height queries are answered again")
		h.endOutage()
	}
	h.mu.Lock()
	hold := h.hold
	h.hold, h.watchFailN = false, 0
	w0 := h.watchOK
	h.mu.Unlock()
	if hold {
		h.logf("node reachable again")
		h.waitFor("resubscription", func() bool { return h.watchOK > w0 })
	}
	h.logf("deliver everything queued; final sync")
	h.deliver(math.MaxInt32)
	h.syncCheck("final")
	// closing phase: finality creeps up block by block (then jumps to the tip), so that everything the client
	// still buffers is promoted in turn and compared with the model
	for i := 0; ; i++ {
		h.mu.Lock()
		fin, cap := h.fin, h.finCapLocked()
		if fin < cap {
			h.fin = cap
			switch {
			case i < 6 && cap-fin <= 8:
				h.fin = fin + 1
			case i < 6:
				// tall chain: to the next block carrying events, so that the buffered blocks are still promoted in turn
				for n := fin + 1; n < cap; n++ {
					if len(h.blocks[n].evs) > 0 {
						h.fin = n
						break
					}
				}
			}
		}
		now := h.fin
		h.mu.Unlock()
		if now == fin {
			break
		}
		h.logf("finalised height %d -> %d; sync", fin, now)
		h.syncCheck("closing phase")
	}
	before, beforeSet := h.readHead(h.bc, srcStep)
	h.stopClient()
	h.stopObservers()
	h.closeNode()
	// the head is in the database, not in the Blockchain object
	after, afterSet := h.readHead(blockchain.New(h.db, &networks.Sepolia), srcStep)
	h.raise()
	if before != after || beforeSet != afterSet {
		h.fail("head-not-persisted", "head read through a fresh Blockchain on the same database is %s, was %s", after, before)
	}

	h.mu.Lock()
	for f := range h.flags {
		if strings.HasPrefix(f, "nt:") {
			c.NonTrivial(strings.TrimPrefix(f, "nt:"))
		} else {
			c.Label(f)
		}
	}
	if h.obs[srcCallback].has {
		c.Label("head-set")
	} else {
		c.Label("head-never-set-by-callback")
	}
	h.mu.Unlock()
	script := append([]string(nil), h.script...)
	c.Sample(func() any { return script })
	completed = true
}

const rule = "rapid-drawn script against the real l1.Client + real Blockchain(memory DB): model L1 chain (blocks with 0-3 LogStateUpdate events, " +
	"runs of 5..1000 blocks without events before / after / between them, so that the tip is up to thousands of blocks above the buffered events; " +
	"strictly increasing L2 numbers along the canonical chain), monotone finalised height anywhere between 0 and the tip (+1, to an event, fixed lag " +
	"0..300 below the tip, uniform), reorgs of the non-finalised suffix (1-4 blocks, or down to any block / event above the finalised height) with " +
	"Removed copies (ascending/descending) of every delivered log before the new logs, subscription errors, unreachable periods with missed logs, failing " +
	"resubscriptions / FinalisedHeight / ChainID / LatestHeight / FilterStateUpdate with a drawn failure kind (transport error, eth.ErrNotFound " +
	"sentinel, context deadline), outages of the finalised-height query (every poll fails, not-found / error / deadline / mixed, until the script ends " +
	"them; also from the start, across restarts, with subscription errors inside) and flaky cyclic answer patterns, chain changes and FINALITY ADVANCES (to the next or last event block or the tip, between any two chunks, once or twice) during the catch-up " +
	"scan, chunk sizes 1..50 (64..5000 on a tall chain), restarts via Run and via CatchUpL1Head; count-based synchronisation. Non-trivial = a Removed copy is delivered for a buffered event, or " +
	"finality advances past >= 2 buffered L1 blocks at once, or a restart/resubscription happens with a non-empty buffer; distinct = distinct script"

// TestRaceL1HeadScript runs the script under the race detector (the client, the feed, the database reads of
// the background sampler and the harness provider all run concurrently).
func TestRaceL1HeadScript(t *testing.T) {
	stats.Check(t, stats.Budget{Quick: 150, Thorough: 1500}, rule, runScript)
}

// TestPropL1HeadScript is the same check without the race detector (several times faster, so more scripts).
func TestPropL1HeadScript(t *testing.T) {
	stats.Check(t, stats.Budget{Quick: 500, Thorough: 5000}, rule, runScript)
}
