// Package c02: a block is stored only if hash, linkage, tx hashes and state root all verify (property C02).
package c02

import (
	"fmt"
	"math/big"
	"reflect"
	"sort"
	"testing"

	"github.com/NethermindEth/juno/blockchain/networks"
	"github.com/NethermindEth/juno/core"
	"github.com/NethermindEth/juno/core/felt"
	"pgregory.net/rapid"

	"verif/harness/internal/gen"
	"verif/harness/internal/node"
	"verif/harness/internal/stats"
)

func TestMain(m *testing.M) { stats.Main(m) }

// ---- network configuration of a case
//
// Everything juno derives from the network when it verifies a block: the L2 chain id (part of every derivable transaction
// hash), BlockHashMetaInfo.First07Block (height below which PRE-0.13.2 blocks use the pre-0.7 formula; blocks of the
// generated formats, >= 0.13.2, are hashed by their protocol version at every height), UnverifiableRange (heights whose
// hash juno deliberately does not verify) and FallBackSequencerAddress (only for headers without a sequencer address).
//
// Predefined networks are the ones a node can be started on today (networks.Network.Set) that have no unverifiable range.
// The custom network is built the way cmd/juno builds one from the --cn-* flags (own name and chain id, no fallback
// sequencer address, an explicit unverifiable range) plus the literal-only variants (First07Block > 0, nil range, a
// fallback address) that predefined networks use.

var customChainIDs = []string{"SN_AWESOME", "SN_JUNO_SEQUENCER", "SN_GOERLI", "KKRT_BETA", "A", "SN_MAIN_", "SN_SEPOLIa"}

type netChoice struct {
	net  *networks.Network
	kind string // mainnet | sepolia | sepolia-integration | custom
}

func drawNet(rt *rapid.T) netChoice {
	switch k := rapid.SampledFrom([]string{"sepolia", "mainnet", "mainnet", "sepolia-integration", "custom", "custom", "custom"}).Draw(rt, "net"); k {
	case "sepolia":
		return netChoice{&networks.Sepolia, k}
	case "mainnet":
		return netChoice{&networks.Mainnet, k}
	case "sepolia-integration":
		return netChoice{&networks.SepoliaIntegration, k}
	default:
		id := ""
		if rapid.Bool().Draw(rt, "cnIdFromPool") {
			id = rapid.SampledFrom(customChainIDs).Draw(rt, "cnId")
		} else {
			id = rapid.StringMatching(`[A-Z][A-Z0-9_]{0,19}`).Draw(rt, "cnIdRandom")
		}
		meta := &networks.BlockHashMetaInfo{
			// 0 = what --cn-* gives; 1..4 lie inside a generated chain (heights straddle it), 5 just above the longest
			// chain, 833 = mainnet's, 1000 far above
			First07Block: rapid.SampledFrom([]uint64{0, 0, 1, 2, 3, 4, 5, 833, 1000}).Draw(rt, "first07"),
		}
		switch rapid.IntRange(0, 3).Draw(rt, "fallbackSeq") {
		case 0, 1: // --cn-*: none
		case 2:
			meta.FallBackSequencerAddress = networks.Sepolia.BlockHashMetaInfo.FallBackSequencerAddress
		case 3:
			meta.FallBackSequencerAddress = ptrF(gen.NonZeroFelt().Draw(rt, "fallbackSeqAddr"))
		}
		return netChoice{&networks.Network{
			Name:                "custom",
			FeederURL:           networks.Sepolia.FeederURL,
			GatewayURL:          networks.Sepolia.GatewayURL,
			L1ChainID:           big.NewInt(int64(rapid.SampledFrom([]int{1, 5, 11155111, 31337}).Draw(rt, "cnL1"))),
			L2ChainID:           id,
			CoreContractAddress: networks.Mainnet.CoreContractAddress,
			BlockHashMetaInfo:   meta,
		}, k}
	}
}

func ptrF(f felt.Felt) *felt.Felt { return &f }

// drawUnverifiableRange gives a custom network a range of unverifiable heights that does NOT contain the height p of
// the block that will be tampered (inside the range juno documents that the hash is not verified): none, a range that
// begins right at / shortly above the end of the chain, or (p > 0) a range that ends right at / shortly below p - the
// valid blocks inside it must still be accepted, the tampered block outside it must still be rejected.
func drawUnverifiableRange(rt *rapid.T, n, p int) (r []uint64, label string) {
	kinds := []string{"none", "above-chain", "above-chain"}
	if p > 0 {
		kinds = append(kinds, "below-p", "below-p")
	}
	switch k := rapid.SampledFrom(kinds).Draw(rt, "unverif"); k {
	case "above-chain":
		// lo = n is the first height that is never generated. (A tamper that raises the NUMBER of the last block by one
		// can move it into the range: its hash is then not verified, but it does not continue the head, so it is still
		// not stored - the oracle is "rejected by SanityCheckNewHeight or Store".)
		lo := uint64(n + rapid.IntRange(0, 2).Draw(rt, "unverifGap"))
		return []uint64{lo, lo + uint64(rapid.SampledFrom([]int{0, 1, 10, 100000}).Draw(rt, "unverifLen"))}, k
	case "below-p":
		hi := rapid.IntRange(0, p-1).Draw(rt, "unverifHi")
		if rapid.IntRange(0, 2).Draw(rt, "unverifTight") > 0 {
			hi = p - 1
		}
		return []uint64{uint64(rapid.IntRange(0, hi).Draw(rt, "unverifLo")), uint64(hi)}, k
	default:
		return nil, k
	}
}

// otherChainID returns a copy of the case's network under a different L2 chain id (a real one where possible: the block
// is then one that another network would accept).
func otherChainID(t *rapid.T, net *networks.Network) *networks.Network {
	var ids []string
	for _, id := range append([]string{networks.Mainnet.L2ChainID, networks.Sepolia.L2ChainID, networks.SepoliaIntegration.L2ChainID}, customChainIDs...) {
		if id != net.L2ChainID {
			ids = append(ids, id)
		}
	}
	o := *net
	o.L2ChainID = rapid.SampledFrom(ids).Draw(t, "foreignChainId")
	return &o
}

func bump(f *felt.Felt) *felt.Felt {
	if f == nil {
		return gen.FP(1)
	}
	var o felt.Felt
	o.Add(f, gen.FP(1))
	return &o
}

func bumpAt(fs []felt.Felt, t *rapid.T) []felt.Felt {
	if len(fs) == 0 || rapid.Bool().Draw(t, "append") {
		return append(append([]felt.Felt{}, fs...), gen.F(77))
	}
	i := rapid.IntRange(0, len(fs)-1).Draw(t, "idx")
	o := append([]felt.Felt{}, fs...)
	o[i] = *bump(&o[i])
	return o
}

// tamper mutates a cloned block. It returns "" when it is not applicable to this block.
type tamper struct {
	name string
	// reseal: "" = nothing recomputed (stored hashes stay) ; "block" = block hash recomputed over the tampered content
	// (so only linkage / state-root / version checks can reject it)
	reseal string
	apply  func(t *rapid.T, b *gen.Block, u *gen.Universe) string
}

func pickTx[T core.Transaction](t *rapid.T, b *gen.Block, pred func(T) bool) (T, int, bool) {
	var idx []int
	for i, tx := range b.B.Transactions {
		if x, ok := tx.(T); ok && (pred == nil || pred(x)) {
			idx = append(idx, i)
		}
	}
	var zero T
	if len(idx) == 0 {
		return zero, 0, false
	}
	i := idx[rapid.IntRange(0, len(idx)-1).Draw(t, "txi")]
	return b.B.Transactions[i].(T), i, true
}

// txField builds the two tampers for one committed transaction field: keeping the stored tx hash (must fail tx-hash
// verification) and recomputing the tx hash + receipt's copy (must fail block-hash verification).
func txField(name string, mutate func(t *rapid.T, b *gen.Block) (core.Transaction, int, bool)) []tamper {
	return []tamper{
		{name: "tx/" + name + "/keep-txhash", apply: func(t *rapid.T, b *gen.Block, u *gen.Universe) string {
			_, i, ok := mutate(t, b)
			if !ok {
				return ""
			}
			return fmt.Sprintf("tx %d field %s changed, stored tx hash kept", i, name)
		}},
		{name: "tx/" + name + "/recompute-txhash", apply: func(t *rapid.T, b *gen.Block, u *gen.Universe) string {
			tx, i, ok := mutate(t, b)
			if !ok {
				return ""
			}
			old := *tx.Hash()
			gen.SetTxHash(tx, u.Net)
			if tx.Hash().Equal(&old) {
				return "" // hash not re-derivable for this kind (given hash)
			}
			b.B.Receipts[i].TransactionHash = tx.Hash()
			return fmt.Sprintf("tx %d field %s changed, tx hash recomputed (block hash kept)", i, name)
		}},
	}
}

func v(n uint64) func(x interface {
	TxVersion() *core.TransactionVersion
}) bool {
	return func(x interface {
		TxVersion() *core.TransactionVersion
	}) bool { return x.TxVersion().Is(n) }
}

func rbTamper(t *rapid.T, rb map[core.Resource]core.ResourceBounds) {
	kinds := []string{"l1amount", "l1price", "l2amount", "l2price", "l1data"}
	switch rapid.SampledFrom(kinds).Draw(t, "rbfield") {
	case "l1amount":
		x := rb[core.ResourceL1Gas]
		x.MaxAmount++
		rb[core.ResourceL1Gas] = x
	case "l1price":
		x := rb[core.ResourceL1Gas]
		x.MaxPricePerUnit = bump128(x.MaxPricePerUnit)
		rb[core.ResourceL1Gas] = x
	case "l2amount":
		x := rb[core.ResourceL2Gas]
		x.MaxAmount++
		rb[core.ResourceL2Gas] = x
	case "l2price":
		x := rb[core.ResourceL2Gas]
		x.MaxPricePerUnit = bump128(x.MaxPricePerUnit)
		rb[core.ResourceL2Gas] = x
	case "l1data":
		if x, ok := rb[core.ResourceL1DataGas]; ok {
			x.MaxAmount++
			rb[core.ResourceL1DataGas] = x
		} else {
			rb[core.ResourceL1DataGas] = core.ResourceBounds{MaxAmount: 1, MaxPricePerUnit: gen.FP(1)}
		}
	}
}

// bump128 changes a uint128 price staying below 2^128 (only the low 128 bits are committed).
func bump128(f *felt.Felt) *felt.Felt {
	b := f.Bytes()
	b[31] ^= 1
	var o felt.Felt
	o.SetBytes(b[:])
	return &o
}

func flip(m core.DataAvailabilityMode) core.DataAvailabilityMode { return m ^ 1 }

func tamperTable() []tamper {
	var tb []tamper
	hdr := func(name string, f func(t *rapid.T, b *gen.Block) bool) {
		tb = append(tb, tamper{name: "header/" + name, apply: func(t *rapid.T, b *gen.Block, u *gen.Universe) string {
			if !f(t, b) {
				return ""
			}
			return "header field " + name + " changed"
		}})
	}
	hdr("number", func(t *rapid.T, b *gen.Block) bool { b.B.Number++; return true })
	hdr("parent-hash", func(t *rapid.T, b *gen.Block) bool { b.B.ParentHash = bump(b.B.ParentHash); return true })
	hdr("state-root", func(t *rapid.T, b *gen.Block) bool {
		b.B.GlobalStateRoot = bump(b.B.GlobalStateRoot)
		b.SU.NewRoot = b.B.GlobalStateRoot
		return true
	})
	hdr("sequencer", func(t *rapid.T, b *gen.Block) bool { b.B.SequencerAddress = bump(b.B.SequencerAddress); return true })
	hdr("timestamp", func(t *rapid.T, b *gen.Block) bool { b.B.Timestamp++; return true })
	hdr("protocol-version", func(t *rapid.T, b *gen.Block) bool {
		var others []string
		for _, x := range gen.Versions {
			if x != b.B.ProtocolVersion {
				others = append(others, x)
			}
		}
		b.B.ProtocolVersion = rapid.SampledFrom(others).Draw(t, "otherver")
		return true
	})
	hdr("l1-da-mode", func(t *rapid.T, b *gen.Block) bool { b.B.L1DAMode ^= 1; return true })
	hdr("tx-count", func(t *rapid.T, b *gen.Block) bool { b.B.TransactionCount++; return true })
	hdr("event-count", func(t *rapid.T, b *gen.Block) bool { b.B.EventCount++; return true })
	hdr("l1-gas-price-wei", func(t *rapid.T, b *gen.Block) bool { b.B.L1GasPriceETH = bump(b.B.L1GasPriceETH); return true })
	hdr("l1-gas-price-fri", func(t *rapid.T, b *gen.Block) bool { b.B.L1GasPriceSTRK = bump(b.B.L1GasPriceSTRK); return true })
	hdr("l1-data-gas-price-wei", func(t *rapid.T, b *gen.Block) bool {
		b.B.L1DataGasPrice.PriceInWei = bump(b.B.L1DataGasPrice.PriceInWei)
		return true
	})
	hdr("l1-data-gas-price-fri", func(t *rapid.T, b *gen.Block) bool {
		b.B.L1DataGasPrice.PriceInFri = bump(b.B.L1DataGasPrice.PriceInFri)
		return true
	})
	hdr("l2-gas-price-wei", func(t *rapid.T, b *gen.Block) bool {
		if b.B.ProtocolVersion == "0.13.2" {
			return false // not committed before 0.13.4
		}
		b.B.L2GasPrice.PriceInWei = bump(b.B.L2GasPrice.PriceInWei)
		return true
	})
	hdr("l2-gas-price-fri", func(t *rapid.T, b *gen.Block) bool {
		if b.B.ProtocolVersion == "0.13.2" {
			return false
		}
		b.B.L2GasPrice.PriceInFri = bump(b.B.L2GasPrice.PriceInFri)
		return true
	})
	hdr("block-hash", func(t *rapid.T, b *gen.Block) bool {
		b.B.Hash = bump(b.B.Hash)
		b.SU.BlockHash = b.B.Hash
		return true
	})
	hdr("state-update-block-hash-only", func(t *rapid.T, b *gen.Block) bool { b.SU.BlockHash = bump(b.SU.BlockHash); return true })
	hdr("state-update-new-root-only", func(t *rapid.T, b *gen.Block) bool { b.SU.NewRoot = bump(b.SU.NewRoot); return true })

	// linkage / version with a VALID hash for the tampered content
	tb = append(tb,
		tamper{name: "succession/number+1", reseal: "block", apply: func(t *rapid.T, b *gen.Block, u *gen.Universe) string {
			b.B.Number++
			return "number+1 with a recomputed (valid) hash"
		}},
		tamper{name: "succession/number-1", reseal: "block", apply: func(t *rapid.T, b *gen.Block, u *gen.Universe) string {
			if b.B.Number == 0 {
				return ""
			}
			b.B.Number--
			return "number-1 with a recomputed (valid) hash"
		}},
		// a self-consistent block for ANOTHER position (added after seed C02-i): the first block of a chain, claimed on a chain
		// that already has blocks; a far-away number. Old root, diff and new root stay those of the valid next block, so only
		// the linkage check can reject it.
		tamper{name: "succession/genesis-claim", reseal: "block", apply: func(t *rapid.T, b *gen.Block, u *gen.Universe) string {
			if b.B.Number == 0 {
				return ""
			}
			b.B.Number = 0
			b.B.ParentHash = new(felt.Felt)
			return "block claims number 0 and a zero parent hash (a genesis block on a non-empty chain), hash recomputed"
		}},
		tamper{name: "succession/number-zero", reseal: "block", apply: func(t *rapid.T, b *gen.Block, u *gen.Universe) string {
			if b.B.Number == 0 {
				return ""
			}
			b.B.Number = 0
			return "block claims number 0 with its real parent hash, hash recomputed"
		}},
		tamper{name: "succession/far-number", reseal: "block", apply: func(t *rapid.T, b *gen.Block, u *gen.Universe) string {
			d := uint64(rapid.IntRange(2, 5).Draw(t, "far"))
			if rapid.Bool().Draw(t, "farDown") && b.B.Number >= d {
				b.B.Number -= d
			} else {
				b.B.Number += d
			}
			return "block number moved by 2-5 with a recomputed (valid) hash"
		}},
		tamper{name: "succession/zero-parent-hash", reseal: "block", apply: func(t *rapid.T, b *gen.Block, u *gen.Universe) string {
			if b.B.Number == 0 || b.B.ParentHash.IsZero() {
				return ""
			}
			b.B.ParentHash = new(felt.Felt)
			return "parent hash set to zero with a recomputed (valid) hash"
		}},
		tamper{name: "succession/parent-hash", reseal: "block", apply: func(t *rapid.T, b *gen.Block, u *gen.Universe) string {
			b.B.ParentHash = bump(b.B.ParentHash)
			return "parent hash changed with a recomputed (valid) hash"
		}},
		tamper{name: "succession/unsupported-version", reseal: "block", apply: func(t *rapid.T, b *gen.Block, u *gen.Universe) string {
			b.B.ProtocolVersion = rapid.SampledFrom([]string{"0.15.0", "1.0.0", "0.99.1"}).Draw(t, "badver")
			return "unsupported protocol version " + b.B.ProtocolVersion + " with a recomputed hash"
		}},
		tamper{name: "state/root-recomputed-hash", reseal: "block", apply: func(t *rapid.T, b *gen.Block, u *gen.Universe) string {
			b.B.GlobalStateRoot = bump(b.B.GlobalStateRoot)
			b.SU.NewRoot = b.B.GlobalStateRoot
			return "declared state root changed, block hash recomputed: only applying the diff can reject it"
		}},
		tamper{name: "state/stale-root-recomputed-hash", reseal: "block", apply: func(t *rapid.T, b *gen.Block, u *gen.Universe) string {
			if b.SU.OldRoot == nil || b.SU.NewRoot.Equal(b.SU.OldRoot) {
				return "" // the block does not change the state: declaring the parent's root is correct
			}
			b.B.GlobalStateRoot = b.SU.OldRoot
			b.SU.NewRoot = b.SU.OldRoot
			return "block declares its parent's state root although its diff changes the state, block hash recomputed"
		}},
		tamper{name: "state/zero-root-recomputed-hash", reseal: "block", apply: func(t *rapid.T, b *gen.Block, u *gen.Universe) string {
			if b.SU.NewRoot.IsZero() {
				return ""
			}
			b.B.GlobalStateRoot = new(felt.Felt)
			b.SU.NewRoot = b.B.GlobalStateRoot
			return "declared state root set to zero, block hash recomputed"
		}},
		tamper{name: "state/old-root", apply: func(t *rapid.T, b *gen.Block, u *gen.Universe) string {
			b.SU.OldRoot = bump(b.SU.OldRoot)
			return "old root changed (not part of the block hash)"
		}},
	)

	// ---- transactions
	add := func(ts []tamper) { tb = append(tb, ts...) }
	inv := func(ver uint64, name string, f func(t *rapid.T, x *core.InvokeTransaction)) {
		add(txField(fmt.Sprintf("invoke-v%d/%s", ver, name), func(t *rapid.T, b *gen.Block) (core.Transaction, int, bool) {
			x, i, ok := pickTx(t, b, func(x *core.InvokeTransaction) bool { return x.Version.Is(ver) })
			if ok {
				f(t, x)
			}
			return x, i, ok
		}))
	}
	inv(0, "contract-address", func(t *rapid.T, x *core.InvokeTransaction) { x.ContractAddress = bump(x.ContractAddress) })
	inv(0, "entry-point-selector", func(t *rapid.T, x *core.InvokeTransaction) { x.EntryPointSelector = bump(x.EntryPointSelector) })
	inv(0, "calldata", func(t *rapid.T, x *core.InvokeTransaction) { x.CallData = bumpAt(x.CallData, t) })
	inv(0, "max-fee", func(t *rapid.T, x *core.InvokeTransaction) { x.MaxFee = bump(x.MaxFee) })
	inv(1, "sender", func(t *rapid.T, x *core.InvokeTransaction) { x.SenderAddress = bump(x.SenderAddress) })
	inv(1, "calldata", func(t *rapid.T, x *core.InvokeTransaction) { x.CallData = bumpAt(x.CallData, t) })
	inv(1, "max-fee", func(t *rapid.T, x *core.InvokeTransaction) { x.MaxFee = bump(x.MaxFee) })
	inv(1, "nonce", func(t *rapid.T, x *core.InvokeTransaction) { x.Nonce = bump(x.Nonce) })
	inv(3, "sender", func(t *rapid.T, x *core.InvokeTransaction) { x.SenderAddress = bump(x.SenderAddress) })
	inv(3, "nonce", func(t *rapid.T, x *core.InvokeTransaction) { x.Nonce = bump(x.Nonce) })
	inv(3, "tip", func(t *rapid.T, x *core.InvokeTransaction) { x.Tip++ })
	inv(3, "resource-bounds", func(t *rapid.T, x *core.InvokeTransaction) { rbTamper(t, x.ResourceBounds) })
	inv(3, "paymaster-data", func(t *rapid.T, x *core.InvokeTransaction) { x.PaymasterData = bumpAt(x.PaymasterData, t) })
	inv(3, "account-deployment-data", func(t *rapid.T, x *core.InvokeTransaction) {
		x.AccountDeploymentData = bumpAt(x.AccountDeploymentData, t)
	})
	inv(3, "calldata", func(t *rapid.T, x *core.InvokeTransaction) { x.CallData = bumpAt(x.CallData, t) })
	inv(3, "nonce-da-mode", func(t *rapid.T, x *core.InvokeTransaction) { x.NonceDAMode = flip(x.NonceDAMode) })
	inv(3, "fee-da-mode", func(t *rapid.T, x *core.InvokeTransaction) { x.FeeDAMode = flip(x.FeeDAMode) })
	inv(3, "proof-facts", func(t *rapid.T, x *core.InvokeTransaction) { x.ProofFacts = bumpAt(x.ProofFacts, t) })

	dec := func(ver uint64, name string, f func(t *rapid.T, x *core.DeclareTransaction)) {
		add(txField(fmt.Sprintf("declare-v%d/%s", ver, name), func(t *rapid.T, b *gen.Block) (core.Transaction, int, bool) {
			x, i, ok := pickTx(t, b, func(x *core.DeclareTransaction) bool { return x.Version.Is(ver) })
			if ok {
				f(t, x)
			}
			return x, i, ok
		}))
	}
	for _, ver := range []uint64{1, 2, 3} {
		dec(ver, "class-hash", func(t *rapid.T, x *core.DeclareTransaction) { x.ClassHash = bump(x.ClassHash) })
		dec(ver, "sender", func(t *rapid.T, x *core.DeclareTransaction) { x.SenderAddress = bump(x.SenderAddress) })
		dec(ver, "nonce", func(t *rapid.T, x *core.DeclareTransaction) { x.Nonce = bump(x.Nonce) })
	}
	for _, ver := range []uint64{1, 2} {
		dec(ver, "max-fee", func(t *rapid.T, x *core.DeclareTransaction) { x.MaxFee = bump(x.MaxFee) })
	}
	for _, ver := range []uint64{2, 3} {
		dec(ver, "compiled-class-hash", func(t *rapid.T, x *core.DeclareTransaction) { x.CompiledClassHash = bump(x.CompiledClassHash) })
	}
	dec(3, "tip", func(t *rapid.T, x *core.DeclareTransaction) { x.Tip++ })
	dec(3, "resource-bounds", func(t *rapid.T, x *core.DeclareTransaction) { rbTamper(t, x.ResourceBounds) })
	dec(3, "paymaster-data", func(t *rapid.T, x *core.DeclareTransaction) { x.PaymasterData = bumpAt(x.PaymasterData, t) })
	dec(3, "account-deployment-data", func(t *rapid.T, x *core.DeclareTransaction) {
		x.AccountDeploymentData = bumpAt(x.AccountDeploymentData, t)
	})
	dec(3, "nonce-da-mode", func(t *rapid.T, x *core.DeclareTransaction) { x.NonceDAMode = flip(x.NonceDAMode) })
	dec(3, "fee-da-mode", func(t *rapid.T, x *core.DeclareTransaction) { x.FeeDAMode = flip(x.FeeDAMode) })

	da := func(ver uint64, name string, f func(t *rapid.T, x *core.DeployAccountTransaction)) {
		add(txField(fmt.Sprintf("deploy-account-v%d/%s", ver, name), func(t *rapid.T, b *gen.Block) (core.Transaction, int, bool) {
			x, i, ok := pickTx(t, b, func(x *core.DeployAccountTransaction) bool { return x.Version.Is(ver) })
			if ok {
				f(t, x)
			}
			return x, i, ok
		}))
	}
	for _, ver := range []uint64{1, 3} {
		da(ver, "class-hash", func(t *rapid.T, x *core.DeployAccountTransaction) { x.ClassHash = bump(x.ClassHash) })
		da(ver, "salt", func(t *rapid.T, x *core.DeployAccountTransaction) {
			x.ContractAddressSalt = bump(x.ContractAddressSalt)
		})
		da(ver, "constructor-calldata", func(t *rapid.T, x *core.DeployAccountTransaction) {
			x.ConstructorCallData = bumpAt(x.ConstructorCallData, t)
		})
		da(ver, "contract-address", func(t *rapid.T, x *core.DeployAccountTransaction) { x.ContractAddress = bump(x.ContractAddress) })
		da(ver, "nonce", func(t *rapid.T, x *core.DeployAccountTransaction) { x.Nonce = bump(x.Nonce) })
	}
	da(1, "max-fee", func(t *rapid.T, x *core.DeployAccountTransaction) { x.MaxFee = bump(x.MaxFee) })
	da(3, "tip", func(t *rapid.T, x *core.DeployAccountTransaction) { x.Tip++ })
	da(3, "resource-bounds", func(t *rapid.T, x *core.DeployAccountTransaction) { rbTamper(t, x.ResourceBounds) })
	da(3, "paymaster-data", func(t *rapid.T, x *core.DeployAccountTransaction) { x.PaymasterData = bumpAt(x.PaymasterData, t) })
	da(3, "nonce-da-mode", func(t *rapid.T, x *core.DeployAccountTransaction) { x.NonceDAMode = flip(x.NonceDAMode) })
	da(3, "fee-da-mode", func(t *rapid.T, x *core.DeployAccountTransaction) { x.FeeDAMode = flip(x.FeeDAMode) })

	l1 := func(name string, f func(t *rapid.T, x *core.L1HandlerTransaction)) {
		add(txField("l1-handler/"+name, func(t *rapid.T, b *gen.Block) (core.Transaction, int, bool) {
			// nonce-less (first-generation) L1 handlers are excluded like declare v0 / deploy: juno documents that their
			// hash cannot be recomputed ("some l1 handler transaction which do not return a nonce"), so their fields are
			// not committed by anything it can verify
			x, i, ok := pickTx(t, b, func(x *core.L1HandlerTransaction) bool { return x.Nonce != nil })
			if ok {
				f(t, x)
			}
			return x, i, ok
		}))
	}
	l1("contract-address", func(t *rapid.T, x *core.L1HandlerTransaction) { x.ContractAddress = bump(x.ContractAddress) })
	l1("entry-point-selector", func(t *rapid.T, x *core.L1HandlerTransaction) { x.EntryPointSelector = bump(x.EntryPointSelector) })
	l1("nonce", func(t *rapid.T, x *core.L1HandlerTransaction) { x.Nonce = bump(x.Nonce) })
	l1("calldata", func(t *rapid.T, x *core.L1HandlerTransaction) { x.CallData = bumpAt(x.CallData, t) })

	// version with the query bit (2^128) set: TransactionVersion.Is() ignores that bit, so every version switch still takes
	// the same branch, but the bit is part of the hash preimage of every transaction kind whose hash is recomputable
	add(txField("any/version-query-bit", func(t *rapid.T, b *gen.Block) (core.Transaction, int, bool) {
		var idx []int
		for i, tx := range b.B.Transactions {
			switch x := tx.(type) {
			case *core.DeployTransaction:
				continue // hash given
			case *core.DeclareTransaction:
				if x.Version.Is(0) {
					continue
				}
			case *core.L1HandlerTransaction:
				if x.Nonce == nil {
					continue
				}
			}
			idx = append(idx, i)
		}
		if len(idx) == 0 {
			return nil, 0, false
		}
		i := idx[rapid.IntRange(0, len(idx)-1).Draw(t, "txi")]
		tx := b.B.Transactions[i]
		ver := tx.TxVersion()
		q := new(felt.Felt).Exp(gen.FP(2), big.NewInt(128))
		nv := core.TransactionVersion(*new(felt.Felt).Add(ver.AsFelt(), q))
		switch x := tx.(type) {
		case *core.InvokeTransaction:
			x.Version = &nv
		case *core.DeclareTransaction:
			x.Version = &nv
		case *core.DeployAccountTransaction:
			x.Version = &nv
		case *core.L1HandlerTransaction:
			x.Version = &nv
		}
		return tx, i, true
	}))

	// chain id: every derivable transaction hash commits to the L2 chain id of the network the node runs on; the block
	// hash formats >= 0.13.2 commit to it only through the transaction hashes. A block whose transactions were hashed
	// (signed) for another network must be rejected - with the stored block hash and with a block hash that is valid
	// for the re-hashed content (then only the transaction-hash verification can reject it).
	for _, rs := range []string{"", "block"} {
		for _, all := range []bool{false, true} {
			rs, all := rs, all
			nm := "tx/any/foreign-chain-id"
			if all {
				nm = "tx/all/foreign-chain-id"
			}
			if rs != "" {
				nm += "/recompute-blockhash"
			}
			tb = append(tb, tamper{name: nm, reseal: rs, apply: func(t *rapid.T, b *gen.Block, u *gen.Universe) string {
				var idx []int
				for i, tx := range b.B.Transactions {
					switch x := tx.(type) {
					case *core.DeployTransaction:
						continue // hash given
					case *core.DeclareTransaction:
						if x.Version.Is(0) {
							continue
						}
					case *core.L1HandlerTransaction:
						if x.Nonce == nil {
							continue
						}
					}
					idx = append(idx, i)
				}
				if len(idx) == 0 {
					return ""
				}
				if !all {
					idx = []int{idx[rapid.IntRange(0, len(idx)-1).Draw(t, "txi")]}
				}
				other := otherChainID(t, u.Net)
				for _, i := range idx {
					tx := b.B.Transactions[i]
					// (no applicability test on "the hash changed": every derivable hash format of the protocol contains
					// the chain id; if juno's does not, the block below equals the valid one, is accepted, and that is
					// exactly the violation - a transaction signed for another network is taken for one of this network)
					gen.SetTxHash(tx, other)
					b.B.Receipts[i].TransactionHash = tx.Hash()
				}
				return fmt.Sprintf("transaction(s) %v hashed for chain id %q instead of the node's %q", idx, other.L2ChainID, u.Net.L2ChainID)
			}})
		}
	}

	// signature: committed by the transaction commitment, not by the tx hash
	tb = append(tb, tamper{name: "tx/signature", apply: func(t *rapid.T, b *gen.Block, u *gen.Universe) string {
		var idx []int
		for i, tx := range b.B.Transactions {
			switch tx.(type) {
			case *core.InvokeTransaction, *core.DeclareTransaction, *core.DeployAccountTransaction:
				idx = append(idx, i)
			}
		}
		if len(idx) == 0 {
			return ""
		}
		i := idx[rapid.IntRange(0, len(idx)-1).Draw(t, "sigtx")]
		switch x := b.B.Transactions[i].(type) {
		case *core.InvokeTransaction:
			x.TransactionSignature = bumpAt(x.TransactionSignature, t)
		case *core.DeclareTransaction:
			x.TransactionSignature = bumpAt(x.TransactionSignature, t)
		case *core.DeployAccountTransaction:
			x.TransactionSignature = bumpAt(x.TransactionSignature, t)
		}
		return fmt.Sprintf("signature of tx %d changed", i)
	}})
	tb = append(tb, tamper{name: "tx/swap-order", apply: func(t *rapid.T, b *gen.Block, u *gen.Universe) string {
		if len(b.B.Transactions) < 2 {
			return ""
		}
		i := rapid.IntRange(0, len(b.B.Transactions)-2).Draw(t, "swapi")
		b.B.Transactions[i], b.B.Transactions[i+1] = b.B.Transactions[i+1], b.B.Transactions[i]
		b.B.Receipts[i], b.B.Receipts[i+1] = b.B.Receipts[i+1], b.B.Receipts[i]
		return fmt.Sprintf("transactions %d and %d swapped (with their receipts)", i, i+1)
	}})
	tb = append(tb, tamper{name: "tx/drop-last", apply: func(t *rapid.T, b *gen.Block, u *gen.Universe) string {
		if len(b.B.Transactions) < 1 {
			return ""
		}
		n := len(b.B.Transactions) - 1
		b.B.Transactions, b.B.Receipts = b.B.Transactions[:n], b.B.Receipts[:n]
		return "last transaction and receipt dropped"
	}})

	// ---- receipts
	rc := func(name string, f func(t *rapid.T, r *core.TransactionReceipt) bool) {
		tb = append(tb, tamper{name: "receipt/" + name, apply: func(t *rapid.T, b *gen.Block, u *gen.Universe) string {
			if len(b.B.Receipts) == 0 {
				return ""
			}
			start := rapid.IntRange(0, len(b.B.Receipts)-1).Draw(t, "rci")
			for k := 0; k < len(b.B.Receipts); k++ {
				i := (start + k) % len(b.B.Receipts)
				if f(t, b.B.Receipts[i]) {
					return fmt.Sprintf("receipt %d: %s changed", i, name)
				}
			}
			return ""
		}})
	}
	rc("tx-hash", func(t *rapid.T, r *core.TransactionReceipt) bool {
		r.TransactionHash = bump(r.TransactionHash)
		return true
	})
	rc("actual-fee", func(t *rapid.T, r *core.TransactionReceipt) bool { r.Fee = bump(r.Fee); return true })
	rc("reverted-flag", func(t *rapid.T, r *core.TransactionReceipt) bool { r.Reverted = !r.Reverted; return true })
	rc("revert-reason", func(t *rapid.T, r *core.TransactionReceipt) bool {
		if !r.Reverted {
			return false
		}
		r.RevertReason += "!"
		return true
	})
	rc("l1-gas", func(t *rapid.T, r *core.TransactionReceipt) bool {
		r.ExecutionResources.TotalGasConsumed.L1Gas++
		return true
	})
	rc("l1-data-gas", func(t *rapid.T, r *core.TransactionReceipt) bool {
		r.ExecutionResources.TotalGasConsumed.L1DataGas++
		return true
	})
	rc("message-add", func(t *rapid.T, r *core.TransactionReceipt) bool {
		r.L2ToL1Message = append(r.L2ToL1Message, &core.L2ToL1Message{From: gen.FP(5), Payload: []felt.Felt{gen.F(1)}})
		return true
	})
	rc("message-remove", func(t *rapid.T, r *core.TransactionReceipt) bool {
		if len(r.L2ToL1Message) == 0 {
			return false
		}
		r.L2ToL1Message = r.L2ToL1Message[1:]
		return true
	})
	rc("message-from", func(t *rapid.T, r *core.TransactionReceipt) bool {
		if len(r.L2ToL1Message) == 0 {
			return false
		}
		r.L2ToL1Message[0].From = bump(r.L2ToL1Message[0].From)
		return true
	})
	rc("message-to", func(t *rapid.T, r *core.TransactionReceipt) bool {
		if len(r.L2ToL1Message) == 0 {
			return false
		}
		r.L2ToL1Message[0].To[19] ^= 1
		return true
	})
	rc("message-payload", func(t *rapid.T, r *core.TransactionReceipt) bool {
		if len(r.L2ToL1Message) == 0 {
			return false
		}
		r.L2ToL1Message[0].Payload = bumpAt(r.L2ToL1Message[0].Payload, t)
		return true
	})
	// ---- events
	rc("event-from", func(t *rapid.T, r *core.TransactionReceipt) bool {
		if len(r.Events) == 0 {
			return false
		}
		r.Events[0].From = bump(r.Events[0].From)
		return true
	})
	rc("event-keys", func(t *rapid.T, r *core.TransactionReceipt) bool {
		if len(r.Events) == 0 {
			return false
		}
		r.Events[len(r.Events)-1].Keys = bumpAt(r.Events[len(r.Events)-1].Keys, t)
		return true
	})
	rc("event-key-removed", func(t *rapid.T, r *core.TransactionReceipt) bool {
		for _, e := range r.Events {
			if len(e.Keys) > 0 {
				e.Keys = e.Keys[:len(e.Keys)-1]
				return true
			}
		}
		return false
	})
	rc("event-key-moved-to-data", func(t *rapid.T, r *core.TransactionReceipt) bool {
		for _, e := range r.Events {
			if len(e.Keys) > 0 {
				k := e.Keys[len(e.Keys)-1]
				e.Keys = e.Keys[:len(e.Keys)-1]
				e.Data = append([]felt.Felt{k}, e.Data...)
				return true
			}
		}
		return false
	})
	rc("event-data", func(t *rapid.T, r *core.TransactionReceipt) bool {
		if len(r.Events) == 0 {
			return false
		}
		r.Events[0].Data = bumpAt(r.Events[0].Data, t)
		return true
	})
	rc("event-add", func(t *rapid.T, r *core.TransactionReceipt) bool {
		r.Events = append(r.Events, &core.Event{From: gen.FP(9), Keys: []felt.Felt{gen.F(1)}, Data: []felt.Felt{}})
		return true
	})
	rc("event-remove", func(t *rapid.T, r *core.TransactionReceipt) bool {
		if len(r.Events) == 0 {
			return false
		}
		r.Events = r.Events[:len(r.Events)-1]
		return true
	})
	rc("event-swap", func(t *rapid.T, r *core.TransactionReceipt) bool {
		if len(r.Events) < 2 || reflect.DeepEqual(r.Events[0], r.Events[1]) {
			return false
		}
		r.Events[0], r.Events[1] = r.Events[1], r.Events[0]
		return true
	})
	tb = append(tb, tamper{name: "receipt/event-moved-to-other-tx", apply: func(t *rapid.T, b *gen.Block, u *gen.Universe) string {
		for i, r := range b.B.Receipts {
			if len(r.Events) > 0 && i+1 < len(b.B.Receipts) {
				e := r.Events[len(r.Events)-1]
				r.Events = r.Events[:len(r.Events)-1]
				b.B.Receipts[i+1].Events = append([]*core.Event{e}, b.B.Receipts[i+1].Events...)
				return fmt.Sprintf("last event of tx %d moved to the front of tx %d (same global order, different emitting tx)", i, i+1)
			}
		}
		return ""
	}})

	// ---- state diff: plain (hash must reject) and with recomputed hash (state application must reject)
	sd := func(name string, f func(t *rapid.T, b *gen.Block, u *gen.Universe) bool) {
		for _, rs := range []string{"", "block"} {
			rs := rs
			nm := "statediff/" + name
			if rs != "" {
				nm += "/recompute-blockhash"
			}
			tb = append(tb, tamper{name: nm, reseal: rs, apply: func(t *rapid.T, b *gen.Block, u *gen.Universe) string {
				if !f(t, b, u) {
					return ""
				}
				if rs != "" {
					// applicable only if the tampered diff really leads to a different state (or is inconsistent)
					post := b.Pre.Clone()
					if err := post.Apply(b.B.Number, b.B.ProtocolVersion, b.SU.StateDiff, b.Classes, u.CasmV2Of); err == nil {
						nr := post.Commitment(b.B.ProtocolVersion)
						if nr.Equal(b.SU.NewRoot) {
							return ""
						}
					}
				}
				return "state diff: " + name
			}})
		}
	}
	someStorage := func(t *rapid.T, d *core.StateDiff) (felt.Felt, felt.Felt, bool) {
		var as []felt.Felt
		for a, m := range d.StorageDiffs {
			if len(m) > 0 { // a contract may be listed without any slot
				as = append(as, a)
			}
		}
		if len(as) == 0 {
			return felt.Felt{}, felt.Felt{}, false
		}
		sort.Slice(as, func(i, j int) bool { return as[i].Cmp(&as[j]) < 0 })
		a := as[rapid.IntRange(0, len(as)-1).Draw(t, "sda")]
		var ks []felt.Felt
		for k := range d.StorageDiffs[a] {
			ks = append(ks, k)
		}
		sort.Slice(ks, func(i, j int) bool { return ks[i].Cmp(&ks[j]) < 0 })
		return a, ks[rapid.IntRange(0, len(ks)-1).Draw(t, "sdk")], true
	}
	sd("storage-value-changed", func(t *rapid.T, b *gen.Block, u *gen.Universe) bool {
		a, k, ok := someStorage(t, b.SU.StateDiff)
		if !ok {
			return false
		}
		b.SU.StateDiff.StorageDiffs[a][k] = bump(b.SU.StateDiff.StorageDiffs[a][k])
		return true
	})
	sd("storage-entry-removed", func(t *rapid.T, b *gen.Block, u *gen.Universe) bool {
		a, k, ok := someStorage(t, b.SU.StateDiff)
		if !ok {
			return false
		}
		delete(b.SU.StateDiff.StorageDiffs[a], k)
		if len(b.SU.StateDiff.StorageDiffs[a]) == 0 {
			delete(b.SU.StateDiff.StorageDiffs, a)
		}
		return true
	})
	sd("storage-entry-added", func(t *rapid.T, b *gen.Block, u *gen.Universe) bool {
		cs := b.Post.SortedContracts()
		if len(cs) == 0 {
			return false
		}
		a := cs[rapid.IntRange(0, len(cs)-1).Draw(t, "sdaddc")]
		k := gen.F(0xfeed)
		if b.SU.StateDiff.StorageDiffs[a] == nil {
			b.SU.StateDiff.StorageDiffs[a] = map[felt.Felt]*felt.Felt{}
		}
		b.SU.StateDiff.StorageDiffs[a][k] = gen.FP(3)
		return true
	})
	firstKey := func(m map[felt.Felt]*felt.Felt) (felt.Felt, bool) {
		var ks []felt.Felt
		for k := range m {
			ks = append(ks, k)
		}
		if len(ks) == 0 {
			return felt.Felt{}, false
		}
		sort.Slice(ks, func(i, j int) bool { return ks[i].Cmp(&ks[j]) < 0 })
		return ks[0], true
	}
	sd("nonce-changed", func(t *rapid.T, b *gen.Block, u *gen.Universe) bool {
		k, ok := firstKey(b.SU.StateDiff.Nonces)
		if !ok {
			return false
		}
		b.SU.StateDiff.Nonces[k] = bump(b.SU.StateDiff.Nonces[k])
		return true
	})
	sd("nonce-removed", func(t *rapid.T, b *gen.Block, u *gen.Universe) bool {
		k, ok := firstKey(b.SU.StateDiff.Nonces)
		if !ok {
			return false
		}
		delete(b.SU.StateDiff.Nonces, k)
		return true
	})
	sd("nonce-added", func(t *rapid.T, b *gen.Block, u *gen.Universe) bool {
		for _, a := range b.Post.SortedContracts() {
			if _, ok := b.SU.StateDiff.Nonces[a]; !ok && !b.Post.Contracts[a].System {
				b.SU.StateDiff.Nonces[a] = bump(&b.Post.Contracts[a].Nonce)
				return true
			}
		}
		return false
	})
	sd("deployed-class-changed", func(t *rapid.T, b *gen.Block, u *gen.Universe) bool {
		k, ok := firstKey(b.SU.StateDiff.DeployedContracts)
		if !ok {
			return false
		}
		b.SU.StateDiff.DeployedContracts[k] = bump(b.SU.StateDiff.DeployedContracts[k])
		return true
	})
	sd("replaced-class-changed", func(t *rapid.T, b *gen.Block, u *gen.Universe) bool {
		k, ok := firstKey(b.SU.StateDiff.ReplacedClasses)
		if !ok {
			return false
		}
		b.SU.StateDiff.ReplacedClasses[k] = bump(b.SU.StateDiff.ReplacedClasses[k])
		return true
	})
	sd("replaced-class-removed", func(t *rapid.T, b *gen.Block, u *gen.Universe) bool {
		k, ok := firstKey(b.SU.StateDiff.ReplacedClasses)
		if !ok {
			return false
		}
		delete(b.SU.StateDiff.ReplacedClasses, k)
		return true
	})
	sd("declared-compiled-class-hash-changed", func(t *rapid.T, b *gen.Block, u *gen.Universe) bool {
		k, ok := firstKey(b.SU.StateDiff.DeclaredV1Classes)
		if !ok {
			return false
		}
		b.SU.StateDiff.DeclaredV1Classes[k] = bump(b.SU.StateDiff.DeclaredV1Classes[k])
		return true
	})
	sd("migrated-compiled-class-hash-changed", func(t *rapid.T, b *gen.Block, u *gen.Universe) bool {
		for k, v := range b.SU.StateDiff.MigratedClasses {
			nv := felt.CasmClassHash(*bump((*felt.Felt)(&v)))
			b.SU.StateDiff.MigratedClasses[k] = nv
			return true
		}
		return false
	})
	// ---- class definitions (Sierra: hash verified)
	tb = append(tb, tamper{name: "class/sierra-entry-point", apply: func(t *rapid.T, b *gen.Block, u *gen.Universe) string {
		for h, def := range b.Classes {
			if s, ok := def.(*core.SierraClass); ok {
				c := *s
				c.EntryPoints.External = append([]core.SierraEntryPoint{}, s.EntryPoints.External...)
				c.EntryPoints.External = append(c.EntryPoints.External, core.SierraEntryPoint{Index: 99, Selector: gen.FP(1)})
				b.Classes[h] = &c
				return "declared Sierra class body changed (extra entry point) under the same class hash"
			}
		}
		return ""
	}})
	tb = append(tb, tamper{name: "class/sierra-program-hash", apply: func(t *rapid.T, b *gen.Block, u *gen.Universe) string {
		for h, def := range b.Classes {
			if s, ok := def.(*core.SierraClass); ok {
				c := *s
				c.ProgramHash = bump(s.ProgramHash)
				b.Classes[h] = &c
				return "declared Sierra class program hash changed under the same class hash"
			}
		}
		return ""
	}})
	return tb
}

var table = tamperTable()

func dumpEqual(a, b map[string]string) (string, bool) {
	for k, v := range a {
		if w, ok := b[k]; !ok {
			return fmt.Sprintf("key %x disappeared", k), false
		} else if v != w {
			return fmt.Sprintf("key %x changed", k), false
		}
	}
	for k := range b {
		if _, ok := a[k]; !ok {
			return fmt.Sprintf("key %x appeared", k), false
		}
	}
	return "", true
}

func TestPropTamperedBlocksRejected(t *testing.T) {
	stats.Check(t, stats.Budget{Quick: 1000, Thorough: 5000},
		"network configuration drawn per case (sepolia / mainnet with First07Block 833 / sepolia-integration / custom network: own L2 chain id, First07Block 0..5|833|1000, with or without fallback sequencer address, unverifiable range none | starting at or above the end of the chain | ending below p); valid generated chain of 1-5 blocks sealed for that network (reference-sealed, all tx kinds/versions); one block p is cloned and ONE committed field is tampered (table of ~155 spec-derived tampers: header, per-version tx fields with stored or recomputed tx hash, signature, transactions hashed for a foreign chain id, receipts, events, messages, state-diff entries with stored or recomputed block hash, roots, class bodies, linkage, version); oracle: untampered chain accepted, tampered block rejected by SanityCheckNewHeight or Store on both backends, raw DB image and event answers identical before/after the rejection, the valid block p is then accepted; non-trivial = every case (a committed field really changed); classes reported per tamper name",
		func(rt *rapid.T, c *stats.Case) {
			u := gen.NewUniverse(rt)
			// the network configuration of the case: the chain is sealed for it (chain id in the transaction hashes,
			// block hash by juno's dispatch for that network), the node runs on it, recomputed hashes of tampers use it
			nc := drawNet(rt)
			u.Net = nc.net
			ch := gen.NewChain(u, gen.Opts{MaxTxs: 8, MinVersionIdx: rapid.IntRange(0, 3).Draw(rt, "minver")})
			n := rapid.IntRange(1, 5).Draw(rt, "nblocks")
			for i := 0; i < n; i++ {
				ch.Next(rt)
			}
			p := rapid.IntRange(0, n-1).Draw(rt, "p")
			meta := u.Net.BlockHashMetaInfo
			c.Label("net:" + nc.kind)
			if nc.kind == "custom" {
				// (the range is not part of any hash: it can be fixed after the chain has been sealed)
				var rl string
				meta.UnverifiableRange, rl = drawUnverifiableRange(rt, n, p)
				c.Label("net:custom/unverifiable-range:" + rl)
				if meta.FallBackSequencerAddress == nil {
					c.Label("net:custom/no-fallback-sequencer")
				}
			}
			if r := meta.UnverifiableRange; r != nil && uint64(p) >= r[0] && uint64(p) <= r[1] {
				stats.HarnessError("tampered height %d inside the unverifiable range %v", p, r)
			}
			switch f7 := meta.First07Block; {
			case f7 == 0:
				c.Label("first07:0")
			case uint64(p) < f7 && f7 < uint64(n):
				c.Label("first07:inside-chain,p-below")
			case uint64(p) < f7:
				c.Label("first07:above-chain")
			default:
				c.Label("first07:inside-chain,p-at-or-above")
			}
			// choose a tamper applicable to block p (construction, not rejection: walk the table from a drawn start)
			drawTamper := func() (*gen.Block, tamper, string) {
				var bad *gen.Block
				var tm tamper
				desc := ""
				for try := 0; try < 12 && desc == ""; try++ {
					tm = table[gen.Uniform(rt, len(table), "tamper")]
					bad = gen.CloneBlock(ch.Blocks[p])
					desc = tm.apply(rt, bad, u)
				}
				start := gen.Uniform(rt, len(table), "tamperStart")
				for k := 0; k < len(table) && desc == ""; k++ {
					tm = table[(start+k)%len(table)]
					bad = gen.CloneBlock(ch.Blocks[p])
					desc = tm.apply(rt, bad, u)
				}
				if desc == "" {
					stats.HarnessError("no tamper applicable")
				}
				if tm.reseal == "block" {
					gen.Rehash(bad, u.Net)
				}
				return bad, tm, desc
			}
			bad, tm, desc := drawTamper()
			c.Fp("%s p%d/%d %s net %s/%s f7=%d ur=%v", tm.name, p, n, ch.Blocks[p].B.Hash.String(), u.Net.Name, u.Net.L2ChainID, meta.First07Block, meta.UnverifiableRange)
			c.Label("tamper:" + tm.name)
			c.NonTrivial("committed-field-changed")
			if p > 0 {
				c.Label("p>0")
			}
			newState := rapid.Bool().Draw(rt, "newState")
			// a fifth of the cases on the production store (Pebble v2): the "no trace" comparison then covers what its real batches
			// leave behind after a rejected Store
			nd := node.New(newState, nil, u.Net)
			if gen.Uniform(rt, 5, "pebble") == 0 {
				pn, cleanup, err := node.NewPebble(newState, u.Net)
				if err != nil {
					stats.HarnessError("pebble: %v", err)
				}
				defer cleanup()
				nd = pn
				c.Label("pebble")
			}
			ids := &node.Ids{Addrs: u.AllAddrs()}
			for _, b := range ch.Blocks[:p] {
				if err := nd.Store(b); err != nil {
					c.Violation("valid-block-rejected", "%s rejected valid block %d: %v", nd.Backend(), b.Num(), err)
				}
			}
			// What the node has seen of the GENUINE block p (and its successors) before the tampered copy arrives, on the same
			// long-lived Blockchain object: nothing (a fresh view), verified ahead of the head as the sync pipeline does
			// (SanityCheckNewHeight without Store, possibly of several later heights too), or stored and reverted again (a reorg
			// back to height p-1). A tampered copy that keeps the genuine hash must be rejected whatever was verified before.
			history := rapid.SampledFrom([]string{"fresh", "fresh", "verified-ahead", "verified-ahead", "stored-and-reverted", "stored-and-reverted", "verified-ahead-then-stored-and-reverted"}).Draw(rt, "history")
			c.Label("history:" + history)
			c.Fp("history %s", history)
			verifyAhead := func() {
				k := rapid.IntRange(p, n-1).Draw(rt, "verifyUpTo")
				for _, b := range ch.Blocks[p : k+1] {
					// blocks above p do not extend the head yet: only the hash-level verification is exercised, its outcome for
					// them is not part of the oracle
					if _, err := nd.BC.SanityCheckNewHeight(b.B, b.SU, b.Classes); err != nil && b.Num() == uint64(p) {
						c.Violation("valid-block-rejected", "%s: SanityCheckNewHeight rejected valid block %d: %v", nd.Backend(), b.Num(), err)
					}
				}
			}
			storeAndRevert := func() {
				k := rapid.IntRange(p, n-1).Draw(rt, "storeUpTo")
				for _, b := range ch.Blocks[p : k+1] {
					if err := nd.Store(b); err != nil {
						c.Violation("valid-block-rejected", "%s rejected valid block %d: %v", nd.Backend(), b.Num(), err)
					}
				}
				for i := k; i >= p; i-- {
					if err := nd.BC.RevertHead(); err != nil {
						c.Violation("revert-failed", "%s: RevertHead of block %d: %v", nd.Backend(), i, err)
					}
				}
			}
			switch history {
			case "verified-ahead":
				verifyAhead()
			case "stored-and-reverted":
				storeAndRevert()
			case "verified-ahead-then-stored-and-reverted":
				verifyAhead()
				storeAndRevert()
			}
			var err error
			// one to three tampered copies in a row (the second and third are fresh draws from the table): each is rejected and
			// leaves no trace, whatever the node cached while rejecting the previous one
			noffers := rapid.SampledFrom([]int{1, 1, 1, 2, 3}).Draw(rt, "noffers")
			for o := 0; o < noffers; o++ {
				if o > 0 {
					if rapid.Bool().Draw(rt, "sameAgain") {
						c.Label("same-tampered-copy-offered-again")
					} else {
						bad, tm, desc = drawTamper()
						c.Label("tamper:" + tm.name)
						c.Fp("then %s", tm.name)
					}
				}
				before := node.Dump(nd.DB)
				evBefore := node.Obs{}
				nd.ObserveEvents(evBefore, ids)
				err = nd.Store(bad)
				if err == nil {
					c.Violation("tampered-block-accepted", "%s backend ACCEPTED block %d (v%s) tampered by [%s] (history: %s, offer %d): %s", nd.Backend(), p, ch.Blocks[p].B.ProtocolVersion, tm.name, history, o+1, desc)
				}
				after := node.Dump(nd.DB)
				if why, ok := dumpEqual(before, after); !ok {
					c.Violation("rejected-block-left-trace", "%s: database changed by the rejected block (%s): %s; rejection was: %v", nd.Backend(), tm.name, why, err)
				}
				evAfter := node.Obs{}
				nd.ObserveEvents(evAfter, ids)
				if d := node.Diff(evBefore, evAfter, 3); len(d) > 0 {
					c.Violation("rejected-block-changed-event-answers", "%s: event query answers changed by the rejected block (%s): %v", nd.Backend(), tm.name, d)
				}
			}
			for _, b := range ch.Blocks[p:] {
				if err := nd.Store(b); err != nil {
					c.Violation("valid-block-rejected-after-tamper", "%s rejected VALID block %d after having rejected a tampered one (%s): %v", nd.Backend(), b.Num(), tm.name, err)
				}
			}
			if h, err := nd.BC.Height(); err != nil || h != uint64(n-1) {
				c.Violation("height", "height %d, %v after storing %d blocks", h, err, n)
			}
			c.Sample(func() any {
				return map[string]any{"tamper": tm.name, "what": desc, "position": p, "chain_len": n, "network": u.Net.Name, "l2_chain_id": u.Net.L2ChainID, "first_07_block": meta.First07Block,
					"unverifiable_range": fmt.Sprint(meta.UnverifiableRange), "backend": nd.Backend(), "version": ch.Blocks[p].B.ProtocolVersion, "rejection": fmt.Sprint(err), "seen_before": history, "offers": noffers}
			})
		})
}
