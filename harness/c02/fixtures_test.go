package c02

import (
	"encoding/json"
	"fmt"
	"os"
	"path/filepath"
	"sort"
	"strings"
	"testing"

	"github.com/NethermindEth/juno/adapters/sn2core"
	"github.com/NethermindEth/juno/blockchain/networks"
	"github.com/NethermindEth/juno/core"
	"github.com/NethermindEth/juno/starknet"
	"pgregory.net/rapid"

	"verif/harness/internal/gen"
	"verif/harness/internal/stats"
)

type fixture struct {
	net  *networks.Network
	name string
	blk  *starknet.Block
	su   *starknet.StateUpdate // nil when the repository has no state update for that block
}

var fixtures []fixture

func loadFixtures() {
	nets := map[string]*networks.Network{"mainnet": &networks.Mainnet, "sepolia": &networks.Sepolia, "sepolia-integration": &networks.SepoliaIntegration, "goerli2": &networks.Goerli2, "goerli": &networks.Goerli, "integration": &networks.Integration}
	var names []string
	for n := range nets {
		names = append(names, n)
	}
	sort.Strings(names)
	for _, nn := range names {
		files, _ := filepath.Glob("/repo/clients/feeder/testdata/" + nn + "/block/*.json")
		sort.Strings(files)
		for _, f := range files {
			base := strings.TrimSuffix(filepath.Base(f), ".json")
			if base == "latest" || base == "pending" {
				continue
			}
			raw, err := os.ReadFile(f)
			if err != nil {
				continue
			}
			var b starknet.Block
			if json.Unmarshal(raw, &b) != nil || b.Hash == nil {
				continue
			}
			fx := fixture{net: nets[nn], name: nn + "/" + base, blk: &b}
			if raw, err := os.ReadFile("/repo/clients/feeder/testdata/" + nn + "/state_update/" + base + ".json"); err == nil {
				var su starknet.StateUpdate
				if json.Unmarshal(raw, &su) == nil {
					fx.su = &su
				}
			}
			fixtures = append(fixtures, fx)
		}
	}
}

func (f *fixture) adapt() (*core.Block, *core.StateDiff, error) {
	b, err := sn2core.AdaptBlock(f.blk, nil)
	if err != nil {
		return nil, nil, err
	}
	var sd *core.StateDiff
	if f.su != nil {
		su, err := sn2core.AdaptStateUpdate(f.su)
		if err != nil {
			return nil, nil, err
		}
		sd = su.StateDiff
	}
	return b, sd, nil
}

func inUnverifiableRange(f fixture, n uint64) bool {
	ur := f.net.BlockHashMetaInfo.UnverifiableRange
	return ur != nil && n >= ur[0] && n <= ur[1]
}

// verifiable says whether juno is expected to verify this fixture's hash (old formats have documented exceptions).
func (f *fixture) verifiable(b *core.Block, sd *core.StateDiff) bool {
	ur := f.net.BlockHashMetaInfo.UnverifiableRange
	if ur != nil && b.Number >= ur[0] && b.Number <= ur[1] {
		return false
	}
	ver, err := core.ParseBlockVersion(b.ProtocolVersion)
	if err != nil {
		return false
	}
	if ver.GreaterThanEqual(core.Ver0_13_2) && sd == nil {
		return false // the state diff is committed from 0.13.2 on; no fixture for it
	}
	return true
}

// TestPropRealBlocksVerifyAndTamperedOnesDoNot anchors the block-hash oracle in network data: every real block of
// the repository's feeder fixtures must verify, and the same block with one field committed IN ITS FORMAT changed must not.
func TestPropRealBlocksVerifyAndTamperedOnesDoNot(t *testing.T) {
	loadFixtures()
	if len(fixtures) < 10 {
		stats.HarnessError("only %d fixture blocks found", len(fixtures))
	}
	stats.Check(t, stats.Budget{Quick: 100, Thorough: 300},
		"real-network fixture blocks (mainnet, sepolia, sepolia-integration, goerli, goerli2, integration; formats pre-0.7 ... 0.14.x) through core.VerifyBlockHash with both temporary-trie backends: untampered must verify; one field committed in that block's format (number, parent, root, tx hash, tx order, and for >= 0.13.2 timestamp, sequencer, gas prices, receipts, events, state diff) changed must fail; non-trivial = the fixture is verifiable (outside documented unverifiable ranges) and a tamper was applied",
		func(rt *rapid.T, c *stats.Case) {
			fx := fixtures[gen.Uniform(rt, len(fixtures), "fixture")]
			b, sd, err := fx.adapt()
			if err != nil {
				stats.HarnessError("adapt %s: %v", fx.name, err)
			}
			backend := core.TrieBackend
			depr := rapid.Bool().Draw(rt, "deprecatedTempTrie")
			if depr {
				backend = core.DeprecatedTrieBackend
			}
			c.Label("fixture:" + fx.name)
			c.Label("version:" + b.ProtocolVersion)
			if !fx.verifiable(b, sd) {
				c.Label("unverifiable-by-design")
				c.Fp("skip %s", fx.name)
				return
			}
			if _, err := core.VerifyBlockHash(b, fx.net, sd, backend); err != nil {
				c.Violation("real-block-rejected", "real block %s (v%q) does not verify: %v", fx.name, b.ProtocolVersion, err)
			}
			ver, _ := core.ParseBlockVersion(b.ProtocolVersion)
			modern := ver.GreaterThanEqual(core.Ver0_13_2)
			post07 := modern || b.Number >= fx.net.BlockHashMetaInfo.First07Block
			type tm struct {
				name string
				ok   bool
				f    func()
			}
			tms := []tm{
				// number+1 must not land in the network's documented unverifiable range (e.g. goerli 119801 -> 119802),
				// where juno skips hash verification by design
				{"number", !inUnverifiableRange(fx, b.Number+1), func() { b.Number++ }},
				{"parent-hash", true, func() { b.ParentHash = bump(b.ParentHash) }},
				{"state-root", true, func() { b.GlobalStateRoot = bump(b.GlobalStateRoot) }},
				{"tx-count", true, func() { b.TransactionCount++ }},
				{"timestamp", post07, func() { b.Timestamp++ }},
				{"event-count", post07, func() { b.EventCount++ }},
				{"sequencer", post07 && b.SequencerAddress != nil, func() { b.SequencerAddress = bump(b.SequencerAddress) }},
				{"l1-gas-price-wei", modern, func() { b.L1GasPriceETH = bump(b.L1GasPriceETH) }},
				{"l1-gas-price-fri", modern && b.L1GasPriceSTRK != nil, func() { b.L1GasPriceSTRK = bump(b.L1GasPriceSTRK) }},
				{"l1-da-mode", modern, func() { b.L1DAMode ^= 1 }},
				{"swap-two-txs", len(b.Transactions) >= 2 && !b.Transactions[0].Hash().Equal(b.Transactions[1].Hash()), func() {
					b.Transactions[0], b.Transactions[1] = b.Transactions[1], b.Transactions[0]
					b.Receipts[0], b.Receipts[1] = b.Receipts[1], b.Receipts[0]
				}},
				{"receipt-fee", modern && len(b.Receipts) > 0, func() { b.Receipts[0].Fee = bump(b.Receipts[0].Fee) }},
				{"event-data", post07 && b.EventCount > 0, func() {
					for _, r := range b.Receipts {
						if len(r.Events) > 0 {
							r.Events[0].Data = bumpAt(r.Events[0].Data, rt)
							return
						}
					}
				}},
				{"state-diff-nonce-added", modern && sd != nil, func() { sd.Nonces[gen.F(0x777)] = gen.FP(1) }},
			}
			var app []tm
			for _, x := range tms {
				if x.ok {
					app = append(app, x)
				}
			}
			x := app[gen.Uniform(rt, len(app), "fixtamper")]
			x.f()
			c.Fp("%s %s %v", fx.name, x.name, depr)
			c.Label("fixtamper:" + x.name)
			c.NonTrivial("verifiable-fixture-tampered")
			if _, err := core.VerifyBlockHash(b, fx.net, sd, backend); err == nil {
				c.Violation("tampered-real-block-verifies", "real block %s with %s changed still verifies", fx.name, x.name)
			}
			c.Sample(func() any { return fmt.Sprintf("%s tamper=%s", fx.name, x.name) })
		})
}
