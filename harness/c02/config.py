# Driver configuration for property C02
PROP = dict(
    pkg="c02", level="exploration",
    technique="metamorphic PBT: single-field tampering of valid generated blocks must be rejected and leave no trace; reference-sealed valid chain must be accepted",
    level_text=("Exploration: for generated valid chains every case tampers one committed field (table derived from the protocol formats, not from "
                "juno's preimage code) at a drawn position and checks rejection on a drawn backend, byte-identical DB image and unchanged event "
                "answers after the rejection, and acceptance of the valid block afterwards. Per-tamper histogram in evidence."),
    rule=("chain 1-5 blocks x position p x ~150 tampers (header fields; invoke/declare/deploy-account/l1-handler fields per version with stored or "
          "recomputed tx hash; signature; receipt fee/status/reason/gas/messages; events from/keys/data/order/emitting tx; state-diff entries with "
          "stored or recomputed block hash; old/new root; Sierra class body; number/parent/unsupported version with valid hash). Every case is "
          "non-trivial (a committed field changed); distinct = tamper name x position x block hash."),
    assumptions=["not in the tamper set because not committed by the implemented/fixture-confirmed formulas: events bloom, header signatures, execution "
                 "resources other than the gas vector, fee unit, L1->L2 message copy, L2 gas consumed, legacy Deploy / Declare v0 fields, Cairo-0 class bodies",
                 "valid blocks are sealed with the reference state root and juno's own block-hash function (formula correctness is pinned by the repository's fixture tests)"],
    runs=[dict(run="^Test(Prop|Known)")],
)
