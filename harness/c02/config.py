# Driver configuration for property C02
PROP = dict(
    pkg="c02", level="exploration",
    technique="metamorphic PBT: single-field tampering of valid generated blocks must be rejected and leave no trace, on a network configuration drawn per case; reference-sealed valid chain must be accepted on every network",
    level_text=("Exploration: every case draws the network configuration the node runs on (sepolia, mainnet, sepolia-integration or a custom network with "
                "its own chain id, First07Block, fallback sequencer address and unverifiable range not containing the tampered height); "
                "for generated valid chains sealed for that network every case tampers one committed field (table derived from the protocol formats, not from "
                "juno's preimage code) at a drawn position and checks rejection on a drawn backend, byte-identical DB image and unchanged event "
                "answers after the rejection, and acceptance of the valid block afterwards. Per-tamper histogram in evidence."),
    rule=("network {sepolia, mainnet (First07Block 833), sepolia-integration, custom: chain id from a pool or random, First07Block in {0,1..5,833,1000} so that "
          "new-format blocks lie below / straddle / above it, fallback sequencer address none|sepolia's|random, unverifiable range none | [n+0..2, ...] | "
          "[.., <p]} x chain 1-5 blocks x position p x ~155 tampers (header fields; invoke/declare/deploy-account/l1-handler fields per version with stored or "
          "recomputed tx hash; one/all transactions hashed for a foreign chain id with stored or recomputed block hash; signature; receipt fee/status/reason/gas/messages; events from/keys/data/order/emitting tx; state-diff entries with "
          "stored or recomputed block hash; old/new root; Sierra class body; number +-1, moved by 2-5, set to 0 with the real or a zero parent (a genesis claim on a non-empty chain), parent bumped or zeroed, unsupported version - each with a recomputed valid hash). Every case is "
          "non-trivial (a committed field changed); distinct = tamper name x position x block hash x network configuration. "
          "Presentation history drawn per case (labels history:*): the tampered copy arrives at a node that has seen nothing of the genuine block p, or has "
          "verified the genuine blocks p..k ahead of the head (SanityCheckNewHeight without Store, as the sync pipeline does), or has stored p..k and reverted "
          "them again, or both - on the same Blockchain object; then 1-3 tampered copies in a row (the same again, or fresh draws), each rejected without trace. "
          "Labels net:*, first07:*, net:custom/unverifiable-range:* count the configuration classes."),
    assumptions=["networks whose unverifiable range contains the generated heights (integration, goerli) are not drawn: inside the range juno documents that "
                 "hashes are not verified; custom ranges never contain the tampered height p (heights below p may be inside: those valid blocks must be accepted)",
                 "sequencer address is always present in generated headers (formats >= 0.13.2), so the fallback sequencer address must be irrelevant",
                 "not in the tamper set because not committed by the implemented/fixture-confirmed formulas: events bloom, header signatures, execution "
                 "resources other than the gas vector, fee unit, L1->L2 message copy, L2 gas consumed, legacy Deploy / Declare v0 fields, Cairo-0 class bodies",
                 "valid blocks are sealed with the reference state root and juno's own block-hash function (formula correctness is pinned by the repository's fixture tests)"],
    runs=[dict(run="^Test(Prop|Known)")],
)
