package c05

import (
	"errors"
	"fmt"
	"sync"

	"github.com/NethermindEth/juno/core"
	"github.com/NethermindEth/juno/core/crypto"
	"github.com/NethermindEth/juno/core/felt"
	"github.com/NethermindEth/juno/db"

	"verif/harness/internal/gen"
	"verif/harness/internal/node"
	"verif/harness/internal/stats"
)

// ---- SIZE OF THE ATOMIC UNIT: blocks whose write batch is tens of megabytes ------------------------------------------
//
// A block may declare several classes of up to ~4 MB each, so the one batch that carries all of its effects can exceed any
// size at which a store implementation changes strategy (juno's db.DefaultBatchSize is 10 MiB). The pool below holds four
// Sierra classes of 3.5-3.9 MB (encoded) with VALID hashes (program hash = Poseidon over the program, class hash from
// juno's class hashing, as SanityCheckNewHeight verifies it); a case draws 2-4 of them.

var (
	bigOnce sync.Once
	bigPool []*gen.SierraInfo
)

// bigProgramLens: number of felts of the program; a full-width felt takes 37 bytes in the stored (CBOR) form.
var bigProgramLens = []int{95_000, 98_000, 101_000, 104_000}

func makeBigSierra(seed uint64, n int) *gen.SierraInfo {
	small := gen.MakeSierra(seed)
	def := *small.Def
	prog := make([]felt.Felt, n)
	prog[0], prog[1], prog[2] = gen.F(1), gen.F(6), gen.F(0) // Sierra version 1.6.0
	x := seed*0x9e3779b97f4a7c15 + 1
	next := func() uint64 {
		x ^= x << 13
		x ^= x >> 7
		x ^= x << 17
		return x
	}
	for i := 3; i < n; i++ {
		// any four limbs with the top one below the modulus' top limb are a reduced field element
		prog[i] = felt.Felt([4]uint64{next(), next(), next(), next() % 0x0800000000000011})
	}
	def.Program = prog
	ph := crypto.PoseidonArray(prog)
	def.ProgramHash = &ph
	h, err := def.Hash()
	if err != nil {
		stats.HarnessError("big class hash: %v", err)
	}
	return &gen.SierraInfo{Hash: h, Def: &def, CasmV1: small.CasmV1, CasmV2: small.CasmV2}
}

func bigClassPool() []*gen.SierraInfo {
	bigOnce.Do(func() {
		for i, n := range bigProgramLens {
			bigPool = append(bigPool, makeBigSierra(uint64(1000+i), n))
		}
	})
	return bigPool
}

// declareBig adds a declaration of every class of big that the chain does not hold yet to the drawn (not yet appended) block
// b, recomputes the model state after the block and seals the block again (roots, state-diff commitment, block hash).
func declareBig(b *gen.Block, u *gen.Universe, big []*gen.SierraInfo) int {
	v2 := b.B.ProtocolVersion == "0.14.1"
	n := 0
	for _, s := range big {
		if _, ok := b.Pre.Classes[s.Hash]; ok {
			continue
		}
		n++
		if _, ok := b.SU.StateDiff.DeclaredV1Classes[s.Hash]; ok {
			continue // the generator declared it in this block already
		}
		casm := s.CasmV1
		if v2 {
			casm = s.CasmV2
		}
		b.SU.StateDiff.DeclaredV1Classes[s.Hash] = &casm
		b.Classes[s.Hash] = s.Def
	}
	post := b.Pre.Clone()
	if err := post.Apply(b.B.Number, b.B.ProtocolVersion, b.SU.StateDiff, b.Classes, u.CasmV2Of); err != nil {
		stats.HarnessError("big block: model rejects the diff: %v", err)
	}
	b.Post = post
	b.Tags["declare"] = true
	gen.Seal(b, u.Net)
	return n
}

func sameSierra(got core.ClassDefinition, want *core.SierraClass) string {
	sc, ok := got.(*core.SierraClass)
	if !ok {
		return fmt.Sprintf("wrong type %T", got)
	}
	if len(sc.Program) != len(want.Program) {
		return fmt.Sprintf("program of %d felts, declared with %d", len(sc.Program), len(want.Program))
	}
	for i := range sc.Program {
		if sc.Program[i] != want.Program[i] {
			return fmt.Sprintf("program differs at felt %d", i)
		}
	}
	if sc.ProgramHash == nil || !sc.ProgramHash.Equal(want.ProgramHash) || sc.Compiled == nil || len(sc.Compiled.Bytecode) != len(want.Compiled.Bytecode) {
		return "program hash / compiled class differ"
	}
	return "intact"
}

func errS(err error) string {
	if errors.Is(err, db.ErrKeyNotFound) {
		return "!notfound"
	}
	return "!err:" + err.Error()
}

// observeBig adds what the head state (definition, CASM hashes) and the states at the given block numbers (CASM hashes)
// answer about the large classes. A definition is compared with the declared one instead of being rendered (megabytes
// each), and read through the head state only: every read decodes it.
func observeBig(n *node.Node, o node.Obs, big []*gen.SierraInfo, numbers []uint64) {
	read := func(tag string, r core.StateReader, defs bool) {
		for _, s := range big {
			h := s.Hash
			if defs {
				d, err := r.Class(&h)
				if err != nil {
					o[tag+"/bigclass/"+h.String()] = errS(err)
				} else {
					o[tag+"/bigclass/"+h.String()] = fmt.Sprintf("declared at %d, %s", d.At, sameSierra(d.Class, s.Def))
				}
			}
			sh := felt.SierraClassHash(h)
			if c1, err := r.CompiledClassHash(&sh); err != nil {
				o[tag+"/bigcasm/"+h.String()] = errS(err)
			} else {
				o[tag+"/bigcasm/"+h.String()] = (*felt.Felt)(&c1).String()
			}
			if c2, err := r.CompiledClassHashV2(&sh); err != nil {
				o[tag+"/bigcasm2/"+h.String()] = errS(err)
			} else {
				o[tag+"/bigcasm2/"+h.String()] = (*felt.Felt)(&c2).String()
			}
		}
	}
	if sr, closer, err := n.BC.HeadState(); err != nil {
		o["headstate/big"] = errS(err)
	} else {
		read("headstate", sr, true)
		_ = closer()
	}
	for _, num := range numbers {
		tag := fmt.Sprintf("n%d/state", num)
		if sr, closer, err := n.BC.StateAtBlockNumber(num); err != nil {
			o[tag+"/big"] = errS(err)
		} else {
			read(tag, sr, false)
			_ = closer()
		}
	}
}
