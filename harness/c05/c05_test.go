// Package c05: block storage is atomic and crash-consistent at every interruption point (property C05).
package c05

import (
	"fmt"
	"testing"

	"github.com/NethermindEth/juno/core"
	"github.com/NethermindEth/juno/core/felt"
	"github.com/NethermindEth/juno/db"
	"github.com/NethermindEth/juno/db/memory"
	"pgregory.net/rapid"

	"verif/harness/internal/fault"
	"verif/harness/internal/gen"
	"verif/harness/internal/node"
	"verif/harness/internal/stats"
)

func TestMain(m *testing.M) { stats.Main(m) }

type op struct {
	kind string // store, revert, l1head, snapshot, graceful, ungraceful
	blk  *gen.Block
	l1   *core.L1Head
}

func (o op) String() string {
	switch o.kind {
	case "store":
		return fmt.Sprintf("store#%d", o.blk.Num())
	case "l1head":
		return fmt.Sprintf("l1head=%d", o.l1.BlockNumber)
	}
	return o.kind
}

// world is the model after an op: canonical chain and recorded L1 head.
type world struct {
	blocks []*gen.Block
	l1     *core.L1Head
}

func (w world) key() string {
	k := "empty"
	if len(w.blocks) > 0 {
		k = w.blocks[len(w.blocks)-1].B.Hash.String()
	}
	if w.l1 != nil {
		k += fmt.Sprintf("/l1:%d", w.l1.BlockNumber)
	}
	return k
}

type env struct {
	c        *stats.Case
	u        *gen.Universe
	newState bool
	baseN    int
	ids      *node.Ids
	refs     map[string]node.Obs
	// large-class cases (Pebble v2 store): the classes a block of the script declares at once, and the block numbers whose
	// states are asked about them
	pebble  bool
	big     []*gen.SierraInfo
	bigNums []uint64
	bigBlk  *gen.Block
}

func (e *env) freshDB() *memory.Database {
	if e.baseN == 0 {
		return memory.New()
	}
	_, d := node.GetBase(e.baseN, e.newState, e.u.Net)
	return d
}

// freshStore is the store a run of the script starts on: the in-memory store (a copy of the base, if any) or, in the
// large-class cases, an empty Pebble v2 store in a scratch directory; done closes and removes it.
func (e *env) freshStore() (s db.KeyValueStore, done func()) {
	if e.pebble {
		return pebbleScratch()
	}
	return e.freshDB(), func() {}
}

func (e *env) observe(n *node.Node) node.Obs {
	ids := e.ids
	o := n.Observe(ids)
	n.ObserveEvents(o, ids)
	if len(e.big) > 0 {
		observeBig(n, o, e.big, e.bigNums)
	}
	// state roots recomputed from the tries
	if sr, closer, err := n.BC.HeadState(); err == nil {
		if ct, err := sr.ContractTrie(); err == nil {
			h, herr := ct.Hash()
			o["trie/contracts-root"] = fmt.Sprintf("%s %v", h.String(), herr)
		}
		if kt, err := sr.ClassTrie(); err == nil {
			h, herr := kt.Hash()
			o["trie/classes-root"] = fmt.Sprintf("%s %v", h.String(), herr)
		}
		_ = closer()
	}
	return o
}

// ref is the observation of a node that reached world w without any fault.
func (e *env) ref(w world) node.Obs {
	if o, ok := e.refs[w.key()]; ok {
		return o
	}
	inner, done := e.freshStore()
	defer done()
	n := node.New(e.newState, inner, e.u.Net)
	for _, b := range w.blocks[e.baseN:] {
		if err := n.Store(b); err != nil {
			stats.HarnessError("reference node: %v", err)
		}
	}
	if w.l1 != nil {
		if err := n.BC.SetL1Head(w.l1); err != nil {
			stats.HarnessError("reference node l1: %v", err)
		}
	}
	o := e.observe(n)
	e.refs[w.key()] = o
	return o
}

func apply(n *node.Node, o op) error {
	switch o.kind {
	case "store":
		return n.Store(o.blk)
	case "revert":
		return n.BC.RevertHead()
	case "l1head":
		return n.BC.SetL1Head(o.l1)
	case "snapshot":
		return n.BC.WriteRunningEventFilter()
	case "graceful":
		if err := n.BC.WriteRunningEventFilter(); err != nil {
			return err
		}
		n.Reopen()
	case "ungraceful":
		n.Reopen()
	}
	return nil
}

// drawScript draws the op list and the model world after each op.
func drawScript(rt *rapid.T, e *env, c *stats.Case) ([]op, []world) {
	var ch *gen.Chain
	if e.baseN > 0 {
		bch, _ := node.GetBase(e.baseN, e.newState, e.u.Net)
		ch = bch.Fork(bch.Height())
		ch.U = e.u
		ch.Opt = gen.Opts{MaxTxs: 3, MaxEvents: 3, DenseEvents: true, FixedVersion: "0.13.2"}
	} else {
		ch = gen.NewChain(e.u, gen.Opts{MaxTxs: 3, MaxEvents: 3, DenseEvents: true, MinVersionIdx: rapid.IntRange(0, 3).Draw(rt, "minver")})
	}
	var ops []op
	var worlds []world
	var l1 *core.L1Head
	n := rapid.IntRange(4, 10).Draw(rt, "nops")
	// large-class cases: the bigAt-th store of the script (mostly the first) declares every large class of the case that the
	// chain does not hold yet (the generator may have declared one of them alone in an earlier block, or in a fork after a
	// revert); the scripts are kept shorter, every run of them moves tens of megabytes
	bigAt, stores := -1, 0
	if len(e.big) > 0 {
		n = rapid.IntRange(3, 7).Draw(rt, "nopsLarge")
		bigAt = rapid.SampledFrom([]int{0, 0, 1}).Draw(rt, "largeAtStore")
	}
	// skeleton (half of the cases on the 8188-block base): stores that reach or cross the 8192 window boundary, an optional
	// graceful restart on the way, an ungraceful restart, then ops that are the FIRST access of the lazily initialised
	// running event filter (the initializer itself reads and, across the boundary, writes the database)
	var skeleton []string
	if e.baseN > 0 && rapid.Bool().Draw(rt, "lazyInitSkeleton") {
		a := rapid.IntRange(2, 6).Draw(rt, "skStores")
		g := rapid.IntRange(0, a).Draw(rt, "skGraceful") // a = no graceful restart
		for i := 0; i < a; i++ {
			if i == g {
				skeleton = append(skeleton, "graceful")
			}
			skeleton = append(skeleton, "store")
		}
		skeleton = append(skeleton, "ungraceful")
		for i := 0; i < 2; i++ {
			skeleton = append(skeleton, rapid.SampledFrom([]string{"snapshot", "store", "revert", "snapshot", "l1head"}).Draw(rt, "skTail"))
		}
		n = len(skeleton)
		c.Label("lazy-init-skeleton")
	}
	for i := 0; i < n; i++ {
		var kind string
		if skeleton != nil {
			kind = skeleton[i]
		} else {
			kind = rapid.SampledFrom([]string{"store", "store", "store", "store", "revert", "revert", "l1head", "snapshot", "graceful", "ungraceful"}).Draw(rt, "op")
		}
		if bigAt >= 0 && e.bigBlk == nil && i == n-1 {
			kind = "store" // the script has not reached the large block yet
		}
		if kind == "revert" && ch.Height() <= e.baseN {
			kind = "store"
		}
		if kind == "l1head" && ch.Height() == 0 {
			kind = "store"
		}
		o := op{kind: kind}
		switch kind {
		case "store":
			if bigAt >= 0 && e.bigBlk == nil && (stores == bigAt || i == n-1) {
				b := ch.Draw(rt)
				nd := declareBig(b, e.u, e.big)
				ch.Blocks = append(ch.Blocks, b)
				o.blk, e.bigBlk = b, b
				e.bigNums = append(e.bigNums, b.Num())
				c.Labelf("large-classes-in-one-block:%d", nd)
				c.Fp("large block %d declares %d large classes", b.Num(), nd)
			} else {
				o.blk = ch.Next(rt)
			}
			stores++
			e.ids.AddBlock(o.blk)
		case "revert":
			ch = ch.Fork(ch.Height() - 1)
		case "l1head":
			bn := uint64(rapid.IntRange(max(0, ch.Height()-3), ch.Height()+1).Draw(rt, "l1num"))
			l1 = &core.L1Head{BlockNumber: bn, BlockHash: gen.FP(bn + 1000), StateRoot: gen.FP(bn + 2000)}
			o.l1 = l1
		}
		ops = append(ops, o)
		worlds = append(worlds, world{blocks: append([]*gen.Block{}, ch.Blocks...), l1: l1})
		c.Fp("%s", o.String())
	}
	return ops, worlds
}

func runCase(rt *rapid.T, c *stats.Case) {
	u := gen.NewUniverse(rt)
	e := &env{c: c, u: u, newState: rapid.Bool().Draw(rt, "newState"), refs: map[string]node.Obs{}, ids: &node.Ids{Addrs: u.AllAddrs(), Keys: u.Keys[:min(3, len(u.Keys))]}}
	if rapid.IntRange(0, 7).Draw(rt, "useBase") == 0 {
		e.baseN = 8188
		e.ids.MinNumber = 8184
		c.Label("base-8188")
	} else if rapid.IntRange(0, 3).Draw(rt, "largeClasses") == 0 {
		// SIZE OF THE ATOMIC UNIT: a quarter of the other cases run on a real Pebble v2 store and contain a block that declares
		// 2-4 classes of 3.5-3.9 MB each, so that the one batch of its Store holds 7-15 MB (db.DefaultBatchSize is 10 MiB)
		e.pebble = true
		pool := bigClassPool()
		nbig := rapid.SampledFrom([]int{3, 4, 3, 4, 2}).Draw(rt, "nLarge")
		first := rapid.IntRange(0, len(pool)-1).Draw(rt, "firstLarge")
		for j := 0; j < nbig; j++ {
			e.big = append(e.big, pool[(first+j)%len(pool)])
		}
		// the generator sees them as ordinary declarable classes (deploys, replacements, CASM-hash migrations use them too)
		u.Sierra = append(append([]*gen.SierraInfo{}, u.Sierra...), e.big...)
		c.Label("store-pebblev2+large-classes")
	}
	for _, s := range u.Sierra[:2] {
		e.ids.Classes = append(e.ids.Classes, s.Hash)
	}
	ops, worlds := drawScript(rt, e, c)
	c.Labelf("backend-%v", map[bool]string{true: "trie2", false: "legacy"}[e.newState])
	start := world{}
	if e.baseN > 0 {
		bch, _ := node.GetBase(e.baseN, e.newState, u.Net)
		start = world{blocks: append([]*gen.Block{}, bch.Blocks...)}
	}
	before := func(i int) world {
		if i == 0 {
			return start
		}
		return worlds[i-1]
	}
	// ---- uninterrupted run: count commits, record commit range per op
	inner0, done0 := e.freshStore()
	defer done0()
	fs := newFstore(inner0)
	n0 := node.New(e.newState, fs, u.Net)
	commitsAfter := make([]int, len(ops))
	writesAfter := make([]int, len(ops))
	for i, o := range ops {
		if err := apply(n0, o); err != nil {
			c.Violation("op-failed-without-fault", "op %d %s failed without any fault: %v", i, o, err)
		}
		commitsAfter[i] = fs.Commits
		writesAfter[i] = fs.Writes
	}
	W := fs.Commits
	WR := fs.Writes
	final := e.observe(n0)
	if d := node.Diff(final, e.ref(worlds[len(ops)-1]), 5); len(d) > 0 {
		c.Violation("uninterrupted-run-differs-from-reference", "node after the uninterrupted script differs from a node that stored the final chain directly:\n%v", d)
	}
	done0()
	if e.pebble {
		switch {
		case fs.MaxBatchBytes > 12<<20:
			c.Label("largest-commit:>12MiB")
		case fs.MaxBatchBytes > db.DefaultBatchSize:
			c.Label("largest-commit:10-12MiB")
		default:
			c.Label("largest-commit:<10MiB")
		}
	}
	if W == 0 {
		return
	}
	firstCommitOf := func(i int) int {
		if i == 0 {
			return 1
		}
		return commitsAfter[i-1] + 1
	}
	opOf := func(k int) int { // op during which commit k happens
		for i, ca := range commitsAfter {
			if k <= ca {
				return i
			}
		}
		return len(ops) - 1
	}
	multi := false
	for i := range ops {
		prev := 0
		if i > 0 {
			prev = commitsAfter[i-1]
		}
		if commitsAfter[i]-prev > 1 {
			multi = true
		}
	}
	// ---- choose fault points
	var ks []int
	if stats.Thorough() {
		for k := 1; k <= W; k++ {
			ks = append(ks, k)
		}
	} else {
		nk := min(W, 3)
		seen := map[int]bool{}
		if e.pebble {
			nk = min(W, 1) // plus the store of the large block, plus the first commit after the last restart
		}
		// always include the store of the block that declares the large classes
		for i, o := range ops {
			if o.kind == "store" && o.blk == e.bigBlk && !seen[commitsAfter[i]] {
				seen[commitsAfter[i]] = true
				ks = append(ks, commitsAfter[i])
				nk++
				c.Label("fault-at-large-block-store")
			}
		}
		// always include the stores of the last block of a bloom window and of the first block of the next one
		for i, o := range ops {
			if o.kind == "store" && (o.blk.Num()%8192 == 8191 || (o.blk.Num()%8192 == 0 && o.blk.Num() > 0)) && !seen[commitsAfter[i]] {
				seen[commitsAfter[i]] = true
				ks = append(ks, commitsAfter[i])
				nk++
				c.Label("fault-at-window-boundary-store")
			}
		}
		// always include the first commit after the last restart (first access of a lazily initialised filter)
		for i := len(ops) - 1; i >= 0; i-- {
			if (ops[i].kind == "graceful" || ops[i].kind == "ungraceful") && commitsAfter[i] < W {
				seen[commitsAfter[i]+1] = true
				ks = append(ks, commitsAfter[i]+1)
				c.Label("fault-at-first-commit-after-restart")
				break
			}
		}
		for len(ks) < nk {
			k := rapid.IntRange(1, W).Draw(rt, "k")
			if !seen[k] {
				seen[k] = true
				ks = append(ks, k)
			}
		}
	}
	for _, k := range ks {
		i := opOf(k)
		c.Info("fault-points")
		// ================= (a) crash after commit k; (a') on the Pebble store also: crash on the way INTO commit k (the batch
		// holds everything, Write is never called; the image is read back from the real store)
		crash := func(onTheWayIn bool) {
			inner, done := e.freshStore()
			defer done()
			fs := newFstore(inner)
			when := "after"
			if onTheWayIn {
				fs.CrashBefore = k
				when = "on the way into (batch complete, never written)"
				c.Label("crash-on-the-way-into-a-commit")
			} else {
				fs.CrashAfter = k
			}
			nd := node.New(e.newState, fs, u.Net)
			for j := 0; j <= i && !fs.Crashed; j++ {
				_ = apply(nd, ops[j])
			}
			if !fs.Crashed || fs.Image == nil {
				stats.HarnessError("crash point %d of %d not reached", k, W)
			}
			defer fs.ReleaseImage()
			done()
			img := node.New(e.newState, fs.Image, u.Net) // fresh process: fresh caches, filter, floor
			got := e.observe(img)
			wb, wa := before(i), worlds[i]
			db_, da := node.Diff(got, e.ref(wb), 4), node.Diff(got, e.ref(wa), 4)
			if len(db_) > 0 && len(da) > 0 {
				c.Violation("crash-image-inconsistent", "crash %s commit %d (during op %d %s, %s backend): restarted node is neither the chain before the op nor after it.\n vs before: %v\n vs after: %v", when, k, i, ops[i], img.Backend(), db_, da)
			}
			if onTheWayIn && k == firstCommitOf(i) && len(db_) > 0 {
				c.Violation("effects-visible-without-commit", "crash on the way into commit %d, the first commit of op %d %s (%s backend): nothing of the op was committed, but the restarted node differs from the chain before the op:\n%v", k, i, ops[i], img.Backend(), db_)
			}
			reached := wb
			next := i
			if len(da) == 0 {
				reached, next = wa, i+1
			}
			_ = reached
			if ops[i].kind == "store" || ops[i].kind == "revert" {
				c.NonTrivial("crash-during-store-or-revert")
			}
			// the rest of the script runs normally on the recovered node and ends like the uninterrupted run
			for j := next; j < len(ops); j++ {
				if err := apply(img, ops[j]); err != nil {
					c.Violation("op-failed-after-recovery", "after a crash at commit %d (op %d %s) and restart, op %d %s failed: %v", k, i, ops[i], j, ops[j], err)
				}
			}
			if d := node.Diff(e.observe(img), e.ref(worlds[len(ops)-1]), 5); len(d) > 0 {
				c.Violation("recovered-run-differs", "crash %s commit %d (op %d %s) + restart + rest of script: final node differs from the uninterrupted one:\n%v", when, k, i, ops[i], d)
			}
		}
		crash(false)
		if e.pebble {
			crash(true)
		}
		// ================= (b) commit k fails with an error; the SAME Blockchain object continues
		func() {
			inner, done := e.freshStore()
			defer done()
			fs := newFstore(inner)
			fs.FailAt = k
			nd := node.New(e.newState, fs, u.Net)
			var failedErr error
			for j := 0; j <= i; j++ {
				err := apply(nd, ops[j])
				if j == i {
					failedErr = err
				} else if err != nil {
					stats.HarnessError("op %d failed before the fault point: %v", j, err)
				}
			}
			if !fs.Failed {
				stats.HarnessError("fail point %d not reached", k)
			}
			if failedErr == nil {
				c.Violation("failed-commit-not-reported", "commit %d failed (injected) during op %d %s but the call returned nil", k, i, ops[i])
			}
			if ops[i].kind == "graceful" {
				nd.Reopen() // apply() returned before reopening
			}
			// after the failed call the same object answers as the on-disk chain does (= state before the op)
			if d := node.Diff(e.observe(nd), e.ref(before(i)), 5); len(d) > 0 {
				c.Violation("memory-disagrees-with-disk-after-failed-write", "commit %d failed during op %d %s (%s backend); the same Blockchain object now differs from the chain before the op (which is what is on disk):\n%v", k, i, ops[i], nd.Backend(), d)
			}
			if ops[i].kind == "store" || ops[i].kind == "revert" {
				c.NonTrivial("failed-commit-carrying-filter-mutation")
			}
			// the failed op need not be the next thing that happens: a reorg may arrive first (revert the head, store it again)
			if wb := before(i); ops[i].kind == "store" && len(wb.blocks) > e.baseN && len(wb.blocks) > 0 && rapid.Bool().Draw(rt, "detourAfterFailedStore") {
				c.Label("revert-and-restore-between-failed-store-and-retry")
				last := wb.blocks[len(wb.blocks)-1]
				if err := nd.BC.RevertHead(); err != nil {
					c.Violation("op-failed-after-failed-write", "after commit %d failed during op %d %s, RevertHead failed: %v", k, i, ops[i], err)
				}
				w2 := world{blocks: wb.blocks[:len(wb.blocks)-1], l1: wb.l1}
				if d := node.Diff(e.observe(nd), e.ref(w2), 5); len(d) > 0 {
					c.Violation("memory-disagrees-with-disk-after-failed-write", "commit %d failed during op %d %s, then the head was reverted: node differs from the chain without that head:\n%v", k, i, ops[i], d)
				}
				if err := nd.Store(last); err != nil {
					c.Violation("op-failed-after-failed-write", "after commit %d failed during op %d %s and a revert of the head, storing block %d again failed: %v", k, i, ops[i], last.Num(), err)
				}
				if d := node.Diff(e.observe(nd), e.ref(wb), 5); len(d) > 0 {
					c.Violation("memory-disagrees-with-disk-after-failed-write", "commit %d failed during op %d %s, head reverted and stored again: node differs from the chain before the failed op:\n%v", k, i, ops[i], d)
				}
			}
			// retry succeeds and the script ends like the uninterrupted run
			for j := i; j < len(ops); j++ {
				if err := apply(nd, ops[j]); err != nil {
					c.Violation("retry-failed", "after commit %d failed during op %d %s, op %d %s (retry/continuation) failed: %v", k, i, ops[i], j, ops[j], err)
				}
			}
			if d := node.Diff(e.observe(nd), e.ref(worlds[len(ops)-1]), 5); len(d) > 0 {
				c.Violation("retried-run-differs", "failed commit %d (op %d %s) + retry + rest of script: final node differs from the uninterrupted one:\n%v", k, i, ops[i], d)
			}
		}()
	}
	// ================= (c) ONE write into a batch fails (the m-th Put / Delete / DeleteRange staged during the script returns an
	// error and stages nothing); the SAME Blockchain object continues. Whatever the call returns, the node must be the chain
	// before the op or the chain after it - and the chain before it when the call reported the failure.
	var ms []int
	if WR > 0 {
		seenM := map[int]bool{}
		nm := 1 // TestPropFailedWriteInsideOp enumerates all writes of one op; here the faults meet Pebble, the base chain and long-lived objects
		if stats.Thorough() {
			nm = min(WR, 60)
		}
		if e.pebble || e.baseN > 0 {
			nm = min(nm, 1)
		}
		// half of the points inside store / revert ops (the ops with the most writes), the others anywhere
		var heavy []int
		for i, o := range ops {
			if o.kind == "store" || o.kind == "revert" {
				heavy = append(heavy, i)
			}
		}
		for tries := 0; len(ms) < min(nm, WR) && tries < 4*nm; tries++ {
			m := 0
			if len(heavy) > 0 && tries%2 == 0 {
				i := heavy[rapid.IntRange(0, len(heavy)-1).Draw(rt, "heavyOp")]
				lo := 1
				if i > 0 {
					lo = writesAfter[i-1] + 1
				}
				if writesAfter[i] < lo {
					continue
				}
				m = rapid.IntRange(lo, writesAfter[i]).Draw(rt, "mInOp")
			} else {
				m = rapid.IntRange(1, WR).Draw(rt, "m")
			}
			if !seenM[m] {
				seenM[m] = true
				ms = append(ms, m)
			}
		}
	}
	for _, m := range ms {
		i := len(ops) - 1
		for j, wa := range writesAfter {
			if m <= wa {
				i = j
				break
			}
		}
		c.Info("write-fault-points")
		func() {
			inner, done := e.freshStore()
			defer done()
			fs := newFstore(inner)
			fs.FailWriteAt = m
			nd := node.New(e.newState, fs, u.Net)
			var failedErr error
			reached := -1
			for j := 0; j < len(ops) && !fs.FailedWrite; j++ {
				err := apply(nd, ops[j])
				if fs.FailedWrite {
					failedErr, reached = err, j
				} else if err != nil {
					stats.HarnessError("op %d failed before the write-fault point: %v", j, err)
				}
			}
			if reached < 0 {
				// the number of writes of a run is not a function of the script alone (map iteration decides what is skipped as
				// unchanged): the point lies past the end of this run
				c.Label("write-fault-point-not-reached")
				return
			}
			i = reached
			c.Labelf("write-fault-in-%s", ops[i].kind)
			if ops[i].kind == "graceful" {
				nd.Reopen() // apply() returned before reopening
			}
			var got node.Obs
			if stuck, slow := runBounded(func() { got = e.observe(nd) }); stuck != "" {
				c.Violation("reads-never-return-after-failed-write", "write %d (key %x) failed during op %d %s (%s backend), the call returned %v; reading the node afterwards never returns: the goroutine is parked on a lock nobody holds any more\n%s", m, fs.FailedKey, i, ops[i], nd.Backend(), failedErr, stuck)
			} else if slow != "" {
				stats.HarnessError("observation after a failed write still running after %v (not parked on a lock):\n%s", stuckAfter, slow)
			}
			dbf, daf := node.Diff(got, e.ref(before(i)), 5), node.Diff(got, e.ref(worlds[i]), 5)
			if failedErr != nil && len(dbf) > 0 {
				c.Violation("memory-disagrees-with-disk-after-failed-write", "write %d (key %x) failed during op %d %s (%s backend) and the call returned %q; the same Blockchain object now differs from the chain before the op:\n%v", m, fs.FailedKey, i, ops[i], nd.Backend(), failedErr, dbf)
			}
			if failedErr == nil && len(daf) > 0 {
				if len(dbf) == 0 {
					c.Violation("failed-write-not-reported", "write %d (key %x) failed during op %d %s (%s backend); the call returned nil although nothing of the op took effect", m, fs.FailedKey, i, ops[i], nd.Backend())
				}
				c.Violation("failed-write-swallowed", "write %d (key %x) failed during op %d %s (%s backend); the call returned nil and the node is neither the chain before the op nor the chain after it.\n vs before: %v\n vs after: %v", m, fs.FailedKey, i, ops[i], nd.Backend(), dbf, daf)
			}
			if ops[i].kind == "store" || ops[i].kind == "revert" {
				c.NonTrivial("failed-write-inside-store-or-revert")
			}
			next := i
			if failedErr == nil {
				next = i + 1
				c.Label("failed-write-tolerated-by-the-op")
			}
			for j := next; j < len(ops); j++ {
				err, stuck, slow := applyBounded(nd, ops[j])
				if stuck != "" {
					c.Violation("retry-never-returns", "after write %d (key %x) failed during op %d %s (%s backend, call returned %v), op %d %s never returns: its goroutine is parked on a lock nobody holds any more\n%s", m, fs.FailedKey, i, ops[i], nd.Backend(), failedErr, j, ops[j], stuck)
				}
				if slow != "" {
					stats.HarnessError("op %d %s still running after %v (not parked on a lock):\n%s", j, ops[j], stuckAfter, slow)
				}
				if err != nil {
					c.Violation("retry-failed", "after write %d failed during op %d %s, op %d %s (retry/continuation) failed: %v", m, i, ops[i], j, ops[j], err)
				}
			}
			if d := node.Diff(e.observe(nd), e.ref(worlds[len(ops)-1]), 5); len(d) > 0 {
				c.Violation("retried-run-differs", "failed write %d (op %d %s) + retry + rest of script: final node differs from the uninterrupted one:\n%v", m, i, ops[i], d)
			}
		}()
	}
	if multi {
		c.Label("has-multi-commit-op")
	}
	c.Sample(func() any {
		var s []string
		for _, o := range ops {
			s = append(s, o.String())
		}
		return map[string]any{"ops": s, "commits": W, "fault_points": ks, "writes": WR, "write_fault_points": ms, "backend": n0.Backend(), "base": e.baseN, "store": map[bool]string{true: "pebblev2", false: "memory"}[e.pebble], "large_classes": len(e.big), "largest_commit_bytes": fs.MaxBatchBytes}
	})
}

var _ = felt.Zero
var _ db.KeyValueStore = (*fault.Store)(nil)

func TestPropCrashAndFailedCommit(t *testing.T) {
	stats.Check(t, stats.Budget{Quick: 10, Thorough: 25},
		"operation scripts (4-10 ops from store/revert/set L1 head/persist filter snapshot/graceful/ungraceful restart) over generated chains, optionally on the 8188-block base so stores cross the real index-window rollover; the script runs once uninterrupted to count committed writes W, then for k in 1..W (quick: 3 drawn k per case; thorough: all): (a) crash after commit k -> fresh Blockchain on the frozen image must equal (whole Reader API, state at every block, tries' roots, per-address events) a node at the chain before or after the interrupted op, then finish the script and equal the uninterrupted final node; (b) commit k fails -> the call returns an error, the SAME object equals the chain before the op, the retry and the rest of the script succeed and end equal; about a fifth of the cases run on a real Pebble v2 store (scratch directory, crash image = Pebble checkpoint of the real store opened as a new store, references on Pebble too) and one of their first two stores declares 2-4 Sierra classes of 3.5-3.9 MB with valid hashes at once, so that the batch of that Store holds 7-15 MB; its commit is always a fault point and on Pebble every fault point is also run as (a') crash on the way INTO commit k (batch complete, Write never called): the image must be the chain before or after the op, and exactly the chain before it when k is the op's first commit; the head state's answers about the large classes (definition intact, CASM hashes) are part of every observation; non-trivial = the fault hit a store or revert (commit carrying a running-filter mutation)",
		runCase)
}
