# Driver configuration for property C05
PROP = dict(
    pkg="c05", level="fault_enumeration",
    technique="fault-injection PBT: every committed write k of a generated operation script is turned into a crash point and into a failing commit; and every single write one operation stages into its batch into a failing write; differential against fault-free reference nodes",
    level_text=("Fault enumeration per generated case: all commit indices (thorough) or a drawn subset (quick) x {crash image reopened by a fresh "
                "Blockchain, injected commit error with the same object continuing}. Juno's grouping of effects into commits is what is enumerated. "
                "On the in-memory store the batch is atomic by construction; about a fifth of the cases run on a real Pebble v2 store with a block whose "
                "Store batch holds 7-15 MB (2-4 classes of 3.5-3.9 MB declared at once): there the fault wrapper only decides whether Batch.Write is "
                "called, the batch itself is juno's pebblev2 batch, the crash image is a Pebble checkpoint of the real store (tables + WAL as on disk) "
                "opened as a new store, and every fault point is additionally run as a crash on the way INTO the commit (batch complete, never "
                "written) - so anything the store's batch implementation makes durable or visible before Write is in the image and in what the "
                "same Blockchain object reads after a failed commit. Pebble's own WAL/recovery is trusted. "
                "TestPropPruneInterrupted enumerates the committed writes of PruneUpto the same way "
                "(crash image, failing write through the function, failing write under the real pruner service that shares its in-memory "
                "retention floor with the Blockchain); the pruning policy itself is C16's. TestPropFailedWriteInsideOp fails every single write (Put / Delete / DeleteRange into the batch) "
                "of one chosen op in turn: a reported failure must leave the same object at the chain before the op, an unreported one at the chain after it."),
    rule=("scripts of 4-10 ops over store/revert/set-L1-head/persist-snapshot/graceful/ungraceful restart on both state backends, 12% on the 8188-block base "
          "(real window rollover; half of those follow a skeleton: stores reaching/crossing 8192, optional graceful restart, ungraceful restart, then the first "
          "accesses of the lazily initialised running filter); 22% on Pebble v2 with scripts of 3-7 ops in which the first or second store declares every "
          "not yet declared one of 2-4 drawn large Sierra classes (3.5-3.9 MB each, valid program and class hashes; the generator also declares them "
          "singly, deploys and migrates them like any class), largest commit of the case labelled <10 / 10-12 / >12 MiB; "
          "fault points always include the first commit after the last restart, the stores of the "
          "last/first block of a bloom window and the store of the large block (Pebble cases: plus one drawn, others: plus three drawn); on Pebble each "
          "fault point runs as crash-after, crash-on-the-way-in (image must equal the chain before the op when k is the op's first commit) and failed commit; "
          "the head state's view of the large classes (definition intact, CASM hashes) is part of every observation; "
          "after a failed store a drawn detour reverts and re-stores the head before the retry; non-trivial = fault inside a store or revert; distinct = SHA-256 of the op list. "
          "Prune test: chains of 22-40 blocks, optional earlier prune, 1-byte or default batches, fault at every (quick: 4 drawn) committed write; "
          "plus 4 (thorough 60) drawn single staged writes failing; non-trivial = fault strictly inside the prune. "
          "Single-write faults: 1 drawn write per script case, and in TestPropFailedWriteInsideOp all W writes (quick: at most 120) of one store / revert (preferred) / "
          "set-L1-head / snapshot op on a fresh copy of the image the script prefix left, blocks of up to 3 transactions incl. L1 handlers."),
    assumptions=["memory backend image = crash image; on Pebble the image is a checkpoint of the real store (Pebble's WAL replay / recovery trusted)",
                 "pruning policy (which floor is chosen) is exercised in C16, not here"],
    # two runs = two sets of shard processes side by side (the script test alone takes most of the quick budget)
    runs=[dict(run="^TestPropCrashAndFailedCommit", timeout=dict(quick=2700)), dict(run="^Test(PropPruneInterrupted|PropFailedWriteInsideOp|Known)")],
)
