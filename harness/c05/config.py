# Driver configuration for property C05
PROP = dict(
    pkg="c05", level="fault_enumeration",
    technique="fault-injection PBT: every committed write k of a generated operation script is turned into a crash point and into a failing commit; differential against fault-free reference nodes",
    level_text=("Fault enumeration per generated case: all commit indices (thorough) or a drawn subset (quick) x {crash image reopened by a fresh "
                "Blockchain, injected commit error with the same object continuing}. Juno's grouping of effects into commits is what is enumerated; "
                "the storage engine's own atomicity is trusted. TestPropPruneInterrupted enumerates the committed writes of PruneUpto the same way "
                "(crash image, failing write through the function, failing write under the real pruner service that shares its in-memory "
                "retention floor with the Blockchain); the pruning policy itself is C16's."),
    rule=("scripts of 4-10 ops over store/revert/set-L1-head/persist-snapshot/graceful/ungraceful restart on both state backends, 12% on the 8188-block base "
          "(real window rollover; half of those follow a skeleton: stores reaching/crossing 8192, optional graceful restart, ungraceful restart, then the first "
          "accesses of the lazily initialised running filter); fault points always include the first commit after the last restart and the stores of the "
          "last/first block of a bloom window; after a failed store a drawn detour reverts and re-stores the head before the retry; non-trivial = fault inside a store or revert; distinct = SHA-256 of the op list (block hashes included). "
          "Prune test: chains of 22-40 blocks, optional earlier prune, 1-byte or default batches, fault at every (quick: 4 drawn) committed write; "
          "non-trivial = fault strictly inside the prune."),
    assumptions=["memory backend image = crash image (Pebble batch atomicity / WAL trusted)", "pruning policy (which floor is chosen) is exercised in C16, not here"],
    runs=[dict(run="^Test(Prop|Known)")],
)
