package c05

import (
	"fmt"
	"os"
	"path/filepath"
	"sync"

	"github.com/NethermindEth/juno/db"
	"github.com/NethermindEth/juno/db/memory"
	"github.com/NethermindEth/juno/db/pebblev2"
	"github.com/cockroachdb/pebble/v2"

	"verif/harness/internal/fault"
	"verif/harness/internal/stats"
)

// fstore is internal/fault.Store (same counting of committed writes, same CrashAfter / FailAt semantics, same errors) for ANY
// inner store: the crash image of a Pebble store is a Pebble checkpoint of the REAL store (its tables and its write-ahead
// log as they are on disk at the moment of the crash), opened as a store of its own. Whatever the inner store's batch
// implementation did on its own before Write was called (an early commit of a part of the batch, a flush) is therefore
// part of the image, and of what the same Blockchain object reads after a failed commit: the wrapper only decides whether
// Write is CALLED, it does not buffer the batch itself.
//
// CrashBefore = k freezes the image when commit k is about to be applied (the batch is fully populated, Write is never
// called): the process died on its way into the commit. With an atomic batch this image equals the one after commit k-1.
type fstore struct {
	db.KeyValueStore // the inner store; reads pass through
	mu               sync.Mutex
	Commits          int
	CrashAfter       int // freeze an image after this commit (0 = never)
	CrashBefore      int // freeze an image instead of applying this commit (0 = never)
	FailAt           int // this commit returns fault.ErrInjected and is not applied (0 = never)
	Crashed          bool
	Image            db.KeyValueStore
	imageDone        func()
	Failed           bool
	MaxBatchBytes    int // largest Size() of a batch at the time of its Write
	// single writes INTO a batch (Put / Delete / DeleteRange on a batch, also the batches behind Update / Write) are counted
	// too; the FailWriteAt-th of them returns fault.ErrInjected and stages nothing ("error injected into the k-th write")
	Writes      int
	FailWriteAt int
	FailedWrite bool
	FailedKey   []byte
}

func newFstore(inner db.KeyValueStore) *fstore { return &fstore{KeyValueStore: inner} }

// imageOf is what a process opening the store now would find; done releases it.
func imageOf(s db.KeyValueStore) (img db.KeyValueStore, done func()) {
	if m, ok := s.(*memory.Database); ok {
		return m.Copy(), func() {}
	}
	pdb, ok := s.Impl().(*pebble.DB)
	if !ok {
		stats.HarnessError("crash image: store %T is neither the memory store nor Pebble v2", s)
	}
	dir := scratchDir()
	dest := filepath.Join(dir, "db")
	if err := pdb.Checkpoint(dest); err != nil {
		os.RemoveAll(dir)
		stats.HarnessError("crash image: checkpoint: %v", err)
	}
	p, err := pebblev2.New(dest, pebblev2.WithLogger(quietLogger{}), pebblev2.WithCacheSize(scratchCacheMB))
	if err != nil {
		os.RemoveAll(dir)
		stats.HarnessError("crash image: open: %v", err)
	}
	released := false
	return p, func() {
		if !released {
			released = true
			_ = p.Close()
			os.RemoveAll(dir)
		}
	}
}

// ReleaseImage closes the crash image and removes its directory.
func (s *fstore) ReleaseImage() {
	if s.imageDone != nil {
		s.imageDone()
	}
}

func (s *fstore) commit(apply func() error) error {
	s.mu.Lock()
	defer s.mu.Unlock()
	if s.Crashed {
		return fault.ErrCrashed
	}
	s.Commits++
	if s.CrashBefore == s.Commits {
		s.Image, s.imageDone = imageOf(s.KeyValueStore)
		s.Crashed = true
		return fault.ErrCrashed
	}
	if s.FailAt == s.Commits {
		s.Failed = true
		return fault.ErrInjected
	}
	if err := apply(); err != nil {
		return err
	}
	if s.CrashAfter == s.Commits {
		s.Image, s.imageDone = imageOf(s.KeyValueStore)
		s.Crashed = true
	}
	return nil
}

func (s *fstore) Put(k, v []byte) error {
	return s.commit(func() error { return s.KeyValueStore.Put(k, v) })
}
func (s *fstore) Delete(k []byte) error {
	return s.commit(func() error { return s.KeyValueStore.Delete(k) })
}
func (s *fstore) DeleteRange(a, b []byte) error {
	return s.commit(func() error { return s.KeyValueStore.DeleteRange(a, b) })
}

type fbatch struct {
	db.IndexedBatch
	s *fstore
}

// write counts one write into a batch; true = this one fails.
func (b *fbatch) write(k []byte) bool {
	b.s.mu.Lock()
	defer b.s.mu.Unlock()
	b.s.Writes++
	if b.s.FailWriteAt == b.s.Writes {
		b.s.FailedWrite = true
		b.s.FailedKey = append([]byte{}, k...)
		return true
	}
	return false
}

func (b *fbatch) Put(k, v []byte) error {
	if b.write(k) {
		return fault.ErrInjected
	}
	return b.IndexedBatch.Put(k, v)
}

func (b *fbatch) Delete(k []byte) error {
	if b.write(k) {
		return fault.ErrInjected
	}
	return b.IndexedBatch.Delete(k)
}

func (b *fbatch) DeleteRange(a, z []byte) error {
	if b.write(a) {
		return fault.ErrInjected
	}
	return b.IndexedBatch.DeleteRange(a, z)
}

func (b *fbatch) Write() error {
	if n := b.IndexedBatch.Size(); n > b.s.MaxBatchBytes {
		b.s.MaxBatchBytes = n
	}
	err := b.s.commit(func() error { return b.IndexedBatch.Write() })
	if err != nil {
		_ = b.IndexedBatch.Close()
	}
	return err
}

func (s *fstore) NewBatch() db.Batch { return &fbatch{s.KeyValueStore.NewIndexedBatch(), s} }
func (s *fstore) NewBatchWithSize(n int) db.Batch {
	return &fbatch{s.KeyValueStore.NewIndexedBatchWithSize(n), s}
}
func (s *fstore) NewIndexedBatch() db.IndexedBatch {
	return &fbatch{s.KeyValueStore.NewIndexedBatch(), s}
}
func (s *fstore) NewIndexedBatchWithSize(n int) db.IndexedBatch {
	return &fbatch{s.KeyValueStore.NewIndexedBatchWithSize(n), s}
}

func (s *fstore) Update(fn func(db.IndexedBatch) error) error {
	b := s.NewIndexedBatch()
	if err := fn(b); err != nil {
		_ = b.Close()
		return err
	}
	return b.Write()
}

func (s *fstore) Write(fn func(db.Batch) error) error {
	b := s.NewBatch()
	if err := fn(b); err != nil {
		_ = b.Close()
		return err
	}
	return b.Write()
}

func (s *fstore) WithListener(l db.EventListener) db.KeyValueStore { return s }

var _ db.KeyValueStore = (*fstore)(nil)

// ---- Pebble v2 scratch stores

// the node opens its store with a configured block cache (--db-cache-size); Pebble's 8 MB default cannot hold two of the
// data blocks that carry a 3.5-3.9 MB class, and every read next to one would decompress it again
const scratchCacheMB = 64

type quietLogger struct{}

func (quietLogger) Infof(string, ...any)  {}
func (quietLogger) Errorf(string, ...any) {}
func (quietLogger) Fatalf(f string, a ...any) {
	panic(fmt.Sprintf(f, a...))
}

// pebbleScratch opens a Pebble v2 store in a fresh directory (RAM-backed when /dev/shm exists: fsync durability is not under
// test here, the grouping of effects into commits is). The returned function closes the store and removes the directory.
func scratchDir() string {
	base := ""
	if st, err := os.Stat("/dev/shm"); err == nil && st.IsDir() {
		base = "/dev/shm"
	}
	dir, err := os.MkdirTemp(base, "verif-c05-")
	if err != nil {
		stats.HarnessError("mkdtemp: %v", err)
	}
	return dir
}

func pebbleScratch() (db.KeyValueStore, func()) {
	dir := scratchDir()
	p, err := pebblev2.New(filepath.Join(dir, "db"), pebblev2.WithLogger(quietLogger{}), pebblev2.WithCacheSize(scratchCacheMB))
	if err != nil {
		os.RemoveAll(dir)
		stats.HarnessError("pebble open: %v", err)
	}
	done := false
	return p, func() {
		if !done {
			done = true
			_ = p.Close()
			os.RemoveAll(dir)
		}
	}
}
