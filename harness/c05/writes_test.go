package c05

import (
	"testing"

	"github.com/NethermindEth/juno/db/memory"
	"pgregory.net/rapid"

	"verif/harness/internal/gen"
	"verif/harness/internal/node"
	"verif/harness/internal/stats"
)

// "error injected into the k-th WRITE": every single write one operation stages (each Put / Delete / DeleteRange into its batch,
// also through the Update / Write helpers) fails in turn. Added after seed C05-g: TestPropCrashAndFailedCommit fails whole
// commits, and an operation that stages hundreds of writes got a handful of drawn single-write faults per case, so an error
// that is lost for ONE particular write (there: the delete of an L1 handler's tx-hash lookup during a revert) was never hit.
//
// A case draws a script as TestPropCrashAndFailedCommit does, picks one store / revert / set-L1-head / snapshot op of it, runs
// the script up to that op on the memory store and takes the image; the op is then run once on a copy to count its W writes
// and, for every m in 1..W (quick: at most 120 evenly spread + drawn ones), on a fresh copy with a fresh Blockchain object
// where write m fails. Oracle: the call reported the failure => the same object answers as the chain before the op, the retry
// succeeds and gives the chain after the op; the call returned nil => the node is the chain after the op (a tolerated failure
// must not leave anything behind).
func TestPropFailedWriteInsideOp(t *testing.T) {
	stats.Check(t, stats.Budget{Quick: 14, Thorough: 120},
		"scripts as in TestPropCrashAndFailedCommit (memory store, both state backends, blocks of up to 4 transactions incl. L1 handlers, declares, deploys, replaced classes); one store / revert / set-L1-head / persist-snapshot op is chosen (reverts preferred), the script runs up to it, and EVERY write the op stages into its batch (quick: at most 120 per case) fails in turn on a fresh copy of that image: error reported => same object equals the chain before the op (whole Reader API, state, tries' roots, events) and the retry gives the chain after it; nil returned => the node equals the chain after the op; non-trivial = the failing write belongs to a store or a revert",
		func(rt *rapid.T, c *stats.Case) {
			u := gen.NewUniverse(rt)
			e := &env{c: c, u: u, newState: rapid.Bool().Draw(rt, "newState"), refs: map[string]node.Obs{}, ids: &node.Ids{Addrs: u.AllAddrs(), Keys: u.Keys[:min(3, len(u.Keys))]}}
			for _, s := range u.Sierra[:2] {
				e.ids.Classes = append(e.ids.Classes, s.Hash)
			}
			ops, worlds := drawScript(rt, e, c)
			c.Labelf("backend-%v", map[bool]string{true: "trie2", false: "legacy"}[e.newState])
			var cand, reverts []int
			for i, o := range ops {
				switch o.kind {
				case "revert":
					reverts = append(reverts, i)
					cand = append(cand, i)
				case "store", "l1head", "snapshot", "graceful":
					cand = append(cand, i)
				}
			}
			if len(cand) == 0 {
				return
			}
			i := cand[rapid.IntRange(0, len(cand)-1).Draw(rt, "opIndex")]
			if len(reverts) > 0 && rapid.IntRange(0, 2).Draw(rt, "preferRevert") > 0 {
				i = reverts[rapid.IntRange(0, len(reverts)-1).Draw(rt, "revertIndex")]
			}
			c.Labelf("op-%s", ops[i].kind)
			wb := world{}
			if i > 0 {
				wb = worlds[i-1]
			}
			wa := worlds[i]
			mem := memory.New()
			n0 := node.New(e.newState, mem, u.Net)
			for j := 0; j < i; j++ {
				if err := apply(n0, ops[j]); err != nil {
					c.Violation("op-failed-without-fault", "op %d %s failed without any fault: %v", j, ops[j], err)
				}
			}
			// whether the object that runs the op is the one that ran the prefix cannot be had together with a fresh image per
			// fault point; the op runs on a fresh Blockchain over a copy of the image (= an ungraceful restart just before it)
			image := mem.Copy()
			fs := newFstore(image.Copy())
			nd := node.New(e.newState, fs, u.Net)
			if err := apply(nd, ops[i]); err != nil {
				c.Violation("op-failed-without-fault", "op %d %s failed without any fault: %v", i, ops[i], err)
			}
			W := fs.Writes
			if d := node.Diff(e.observe(nd), e.ref(wa), 5); len(d) > 0 {
				c.Violation("uninterrupted-run-differs-from-reference", "node after op %d %s differs from a node that stored the chain directly:\n%v", i, ops[i], d)
			}
			if W == 0 {
				c.Label("op-without-batch-writes")
				return
			}
			limit := 120
			if stats.Thorough() {
				limit = 600
			}
			var ms []int
			if W <= limit {
				for m := 1; m <= W; m++ {
					ms = append(ms, m)
				}
				c.Label("every-write-of-the-op")
			} else {
				seen := map[int]bool{}
				for k := 0; k < limit/2; k++ { // evenly spread
					m := 1 + k*W/(limit/2)
					seen[m] = true
					ms = append(ms, m)
				}
				for len(ms) < limit {
					m := rapid.IntRange(1, W).Draw(rt, "m")
					if !seen[m] {
						seen[m] = true
						ms = append(ms, m)
					}
				}
				c.Label("subset-of-the-writes-of-the-op")
			}
			c.Fp("op %d %s of %d writes", i, ops[i], W)
			tolerated := 0
			for _, m := range ms {
				c.Info("write-fault-points")
				fs := newFstore(image.Copy())
				fs.FailWriteAt = m
				nd := node.New(e.newState, fs, u.Net)
				err := apply(nd, ops[i])
				if !fs.FailedWrite {
					c.Label("write-fault-point-not-reached") // the number of writes is not a function of the script alone
					continue
				}
				if ops[i].kind == "graceful" && err != nil {
					nd.Reopen()
				}
				var got node.Obs
				if stuck, slow := runBounded(func() { got = e.observe(nd) }); stuck != "" {
					c.Violation("reads-never-return-after-failed-write", "write %d of %d (key %x) failed during op %d %s (%s backend), the call returned %v; reading the node afterwards never returns: the goroutine is parked on a lock nobody holds any more\n%s", m, W, fs.FailedKey, i, ops[i], nd.Backend(), err, stuck)
				} else if slow != "" {
					stats.HarnessError("observation after a failed write still running after %v (not parked on a lock):\n%s", stuckAfter, slow)
				}
				if err != nil {
					if d := node.Diff(got, e.ref(wb), 5); len(d) > 0 {
						c.Violation("memory-disagrees-with-disk-after-failed-write", "write %d of %d (key %x) failed during op %d %s (%s backend) and the call returned %q; the same Blockchain object now differs from the chain before the op:\n%v", m, W, fs.FailedKey, i, ops[i], nd.Backend(), err, d)
					}
					err, stuck, slow := applyBounded(nd, ops[i])
					if stuck != "" {
						c.Violation("retry-never-returns", "after write %d of %d (key %x) failed during op %d %s (%s backend) and the call reported it, the retry never returns: its goroutine is parked on a lock nobody holds any more\n%s", m, W, fs.FailedKey, i, ops[i], nd.Backend(), stuck)
					}
					if slow != "" {
						stats.HarnessError("retry of op %d %s still running after %v (not parked on a lock):\n%s", i, ops[i], stuckAfter, slow)
					}
					if err != nil {
						c.Violation("retry-failed", "after write %d of %d (key %x) failed during op %d %s, the retry failed: %v", m, W, fs.FailedKey, i, ops[i], err)
					}
					if d := node.Diff(e.observe(nd), e.ref(wa), 5); len(d) > 0 {
						c.Violation("retried-run-differs", "failed write %d of %d (key %x, op %d %s) + retry: node differs from the chain after the op:\n%v", m, W, fs.FailedKey, i, ops[i], d)
					}
				} else {
					tolerated++
					if d := node.Diff(got, e.ref(wa), 5); len(d) > 0 {
						db_ := node.Diff(got, e.ref(wb), 5)
						c.Violation("failed-write-swallowed", "write %d of %d (key %x) failed during op %d %s (%s backend); the call returned nil but the node is not the chain after the op.\n vs after: %v\n vs before: %v", m, W, fs.FailedKey, i, ops[i], nd.Backend(), d, db_)
					}
				}
			}
			if tolerated > 0 {
				c.Label("failed-write-tolerated-by-the-op")
			}
			if ops[i].kind == "store" || ops[i].kind == "revert" {
				c.NonTrivial("failed-write-inside-store-or-revert")
			}
			c.Sample(func() any {
				var s []string
				for _, o := range ops[:i+1] {
					s = append(s, o.String())
				}
				return map[string]any{"ops_up_to_the_faulted_one": s, "writes_of_the_op": W, "fault_points": len(ms), "backend": nd.Backend(), "tolerated": tolerated}
			})
		})
}
