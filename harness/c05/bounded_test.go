package c05

import (
	"regexp"
	"runtime"
	"strings"
	"time"

	"verif/harness/internal/node"
)

// applyBounded runs op on its own goroutine. "The failed call returns and the next block can be stored normally" also fails
// when a later call NEVER returns (added after seed C05-i: a lock leaked on the error path). The clock only decides WHEN to look:
// after stuckAfter the goroutine's stack is taken twice, a few seconds apart; the verdict "stuck" needs the goroutine to be
// parked on a lock (sync.Mutex / sync.RWMutex) with an identical stack both times - a state it cannot leave unless some other
// goroutine releases the lock, and the harness runs nothing else on the node. Anything else (slow, still running) is reported
// as "slow", which the callers turn into a harness error (no verdict), never into a violation.
const stuckAfter = 90 * time.Second

var lockWait = regexp.MustCompile(`\[(sync\.Mutex\.Lock|sync\.RWMutex\.Lock|sync\.RWMutex\.RLock|semacquire)[,\]]`)

func applyBounded(n *node.Node, o op) (err error, stuck, slow string) {
	stuck, slow = runBounded(func() { err = apply(n, o) })
	return
}

// runBounded runs f on its own goroutine and waits for it; see applyBounded.
func runBounded(f func()) (stuck, slow string) {
	done := make(chan struct{})
	marker := make(chan uint64, 1)
	go func() {
		marker <- goid()
		f()
		close(done)
	}()
	id := <-marker
	select {
	case <-done:
		return "", ""
	case <-time.After(stuckAfter):
	}
	s1 := stackOf(id)
	select {
	case <-done:
		return "", ""
	case <-time.After(5 * time.Second):
	}
	s2 := stackOf(id)
	if s1 != "" && body(s1) == body(s2) && lockWait.MatchString(firstLine(s1)) && lockWait.MatchString(firstLine(s2)) {
		return s2, ""
	}
	return "", "still running:\n" + s2
}

func firstLine(s string) string {
	if i := strings.IndexByte(s, '\n'); i >= 0 {
		return s[:i]
	}
	return s
}

// body is the stack without its header line (the header carries the minutes the goroutine has been waiting).
func body(s string) string {
	if i := strings.IndexByte(s, '\n'); i >= 0 {
		return s[i+1:]
	}
	return ""
}

func goid() uint64 {
	var buf [64]byte
	n := runtime.Stack(buf[:], false)
	var id uint64
	for _, ch := range strings.TrimPrefix(string(buf[:n]), "goroutine ") {
		if ch < '0' || ch > '9' {
			break
		}
		id = id*10 + uint64(ch-'0')
	}
	return id
}

func stackOf(id uint64) string {
	buf := make([]byte, 8<<20)
	buf = buf[:runtime.Stack(buf, true)]
	prefix := "goroutine " + itoa(id) + " "
	for _, g := range strings.Split(string(buf), "\n\n") {
		if strings.HasPrefix(g, prefix) {
			return g
		}
	}
	return ""
}

func itoa(v uint64) string {
	if v == 0 {
		return "0"
	}
	var b [20]byte
	i := len(b)
	for v > 0 {
		i--
		b[i] = byte('0' + v%10)
		v /= 10
	}
	return string(b[i:])
}
