package c05

import (
	"context"
	"fmt"
	"testing"
	"time"

	"github.com/NethermindEth/juno/blockchain"
	"github.com/NethermindEth/juno/core"
	"github.com/NethermindEth/juno/core/felt"
	"github.com/NethermindEth/juno/feed"
	"github.com/NethermindEth/juno/utils/log"
	"github.com/NethermindEth/juno/db"
	"github.com/NethermindEth/juno/db/memory"
	"github.com/NethermindEth/juno/pruner"
	"pgregory.net/rapid"

	"verif/harness/internal/fault"
	"verif/harness/internal/gen"
	"verif/harness/internal/node"
	"verif/harness/internal/stats"
)

func prunedNode(d db.KeyValueStore, u *gen.Universe) *node.Node {
	floor, err := pruner.NewRetentionFloor(d)
	if err != nil {
		stats.HarnessError("retention floor: %v", err)
	}
	return node.New(false, d, u.Net,
		blockchain.WithRunningEventFilterInitializer(pruner.InitializeRunningEventFilter),
		blockchain.WithRetentionFloor(floor))
}

// servicePrune runs the real pruner.Pruner (as node.go wires it: one RetentionFloor shared with the Blockchain) on a store
// whose k-th committed write fails, delivers one L1 head and waits for the service to report the prune or its failure.
// ok=false when the L1 head does not lead to a prune attempt (nothing to check).
func servicePrune(c *stats.Case, fs *fault.Store, u *gen.Universe, k int, l1 uint64, retained uint64, batch int) (*node.Node, bool) {
	if h, err := core.GetChainHeight(fs); err != nil || l1 >= h {
		return nil, false // an L1 head at or above the local head does not drive a prune
	}
	floor, err := pruner.NewRetentionFloor(fs)
	if err != nil {
		stats.HarnessError("retention floor: %v", err)
	}
	nd := node.New(false, fs, u.Net,
		blockchain.WithRunningEventFilterInitializer(pruner.InitializeRunningEventFilter),
		blockchain.WithRetentionFloor(floor))
	l2f, l1f := feed.New[*core.Block](), feed.New[*core.L1Head]()
	done := make(chan error, 4)
	p := pruner.New(fs, floor, retained, l2f.Subscribe(), l1f.Subscribe(), log.NewNopZapLogger(),
		pruner.WithTargetBatchByteSize(batch),
		pruner.WithListener(&pruner.SelectiveListener{
			OnPruneCb:      func(uint64, uint64, time.Duration) { done <- nil },
			OnPruneErrorCb: func(err error) { done <- err },
		}))
	ctx, cancel := context.WithCancel(context.Background())
	exited := make(chan struct{})
	go func() { _ = p.Run(ctx); close(exited) }()
	fs.Commits, fs.FailAt = 0, k
	l1f.Send(&core.L1Head{BlockNumber: l1, BlockHash: new(felt.Felt), StateRoot: new(felt.Felt)})
	var perr error
	select {
	case perr = <-done:
	case <-time.After(60 * time.Second):
		cancel()
		stats.HarnessError("pruner service did not report within 60s")
	}
	cancel()
	<-exited
	fs.FailAt = 0
	if perr == nil {
		c.Violation("failed-commit-not-reported", "write %d failed (injected) during the service's prune but the pruner reported success", k)
	}
	c.Label("service-prune-failed-write")
	return nd, true
}

// belowFloorNeverWrong: a block below the on-disk retention floor f may be reported as pruned, but an answer that is
// given must be the right one (the in-memory retention floor must not lag behind what a failed prune already deleted).
func belowFloorNeverWrong(c *stats.Case, where string, nd, twin *node.Node, u *gen.Universe, f uint64) {
	for b := uint64(0); b < f; b++ {
		sr, closer, err := nd.BC.StateAtBlockNumber(b)
		if err != nil {
			continue
		}
		tr, tcloser, terr := twin.BC.StateAtBlockNumber(b)
		if terr != nil {
			stats.HarnessError("twin state at %d: %v", b, terr)
		}
		for _, a := range u.AllAddrs() {
			a := a
			for _, key := range u.Keys {
				key := key
				got, err := sr.ContractStorage(&a, &key)
				want, werr := tr.ContractStorage(&a, &key)
				if err == nil && werr == nil && !got.Equal(&want) {
					c.Violation("pruned-block-answered-wrongly", "%s: state at block %d (below the on-disk floor %d) is served, and storage %s[%s] = %s, the unpruned twin has %s", where, b, f, a.ShortString(), key.ShortString(), got.String(), want.String())
				}
			}
			gn, err := sr.ContractNonce(&a)
			wn, werr := tr.ContractNonce(&a)
			if err == nil && werr == nil && !gn.Equal(&wn) {
				c.Violation("pruned-block-answered-wrongly", "%s: state at block %d (below the on-disk floor %d): nonce of %s = %s, twin %s", where, b, f, a.ShortString(), gn.String(), wn.String())
			}
			gc, err := sr.ContractClassHash(&a)
			wc, werr := tr.ContractClassHash(&a)
			if err == nil && werr == nil && !gc.Equal(&wc) {
				c.Violation("pruned-block-answered-wrongly", "%s: state at block %d (below the on-disk floor %d): class hash of %s = %s, twin %s", where, b, f, a.ShortString(), gc.String(), wc.String())
			}
		}
		_ = closer()
		_ = tcloser()
	}
}

// idsFrom restricts the observation universe to blocks >= floor.
func idsFrom(u *gen.Universe, blocks []*gen.Block, floor uint64) *node.Ids {
	ids := &node.Ids{Addrs: u.AllAddrs(), Keys: u.Keys[:min(2, len(u.Keys))], MinNumber: floor}
	for _, b := range blocks {
		if b.Num() >= floor {
			ids.AddBlock(b)
		}
	}
	return ids
}

// TestPropPruneInterrupted: a prune interrupted after any of its committed writes (crash) or by a failing write leaves
// every block at or above the (possibly advanced) retention floor fully readable and identical to an unpruned twin;
// re-running the prune succeeds and ends like the uninterrupted prune; the chain still extends.
func TestPropPruneInterrupted(t *testing.T) {
	stats.Check(t, stats.Budget{Quick: 6, Thorough: 60},
		"chain of 22-40 generated blocks on a pruning node (legacy backend, pruner's filter initializer and retention floor) and an unpruned twin; optional first complete prune, then PruneUpto(end, batch size 1 byte or default) is run once to count its committed writes W and for every k<=W (quick: 4 drawn) re-run with (a) crash after write k -> fresh Blockchain on the image, (b) write k fails -> same object, (d) the m-th write STAGED into a batch fails (4 drawn, thorough 60) -> same object; oracle: OldestRetainedBlock f of the image; Reader answers and state for every block >= f equal the twin's; re-running the prune succeeds and the node then equals the uninterrupted prune observationally; the next block stores; non-trivial = k strictly inside the prune (not its last write)",
		func(rt *rapid.T, c *stats.Case) {
			u := gen.NewUniverse(rt)
			ch := gen.NewChain(u, gen.Opts{MaxTxs: 2, MaxEvents: 2})
			n := rapid.IntRange(22, 40).Draw(rt, "nblocks")
			for i := 0; i < n; i++ {
				ch.Next(rt)
			}
			extra := ch.Draw(rt) // the block to store afterwards
			end1 := uint64(rapid.IntRange(0, 8).Draw(rt, "end1"))
			end2 := uint64(rapid.IntRange(int(end1)+1, n-1).Draw(rt, "end2"))
			batch := rapid.SampledFrom([]int{1, 1, db.DefaultBatchSize}).Draw(rt, "batch")
			retained := uint64(rapid.IntRange(0, max(0, min(3, n-2-int(end2)))).Draw(rt, "retained"))
			c.Fp("n%d e1:%d e2:%d b%d %s", n, end1, end2, batch, ch.Blocks[n-1].B.Hash.String())
			if end2-end1 > 10 {
				c.Label("prune-advances-more-than-block-hash-lag")
			}
			twin := node.New(false, nil, u.Net)
			for _, b := range ch.Blocks {
				if err := twin.Store(b); err != nil {
					stats.HarnessError("twin: %v", err)
				}
			}
			build := func() *memory.Database {
				d := memory.New()
				nd := prunedNode(d, u)
				for _, b := range ch.Blocks {
					if err := nd.Store(b); err != nil {
						stats.HarnessError("pruned node store: %v", err)
					}
				}
				if end1 > 0 {
					if _, _, err := pruner.PruneUpto(context.Background(), d, end1, batch); err != nil {
						c.Violation("prune-failed-without-fault", "first PruneUpto(%d): %v", end1, err)
					}
				}
				return d
			}
			checkAgainstTwin := func(where string, nd *node.Node) uint64 {
				f, err := pruner.OldestRetainedBlock(nd.DB)
				if err != nil {
					c.Violation("oldest-retained", "%s: OldestRetainedBlock: %v", where, err)
				}
				if f > end2 {
					c.Violation("floor-beyond-target", "%s: oldest retained block %d is above the prune target %d", where, f, end2)
				}
				ids := idsFrom(u, ch.Blocks, f)
				ids.MaxNumber = uint64(n - 1)
				if d := node.Diff(nd.Observe(ids), twin.Observe(ids), 5); len(d) > 0 {
					c.Violation("retained-block-damaged", "%s: blocks >= retention floor %d differ from the unpruned twin:\n%v", where, f, d)
				}
				return f
			}
			// uninterrupted reference
			fs := fault.New(build())
			if _, _, err := pruner.PruneUpto(context.Background(), fs, end2, batch); err != nil {
				c.Violation("prune-failed-without-fault", "PruneUpto(%d): %v", end2, err)
			}
			W := fs.Commits
			WR := fs.Writes
			refNode := prunedNode(fs.KeyValueStore, u)
			refFloor := checkAgainstTwin("uninterrupted prune", refNode)
			var ks []int
			if stats.Thorough() {
				for k := 1; k <= W; k++ {
					ks = append(ks, k)
				}
			} else {
				seen := map[int]bool{}
				for len(ks) < min(W, 4) {
					k := rapid.IntRange(1, W).Draw(rt, "k")
					if !seen[k] {
						seen[k] = true
						ks = append(ks, k)
					}
				}
			}
			finish := func(where string, nd *node.Node) {
				if _, _, err := pruner.PruneUpto(context.Background(), nd.DB, end2, batch); err != nil {
					c.Violation("prune-rerun-failed", "%s: re-running the interrupted prune failed: %v", where, err)
				}
				f := checkAgainstTwin(where+" after re-run", nd)
				if f != refFloor {
					c.Violation("prune-rerun-floor", "%s: floor after re-run %d, uninterrupted prune reached %d", where, f, refFloor)
				}
				ids := idsFrom(u, ch.Blocks, refFloor)
				ids.MaxNumber = uint64(n - 1)
				if d := node.Diff(nd.Observe(ids), refNode.Observe(ids), 5); len(d) > 0 {
					c.Violation("prune-rerun-differs", "%s: node after re-running the prune differs from the uninterrupted prune:\n%v", where, d)
				}
				fresh := prunedNode(nd.DB, u) // ungraceful restart, then the chain must still extend
				if err := fresh.Store(gen.CloneBlock(extra)); err != nil {
					c.Violation("cannot-extend-after-prune", "%s: storing the next block failed: %v", where, err)
				}
				_ = fresh.BC.RevertHead()
			}
			for _, k := range ks {
				c.Info("prune-fault-points")
				if k < W {
					c.NonTrivial("fault-strictly-inside-prune")
				}
				{ // (a) crash
					fs := fault.New(build())
					fs.CrashAfter = k
					_, _, _ = pruner.PruneUpto(context.Background(), fs, end2, batch)
					if fs.Image == nil {
						stats.HarnessError("crash point %d/%d not reached", k, W)
					}
					img := prunedNode(fs.Image, u)
					where := fmt.Sprintf("crash after write %d of %d of PruneUpto(%d) (floor before %d, batch %d)", k, W, end2, end1, batch)
					checkAgainstTwin(where, img)
					finish(where, img)
				}
				{ // (b) failing write, same process
					inner := build()
					fs := fault.New(inner)
					fs.FailAt = k
					nd := prunedNode(fs, u)
					_, _, err := pruner.PruneUpto(context.Background(), fs, end2, batch)
					if err == nil {
						c.Violation("failed-commit-not-reported", "write %d of PruneUpto failed (injected) but PruneUpto returned nil", k)
					}
					where := fmt.Sprintf("write %d of %d of PruneUpto(%d) failed", k, W, end2)
					checkAgainstTwin(where, nd)
					finish(where, nd)
				}
				{ // (c) failing write under the real pruner service, which shares its in-memory retention floor with the Blockchain
					inner := build()
					fs := fault.New(inner)
					where := fmt.Sprintf("write %d of %d failed while the pruner service handled L1 head %d (retained %d)", k, W, end2+retained, retained)
					nd, ok := servicePrune(c, fs, u, k, end2+retained, retained, batch)
					if ok {
						// the service raises its in-memory floor to the target before it writes: blocks below the target may be
						// reported as pruned although still on disk, but whatever is answered must be right
						ids := idsFrom(u, ch.Blocks, end2)
						ids.MaxNumber = uint64(n - 1)
						if d := node.Diff(nd.Observe(ids), twin.Observe(ids), 5); len(d) > 0 {
							c.Violation("retained-block-damaged", "%s: blocks >= prune target %d differ from the unpruned twin:\n%v", where, end2, d)
						}
						belowFloorNeverWrong(c, where, nd, twin, u, end2)
						finish(where, nd)
					}
				}
			}
			// (d) ONE write into a batch of the prune fails (the k-th write, not the k-th commit); same process
			nm := min(WR, 4)
			if stats.Thorough() {
				nm = min(WR, 60)
			}
			seenM := map[int]bool{}
			for len(seenM) < nm {
				m := rapid.IntRange(1, WR).Draw(rt, "m")
				if seenM[m] {
					continue
				}
				seenM[m] = true
				c.Info("prune-single-write-fault-points")
				inner := build()
				fs := fault.New(inner)
				fs.FailWriteAt = m
				nd := prunedNode(fs, u)
				_, _, err := pruner.PruneUpto(context.Background(), fs, end2, batch)
				if !fs.FailedWrite {
					c.Label("prune-write-fault-point-not-reached")
					continue
				}
				if err == nil {
					c.Label("prune-tolerated-a-failed-write")
				}
				where := fmt.Sprintf("staged write %d of %d of PruneUpto(%d) failed (PruneUpto returned %v)", m, WR, end2, err)
				checkAgainstTwin(where, nd)
				finish(where, nd)
			}
			c.Sample(func() any {
				return map[string]any{"blocks": n, "first_prune_to": end1, "prune_to": end2, "batch": batch, "writes": W, "fault_points": ks, "staged_writes": WR}
			})
		})
}
