# Driver configuration for property C08
PROP = dict(
    pkg="c08", level="exploration",
    technique="model-based PBT over the real JSON-RPC stack: identity-bearing fields rendered independently from the generated chain / abstract state, error-code oracle, route-consistency and cross-version (v0.8/v0.9/v0.10) differential",
    level_text=("Exploration: generated chain trees with reverts and L1-head positions are served through the real method tables of three API versions on "
                "jsonrpc servers; requests are JSON text. Identity fields are compared with the model, all other fields by route consistency and "
                "agreement between versions on shared keys."),
    rule=("prefix 1-3 + reverted fork 0-2 + fork 0-3 blocks, both backends, L1 head absent/behind/equal/ahead; per case every special block id and a drawn "
          "subset of number/hash ids x 9 block-level methods + nonce/class hash/storage/class reads + tx by (id,index) + tx/receipt/status by hash for "
          "existing, reverted and random hashes; getClassAt (route-consistent with getClass of getClassHashAt), Cairo 0 classes, and on v0.10 getStorageAt with "
          "INCLUDE_LAST_UPDATE_BLOCK bounded by the chain's diffs. Non-trivial = a query resolved through l1_accepted, a reverted hash or a historical block; distinct = "
          "SHA-256 of shape, L1 head and head hash."),
    assumptions=["no Cairo execution (call/estimate/trace out of scope)", "pre-confirmed ids are not queried (no pre-confirmed chain in this harness)",
                 "fields other than the identity-bearing ones are checked by route consistency and version agreement only"],
    runs=[dict(run="^Test(Prop|Known)")],
)
