# Driver configuration for property C08
PROP = dict(
    pkg="c08", level="exploration",
    technique="model-based PBT over the real JSON-RPC stack on both stores (in-memory and Pebble v2) and both state backends: identity-bearing fields rendered independently from the generated chain / abstract state, error-code oracle, route-consistency and cross-version (v0.8/v0.9/v0.10) differential",
    level_text=("Exploration: generated chain trees with reverts and L1-head positions are stored on the in-memory store or (2 of 5 cases) on a real Pebble v2 "
                "database in a scratch directory, optionally restarted (new Blockchain + handlers; on Pebble also database closed and reopened), and served "
                "through the real method tables of three API versions on jsonrpc servers; requests are JSON text. Identity fields are compared with the model, "
                "all other fields by route consistency and agreement between versions on shared keys. On Pebble the history lookups, prefix iterations and "
                "snapshots of the read path run against the production store's bounded iterators instead of the memory store's prefix filter."),
    rule=("prefix 1-3 + reverted fork 0-2 + fork 0-3 blocks, both state backends x store memory/Pebble v2 (40%), restart before serving in 1/4 of the cases "
          "(Pebble: half of them with a real close/reopen), L1 head absent/behind/equal/ahead; per case every special block id and a drawn "
          "subset of number/hash ids x 9 block-level methods + nonce/class hash/storage/class reads + tx by (id,index) + tx/receipt/status by hash for "
          "existing, reverted and random hashes; getClassAt (route-consistent with getClass of getClassHashAt), Cairo 0 classes, and on v0.10 getStorageAt with "
          "INCLUDE_LAST_UPDATE_BLOCK bounded by the chain's diffs. Dense state sweep (every Pebble case, 1/4 of the memory cases, also before the reorg): every "
          "canonical block through a drawn id form (number, hash, latest, l1_accepted) x every universe address (getNonce, getClassHashAt) x every universe slot "
          "(getStorageAt, a third of them on v0.10 with the last-update block) through a drawn API version, same model oracles; labels count the reads at a block "
          "where the NEXT contract/slot (in key order) got its first history record while the queried item has none at or after it (and the after-variant for the "
          "legacy layout). Non-trivial = a query resolved through l1_accepted, a reverted hash or a historical block, or such a neighbour-record read; distinct = "
          "SHA-256 of backend, store, shape, L1 head and head hash."),
    assumptions=["no Cairo execution (call/estimate/trace out of scope)", "pre-confirmed ids are not queried (no pre-confirmed chain in this harness)",
                 "fields other than the identity-bearing ones are checked by route consistency and version agreement only",
                 "the Pebble scratch directory is RAM-backed (/dev/shm) when available: fsync durability itself is not under test, and a restart is a clean "
                 "close/reopen (no crash images; those belong to C05)",
                 "chains are 1-6 blocks long: Pebble compactions / multi-level reads are not reached"],
    runs=[dict(run="^Test(Prop|Known)")],
)
