// Package c08: JSON-RPC read methods answer from the chain the node actually holds (property C08).
package c08

import (
	"context"
	"encoding/json"
	"fmt"
	"os"
	"path/filepath"
	"reflect"
	"sort"
	"strings"
	"testing"

	"github.com/NethermindEth/juno/core"
	"github.com/NethermindEth/juno/core/felt"
	"github.com/NethermindEth/juno/db"
	"github.com/NethermindEth/juno/db/pebblev2"
	"github.com/NethermindEth/juno/jsonrpc"
	"github.com/NethermindEth/juno/rpc"
	rpcv10 "github.com/NethermindEth/juno/rpc/v10"
	rpcv8 "github.com/NethermindEth/juno/rpc/v8"
	rpcv9 "github.com/NethermindEth/juno/rpc/v9"
	"github.com/NethermindEth/juno/sync"
	"github.com/NethermindEth/juno/utils/log"
	"pgregory.net/rapid"

	"verif/harness/internal/gen"
	"verif/harness/internal/node"
	"verif/harness/internal/ref"
	"verif/harness/internal/stats"
)

func TestMain(m *testing.M) { stats.Main(m) }

type endpoint struct {
	version string
	srv     *jsonrpc.Server
}

func newEndpoints(n *node.Node) []endpoint {
	logger := log.NewNopZapLogger()
	h := rpc.New(n.BC, &sync.NoopSynchronizer{}, nil, "verif", logger, n.Net)
	mk := func(version string, methods []jsonrpc.Method, v jsonrpc.Validator) endpoint {
		srv := jsonrpc.NewServer(1, logger).WithValidator(v)
		if err := srv.RegisterMethods(methods...); err != nil {
			stats.HarnessError("RegisterMethods %s: %v", version, err)
		}
		return endpoint{version: version, srv: srv}
	}
	m10, _ := h.MethodsV0_10()
	m9, _ := h.MethodsV0_9()
	m8, _ := h.MethodsV0_8()
	return []endpoint{mk("v0_10", m10, rpcv10.Validator()), mk("v0_9", m9, rpcv9.Validator()), mk("v0_8", m8, rpcv8.Validator())}
}

type response struct {
	Result any `json:"result"`
	Error  *struct {
		Code    int    `json:"code"`
		Message string `json:"message"`
	} `json:"error"`
	raw string
}

func (r response) code() int {
	if r.Error == nil {
		return 0
	}
	return r.Error.Code
}

func (e endpoint) call(c *stats.Case, method string, params ...any) response {
	pb, err := json.Marshal(params)
	if err != nil {
		stats.HarnessError("marshal params: %v", err)
	}
	req := fmt.Sprintf(`{"jsonrpc":"2.0","id":1,"method":%q,"params":%s}`, method, pb)
	var out []byte
	func() {
		defer func() {
			if p := recover(); p != nil {
				c.Violation("rpc-panic", "%s %s panicked: %v", e.version, req, p)
			}
		}()
		out, _, err = e.srv.HandleReader(context.Background(), strings.NewReader(req))
	}()
	if err != nil {
		c.Violation("rpc-transport-error", "%s %s: %v", e.version, req, err)
	}
	var r response
	dec := json.NewDecoder(strings.NewReader(string(out)))
	dec.UseNumber()
	if err := dec.Decode(&r); err != nil {
		c.Violation("rpc-unparsable-response", "%s %s: %q", e.version, req, out)
	}
	r.raw = string(out)
	if (r.Error == nil) == (r.Result == nil) && !strings.Contains(r.raw, `"result":null`) {
		c.Violation("rpc-neither-result-nor-error", "%s %s: %s", e.version, req, out)
	}
	return r
}

const (
	codeContractNotFound = 20
	codeBlockNotFound    = 24
	codeInvalidTxIndex   = 27
	codeClassNotFound    = 28
	codeTxNotFound       = 29
)

// ---- comparing JSON values with model values

func asFelt(v any) (*felt.Felt, bool) {
	s, ok := v.(string)
	if !ok {
		return nil, false
	}
	f, err := new(felt.Felt).SetString(s)
	if err != nil {
		return nil, false
	}
	return f, true
}

func feltIs(v any, want *felt.Felt) bool {
	f, ok := asFelt(v)
	if want == nil {
		return !ok || f.IsZero()
	}
	return ok && f.Equal(want)
}

func feltsAre(v any, want []felt.Felt) bool {
	arr, ok := v.([]any)
	if !ok {
		return len(want) == 0 && v == nil
	}
	if len(arr) != len(want) {
		return false
	}
	for i := range arr {
		if !feltIs(arr[i], &want[i]) {
			return false
		}
	}
	return true
}

func numIs(v any, want uint64) bool {
	switch x := v.(type) {
	case json.Number:
		return x.String() == fmt.Sprint(want)
	case string: // hex quantities
		f, ok := asFelt(x)
		return ok && f.Equal(gen.FP(want))
	}
	return false
}

type world struct {
	c        *stats.Case
	u        *gen.Universe
	n        *node.Node
	chain    []*gen.Block // canonical
	reverted []*gen.Block
	l1       *core.L1Head
	eps      []endpoint
	dense    bool // additionally read every contract/slot at every block (stateSweep)
}

func (w *world) head() *gen.Block { return w.chain[len(w.chain)-1] }

func (w *world) finality(num uint64) string {
	if w.l1 != nil && num <= w.l1.BlockNumber {
		return "ACCEPTED_ON_L1"
	}
	return "ACCEPTED_ON_L2"
}

// blockIDs returns (json id, model block or nil) pairs to query.
type bid struct {
	id    any
	blk   *gen.Block
	label string
	minV  int // lowest API version supporting the id form (8, 9, 10)
}

func (w *world) blockIDs(t *rapid.T) []bid {
	var out []bid
	for _, b := range w.chain {
		out = append(out, bid{map[string]any{"block_number": b.Num()}, b, "number", 8}, bid{map[string]any{"block_hash": b.B.Hash.String()}, b, "hash", 8})
	}
	out = append(out, bid{"latest", w.head(), "latest", 8})
	out = append(out, bid{map[string]any{"block_number": uint64(len(w.chain))}, nil, "one-past-head", 8})
	for _, b := range w.reverted {
		out = append(out, bid{map[string]any{"block_hash": b.B.Hash.String()}, nil, "reverted-hash", 8})
	}
	rnd := gen.NonZeroFelt().Draw(t, "randomhash") // hash 0 is special-cased by the state readers (empty pre-genesis state)
	out = append(out, bid{map[string]any{"block_hash": rnd.String()}, nil, "random-hash", 8})
	var l1blk *gen.Block
	if w.l1 != nil {
		n := min(w.l1.BlockNumber, w.head().Num())
		l1blk = w.chain[n]
	}
	out = append(out, bid{"l1_accepted", l1blk, "l1_accepted", 9})
	return out
}

var txType = map[string]string{"*core.InvokeTransaction": "INVOKE", "*core.DeclareTransaction": "DECLARE", "*core.DeployAccountTransaction": "DEPLOY_ACCOUNT",
	"*core.L1HandlerTransaction": "L1_HANDLER", "*core.DeployTransaction": "DEPLOY"}

// checkTx compares the identity-bearing fields of a transaction object with the model transaction.
func (w *world) checkTx(where string, got any, tx core.Transaction) {
	c := w.c
	m, ok := got.(map[string]any)
	if !ok {
		c.Violation("tx-shape", "%s: transaction is not an object: %v", where, got)
	}
	req := func(key string, okk bool) {
		if !okk {
			c.Violation("tx-field", "%s: field %q = %v does not match the stored transaction %s (%T v%s)", where, key, m[key], tx.Hash().String(), tx, tx.TxVersion().String())
		}
	}
	req("transaction_hash", feltIs(m["transaction_hash"], tx.Hash()))
	req("type", m["type"] == txType[fmt.Sprintf("%T", tx)])
	req("version", feltIs(m["version"], tx.TxVersion().AsFelt()))
	switch x := tx.(type) {
	case *core.InvokeTransaction:
		req("calldata", feltsAre(m["calldata"], x.CallData))
		req("signature", feltsAre(m["signature"], x.TransactionSignature))
		switch {
		case x.Version.Is(0):
			req("contract_address", feltIs(m["contract_address"], x.ContractAddress))
			req("entry_point_selector", feltIs(m["entry_point_selector"], x.EntryPointSelector))
			req("max_fee", feltIs(m["max_fee"], x.MaxFee))
		case x.Version.Is(1):
			req("sender_address", feltIs(m["sender_address"], x.SenderAddress))
			req("nonce", feltIs(m["nonce"], x.Nonce))
			req("max_fee", feltIs(m["max_fee"], x.MaxFee))
		default:
			req("sender_address", feltIs(m["sender_address"], x.SenderAddress))
			req("nonce", feltIs(m["nonce"], x.Nonce))
			req("tip", numIs(m["tip"], x.Tip))
			req("paymaster_data", feltsAre(m["paymaster_data"], x.PaymasterData))
			req("account_deployment_data", feltsAre(m["account_deployment_data"], x.AccountDeploymentData))
			req("nonce_data_availability_mode", m["nonce_data_availability_mode"] == daName(x.NonceDAMode))
			req("fee_data_availability_mode", m["fee_data_availability_mode"] == daName(x.FeeDAMode))
			w.checkBounds(where, m["resource_bounds"], x.ResourceBounds)
		}
	case *core.DeclareTransaction:
		req("class_hash", feltIs(m["class_hash"], x.ClassHash))
		req("sender_address", feltIs(m["sender_address"], x.SenderAddress))
		req("signature", feltsAre(m["signature"], x.TransactionSignature))
		if !x.Version.Is(0) {
			req("nonce", feltIs(m["nonce"], x.Nonce))
		}
		if x.Version.Is(2) || x.Version.Is(3) {
			req("compiled_class_hash", feltIs(m["compiled_class_hash"], x.CompiledClassHash))
		}
		if x.Version.Is(3) {
			req("tip", numIs(m["tip"], x.Tip))
			w.checkBounds(where, m["resource_bounds"], x.ResourceBounds)
		} else {
			req("max_fee", feltIs(m["max_fee"], x.MaxFee))
		}
	case *core.DeployAccountTransaction:
		req("class_hash", feltIs(m["class_hash"], x.ClassHash))
		req("contract_address_salt", feltIs(m["contract_address_salt"], x.ContractAddressSalt))
		req("constructor_calldata", feltsAre(m["constructor_calldata"], x.ConstructorCallData))
		req("signature", feltsAre(m["signature"], x.TransactionSignature))
		req("nonce", feltIs(m["nonce"], x.Nonce))
		if x.Version.Is(3) {
			req("tip", numIs(m["tip"], x.Tip))
			w.checkBounds(where, m["resource_bounds"], x.ResourceBounds)
		} else {
			req("max_fee", feltIs(m["max_fee"], x.MaxFee))
		}
	case *core.L1HandlerTransaction:
		req("contract_address", feltIs(m["contract_address"], x.ContractAddress))
		req("entry_point_selector", feltIs(m["entry_point_selector"], x.EntryPointSelector))
		req("nonce", feltIs(m["nonce"], x.Nonce))
		req("calldata", feltsAre(m["calldata"], x.CallData))
	case *core.DeployTransaction:
		req("class_hash", feltIs(m["class_hash"], x.ClassHash))
		req("contract_address_salt", feltIs(m["contract_address_salt"], x.ContractAddressSalt))
		req("constructor_calldata", feltsAre(m["constructor_calldata"], x.ConstructorCallData))
	}
}

func daName(m core.DataAvailabilityMode) string {
	if m == core.DAModeL2 {
		return "L2"
	}
	return "L1"
}

func (w *world) checkBounds(where string, got any, rb map[core.Resource]core.ResourceBounds) {
	m, ok := got.(map[string]any)
	if !ok {
		w.c.Violation("tx-field", "%s: resource_bounds missing: %v", where, got)
	}
	for name, res := range map[string]core.Resource{"l1_gas": core.ResourceL1Gas, "l2_gas": core.ResourceL2Gas} {
		b, ok := m[name].(map[string]any)
		if !ok || !numIs(b["max_amount"], rb[res].MaxAmount) || !feltIs(b["max_price_per_unit"], rb[res].MaxPricePerUnit) {
			w.c.Violation("tx-field", "%s: resource_bounds.%s = %v, stored %d/%v", where, name, m[name], rb[res].MaxAmount, rb[res].MaxPricePerUnit)
		}
	}
	if d, has := rb[core.ResourceL1DataGas]; has {
		if b, ok := m["l1_data_gas"].(map[string]any); ok {
			if !numIs(b["max_amount"], d.MaxAmount) || !feltIs(b["max_price_per_unit"], d.MaxPricePerUnit) {
				w.c.Violation("tx-field", "%s: resource_bounds.l1_data_gas = %v, stored %d/%v", where, b, d.MaxAmount, d.MaxPricePerUnit)
			}
		}
	}
}

func (w *world) checkReceipt(where string, got any, b *gen.Block, i int, inBlock bool) {
	c := w.c
	m, ok := got.(map[string]any)
	if !ok {
		c.Violation("receipt-shape", "%s: receipt is not an object: %v", where, got)
	}
	r := b.B.Receipts[i]
	tx := b.B.Transactions[i]
	bad := func(key string) {
		c.Violation("receipt-field", "%s: receipt field %q = %v does not match the stored receipt of tx %s (block %d index %d)", where, key, m[key], tx.Hash().String(), b.Num(), i)
	}
	if !feltIs(m["transaction_hash"], tx.Hash()) {
		bad("transaction_hash")
	}
	if m["type"] != txType[fmt.Sprintf("%T", tx)] {
		bad("type")
	}
	fee, _ := m["actual_fee"].(map[string]any)
	if fee == nil || !feltIs(fee["amount"], r.Fee) {
		bad("actual_fee")
	}
	wantExec := "SUCCEEDED"
	if r.Reverted {
		wantExec = "REVERTED"
	}
	if m["execution_status"] != wantExec {
		bad("execution_status")
	}
	if r.Reverted {
		if s, _ := m["revert_reason"].(string); s != r.RevertReason {
			bad("revert_reason")
		}
	}
	if m["finality_status"] != w.finality(b.Num()) {
		c.Violation("finality-status", "%s: finality_status %v for block %d with L1 head %v", where, m["finality_status"], b.Num(), w.l1)
	}
	if !inBlock {
		if !feltIs(m["block_hash"], b.B.Hash) || !numIs(m["block_number"], b.Num()) {
			bad("block_hash/block_number")
		}
	}
	evs, _ := m["events"].([]any)
	if len(evs) != len(r.Events) {
		bad("events")
	}
	for j, e := range r.Events {
		em, _ := evs[j].(map[string]any)
		if em == nil || !feltIs(em["from_address"], e.From) || !feltsAre(em["keys"], e.Keys) || !feltsAre(em["data"], e.Data) {
			bad(fmt.Sprintf("events[%d]", j))
		}
	}
	msgs, _ := m["messages_sent"].([]any)
	if len(msgs) != len(r.L2ToL1Message) {
		bad("messages_sent")
	}
	for j, msg := range r.L2ToL1Message {
		mm, _ := msgs[j].(map[string]any)
		var to felt.Felt
		to.SetBytes(msg.To[:])
		if mm == nil || !feltIs(mm["from_address"], msg.From) || !feltsAre(mm["payload"], msg.Payload) || !feltIs(mm["to_address"], &to) {
			bad(fmt.Sprintf("messages_sent[%d]", j))
		}
	}
}

func (w *world) checkHeader(where string, m map[string]any, b *gen.Block) {
	c := w.c
	bad := func(key string, want any) {
		c.Violation("block-field", "%s: %q = %v, chain has %v (block %d)", where, key, m[key], want, b.Num())
	}
	h := b.B.Header
	if !feltIs(m["block_hash"], h.Hash) {
		bad("block_hash", h.Hash)
	}
	if !numIs(m["block_number"], h.Number) {
		bad("block_number", h.Number)
	}
	if !feltIs(m["parent_hash"], h.ParentHash) {
		bad("parent_hash", h.ParentHash)
	}
	if !feltIs(m["new_root"], h.GlobalStateRoot) {
		bad("new_root", h.GlobalStateRoot)
	}
	if !numIs(m["timestamp"], h.Timestamp) {
		bad("timestamp", h.Timestamp)
	}
	if !feltIs(m["sequencer_address"], h.SequencerAddress) {
		bad("sequencer_address", h.SequencerAddress)
	}
	if m["starknet_version"] != h.ProtocolVersion {
		bad("starknet_version", h.ProtocolVersion)
	}
	if m["status"] != w.finality(h.Number) {
		c.Violation("finality-status", "%s: block status %v for block %d with L1 head %v", where, m["status"], h.Number, w.l1)
	}
	if p, _ := m["l1_gas_price"].(map[string]any); p == nil || !feltIs(p["price_in_wei"], h.L1GasPriceETH) || !feltIs(p["price_in_fri"], h.L1GasPriceSTRK) {
		bad("l1_gas_price", "header gas prices")
	}
	wantDA := "CALLDATA"
	if h.L1DAMode == core.Blob {
		wantDA = "BLOB"
	}
	if m["l1_da_mode"] != wantDA {
		bad("l1_da_mode", wantDA)
	}
}

// agree compares two JSON values on the intersection of their keys; returns the paths that differ.
func agree(path string, a, b any, out *[]string) {
	switch x := a.(type) {
	case map[string]any:
		y, ok := b.(map[string]any)
		if !ok {
			*out = append(*out, path)
			return
		}
		for k, v := range x {
			if w, ok := y[k]; ok {
				agree(path+"."+k, v, w, out)
			}
		}
	case []any:
		y, ok := b.([]any)
		if !ok || len(x) != len(y) {
			*out = append(*out, path+"[len]")
			return
		}
		if strings.Contains(path, "state_diff") {
			// the sections of a state diff are sets (built from maps; the spec defines no order)
			x, y = sortedJSON(x), sortedJSON(y)
		}
		for i := range x {
			agree(fmt.Sprintf("%s[%d]", path, i), x[i], y[i], out)
		}
	default:
		if !reflect.DeepEqual(a, b) {
			*out = append(*out, fmt.Sprintf("%s: %v vs %v", path, a, b))
		}
	}
}

func sortedJSON(a []any) []any {
	o := append([]any{}, a...)
	sort.Slice(o, func(i, j int) bool {
		bi, _ := json.Marshal(o[i])
		bj, _ := json.Marshal(o[j])
		return string(bi) < string(bj)
	})
	return o
}

// versionsAgree checks that all endpoints answered alike (same error code, results agree on shared keys).
func (w *world) versionsAgree(what string, rs []response, vs []string) {
	for i := 1; i < len(rs); i++ {
		if rs[0].code() != rs[i].code() {
			w.c.Violation("versions-disagree-error", "%s: %s answered code %d, %s answered code %d (%s | %s)", what, vs[0], rs[0].code(), vs[i], rs[i].code(), trunc(rs[0].raw), trunc(rs[i].raw))
		}
		if rs[0].Error == nil {
			var diffs []string
			agree("", rs[0].Result, rs[i].Result, &diffs)
			diffs = filterKnownDifferences(diffs)
			if len(diffs) > 0 {
				w.c.Violation("versions-disagree", "%s: %s and %s differ on shared keys: %v", what, vs[0], vs[i], diffs[:min(4, len(diffs))])
			}
		}
	}
}

// Spec-documented differences between API versions (filled when first observed, each with its justification).
var knownDifferences = []string{}

func filterKnownDifferences(d []string) []string {
	var out []string
	for _, x := range d {
		known := false
		for _, k := range knownDifferences {
			if strings.Contains(x, k) {
				known = true
			}
		}
		if !known {
			out = append(out, x)
		}
	}
	return out
}

func trunc(s string) string {
	if len(s) > 300 {
		return s[:300] + "…"
	}
	return s
}

func (w *world) sweep(t *rapid.T) {
	c := w.c
	// ---- chain-level methods
	var rs []response
	var vs []string
	for _, e := range w.eps {
		r := e.call(c, "starknet_blockNumber")
		if !numIs(r.Result, w.head().Num()) {
			c.Violation("block-number", "%s starknet_blockNumber = %s, head is %d", e.version, r.raw, w.head().Num())
		}
		r = e.call(c, "starknet_blockHashAndNumber")
		m, _ := r.Result.(map[string]any)
		if m == nil || !feltIs(m["block_hash"], w.head().B.Hash) || !numIs(m["block_number"], w.head().Num()) {
			c.Violation("block-hash-and-number", "%s starknet_blockHashAndNumber = %s, head is %d/%s", e.version, r.raw, w.head().Num(), w.head().B.Hash.String())
		}
	}
	ids := w.blockIDs(t)
	// sample to bound the cost: all special ids + a drawn subset of the number/hash ids
	var chosen []bid
	for _, id := range ids {
		if id.label == "number" || id.label == "hash" {
			if rapid.IntRange(0, 2).Draw(t, "pickid") != 0 {
				continue
			}
		}
		chosen = append(chosen, id)
	}
	for _, id := range chosen {
		c.Label("id:" + id.label)
		if id.label == "l1_accepted" || id.label == "reverted-hash" || (id.blk != nil && id.blk.Num() < w.head().Num()) {
			c.NonTrivial("historical-or-l1-or-reverted-id")
		}
		what := fmt.Sprintf("block id %v (%s)", id.id, id.label)
		// ---------- getBlockWithTxHashes / WithTxs / WithReceipts / count / state update
		for _, method := range []string{"starknet_getBlockWithTxHashes", "starknet_getBlockWithTxs", "starknet_getBlockWithReceipts", "starknet_getBlockTransactionCount", "starknet_getStateUpdate"} {
			rs, vs = nil, nil
			for _, e := range w.eps {
				if ver(e.version) < id.minV {
					continue
				}
				r := e.call(c, method, id.id)
				rs, vs = append(rs, r), append(vs, e.version)
				where := fmt.Sprintf("%s %s(%v)", e.version, method, id.id)
				if id.blk == nil {
					if r.code() != codeBlockNotFound {
						c.Violation("block-not-found-expected", "%s: chain has no such block (%s) but the answer is %s", where, id.label, trunc(r.raw))
					}
					continue
				}
				if r.Error != nil {
					c.Violation("block-found-expected", "%s: chain has block %d but the answer is %s", where, id.blk.Num(), trunc(r.raw))
				}
				b := id.blk
				switch method {
				case "starknet_getBlockTransactionCount":
					if !numIs(r.Result, uint64(len(b.B.Transactions))) {
						c.Violation("tx-count", "%s = %s, block %d has %d", where, r.raw, b.Num(), len(b.B.Transactions))
					}
				case "starknet_getStateUpdate":
					w.checkStateUpdate(where, r.Result, b)
				default:
					m, _ := r.Result.(map[string]any)
					if m == nil {
						c.Violation("block-shape", "%s: %s", where, trunc(r.raw))
					}
					w.checkHeader(where, m, b)
					txs, _ := m["transactions"].([]any)
					if len(txs) != len(b.B.Transactions) {
						c.Violation("block-transactions", "%s: %d transactions, block %d has %d", where, len(txs), b.Num(), len(b.B.Transactions))
					}
					for i, tx := range b.B.Transactions {
						switch method {
						case "starknet_getBlockWithTxHashes":
							if !feltIs(txs[i], tx.Hash()) {
								c.Violation("block-transactions", "%s: tx %d hash %v, chain has %s", where, i, txs[i], tx.Hash().String())
							}
						case "starknet_getBlockWithTxs":
							w.checkTx(where, txs[i], tx)
						case "starknet_getBlockWithReceipts":
							pair, _ := txs[i].(map[string]any)
							if pair == nil {
								c.Violation("block-shape", "%s: entry %d: %v", where, i, txs[i])
							}
							txo, _ := pair["transaction"].(map[string]any)
							if txo != nil {
								if _, has := txo["transaction_hash"]; !has {
									txo["transaction_hash"] = tx.Hash().String() // the spec omits the hash inside getBlockWithReceipts' transaction
								}
							}
							w.checkTx(where, pair["transaction"], tx)
							w.checkReceipt(where, pair["receipt"], b, i, true)
						}
					}
				}
			}
			w.versionsAgree(method+" "+what, rs, vs)
		}
		// ---------- state reads at this block id
		var st *ref.State
		if id.blk != nil {
			st = id.blk.Post
		}
		addr := rapid.SampledFrom(w.u.AllAddrs()).Draw(t, "qaddr")
		key := rapid.SampledFrom(w.u.Keys).Draw(t, "qkey")
		for _, q := range []struct {
			method string
			params []any
			check  func(where string, r response)
		}{
			{"starknet_getNonce", []any{id.id, addr.String()}, func(where string, r response) { w.checkNonce(where, r, st, addr) }},
			{"starknet_getClassHashAt", []any{id.id, addr.String()}, func(where string, r response) { w.checkClassHashAt(where, r, st, addr) }},
			{"starknet_getStorageAt", []any{addr.String(), key.String(), id.id}, func(where string, r response) { w.checkStorageAt(where, r, st, addr, key) }},
		} {
			rs, vs = nil, nil
			for _, e := range w.eps {
				if ver(e.version) < id.minV {
					continue
				}
				r := e.call(c, q.method, q.params...)
				rs, vs = append(rs, r), append(vs, e.version)
				where := fmt.Sprintf("%s %s(%v)", e.version, q.method, q.params)
				if id.blk == nil {
					w.expectCode(where, r, codeBlockNotFound)
					continue
				}
				q.check(where, r)
			}
			w.versionsAgree(q.method+" "+what, rs, vs)
		}
		// v0.10 only: getStorageAt with INCLUDE_LAST_UPDATE_BLOCK
		if id.blk != nil && st.Contracts[addr] != nil {
			for _, e := range w.eps {
				if e.version == "v0_10" {
					w.checkLastUpdate(e, id, addr, key)
				}
			}
		}
		// classes
		cl := rapid.SampledFrom(w.u.Sierra).Draw(t, "qclass")
		rs, vs = nil, nil
		for _, e := range w.eps {
			if ver(e.version) < id.minV {
				continue
			}
			r := e.call(c, "starknet_getClass", id.id, cl.Hash.String())
			rs, vs = append(rs, r), append(vs, e.version)
			where := fmt.Sprintf("%s starknet_getClass(%v, %s)", e.version, id.id, cl.Hash.ShortString())
			if id.blk == nil {
				w.expectCode(where, r, codeBlockNotFound)
				continue
			}
			if _, declared := st.Classes[cl.Hash]; !declared {
				w.expectCode(where, r, codeClassNotFound)
			} else {
				m, _ := r.Result.(map[string]any)
				if m == nil || m["abi"] != cl.Def.Abi {
					c.Violation("class", "%s: %s (declared class abi %q)", where, trunc(r.raw), cl.Def.Abi)
				}
			}
		}
		w.versionsAgree("starknet_getClass "+what, rs, vs)
		// Cairo 0 classes, and the class of a contract (getClassAt = getClass of getClassHashAt, at the same block id)
		c0 := rapid.SampledFrom(w.u.Cairo0).Draw(t, "qclass0")
		rs, vs = nil, nil
		for _, e := range w.eps {
			if ver(e.version) < id.minV {
				continue
			}
			r := e.call(c, "starknet_getClass", id.id, c0.Hash.String())
			rs, vs = append(rs, r), append(vs, e.version)
			where := fmt.Sprintf("%s starknet_getClass(%v, cairo0 %s)", e.version, id.id, c0.Hash.ShortString())
			if id.blk == nil {
				w.expectCode(where, r, codeBlockNotFound)
				continue
			}
			if _, declared := st.Classes[c0.Hash]; !declared {
				w.expectCode(where, r, codeClassNotFound)
			} else {
				m, _ := r.Result.(map[string]any)
				if m == nil || m["program"] != c0.Def.Program {
					c.Violation("class", "%s: %s (declared Cairo 0 class program %.40q…)", where, trunc(r.raw), c0.Def.Program)
				}
				c.Label("cairo0-class-read")
			}
		}
		w.versionsAgree("starknet_getClass(cairo0) "+what, rs, vs)
		rs, vs = nil, nil
		for _, e := range w.eps {
			if ver(e.version) < id.minV {
				continue
			}
			r := e.call(c, "starknet_getClassAt", id.id, addr.String())
			rs, vs = append(rs, r), append(vs, e.version)
			where := fmt.Sprintf("%s starknet_getClassAt(%v, %s)", e.version, id.id, addr.ShortString())
			if id.blk == nil {
				w.expectCode(where, r, codeBlockNotFound)
				continue
			}
			ct := st.Contracts[addr]
			switch {
			case ct != nil && ct.System:
				c.Label("system-contract-class-at") // 0x1/0x2 have no class: any clean answer
			case ct == nil:
				w.expectCode(where, r, codeContractNotFound)
			default:
				if _, declared := st.Classes[ct.ClassHash]; !declared {
					c.Label("class-at-of-undeclared-class")
					break
				}
				r2 := e.call(c, "starknet_getClass", id.id, ct.ClassHash.String())
				if r.Error != nil || !reflect.DeepEqual(r.Result, r2.Result) {
					c.Violation("class-at", "%s differs from getClass(%s) at the same block: %s vs %s", where, ct.ClassHash.ShortString(), trunc(r.raw), trunc(r2.raw))
				}
				if s := w.u.SierraByHash(ct.ClassHash); s != nil {
					m, _ := r.Result.(map[string]any)
					if m == nil || m["abi"] != s.Def.Abi {
						c.Violation("class-at", "%s: %s (the contract's class at that block is %s, abi %q)", where, trunc(r.raw), ct.ClassHash.ShortString(), s.Def.Abi)
					}
				}
				c.Label("class-at-read")
			}
		}
		w.versionsAgree("starknet_getClassAt "+what, rs, vs)
		// ---------- transaction by (block id, index)
		if id.blk != nil {
			n := len(id.blk.B.Transactions)
			idx := rapid.IntRange(0, n+1).Draw(t, "qindex")
			rs, vs = nil, nil
			for _, e := range w.eps {
				if ver(e.version) < id.minV {
					continue
				}
				r := e.call(c, "starknet_getTransactionByBlockIdAndIndex", id.id, idx)
				rs, vs = append(rs, r), append(vs, e.version)
				where := fmt.Sprintf("%s starknet_getTransactionByBlockIdAndIndex(%v, %d)", e.version, id.id, idx)
				if idx >= n {
					w.expectCode(where, r, codeInvalidTxIndex)
				} else {
					if r.Error != nil {
						c.Violation("tx-by-index", "%s: %s", where, trunc(r.raw))
					}
					w.checkTx(where, r.Result, id.blk.B.Transactions[idx])
					// route consistency: the same transaction by hash
					r2 := e.call(c, "starknet_getTransactionByHash", id.blk.B.Transactions[idx].Hash().String())
					if !reflect.DeepEqual(r.Result, r2.Result) {
						c.Violation("route-inconsistent", "%s and getTransactionByHash give different JSON: %s vs %s", where, trunc(r.raw), trunc(r2.raw))
					}
				}
			}
			w.versionsAgree("starknet_getTransactionByBlockIdAndIndex "+what, rs, vs)
		}
	}
	// ---------- by transaction hash
	type txq struct {
		hash  felt.Felt
		b     *gen.Block
		i     int
		label string
	}
	var qs []txq
	for _, b := range w.chain {
		for i, tx := range b.B.Transactions {
			if rapid.IntRange(0, 2).Draw(t, "picktx") == 0 {
				qs = append(qs, txq{*tx.Hash(), b, i, "existing"})
			}
		}
	}
	for _, b := range w.reverted {
		for _, tx := range b.B.Transactions {
			qs = append(qs, txq{*tx.Hash(), nil, 0, "reverted-tx"})
			break
		}
	}
	qs = append(qs, txq{gen.Felt().Draw(t, "randomtx"), nil, 0, "random-tx"})
	for _, q := range qs {
		c.Label("tx:" + q.label)
		if q.label == "reverted-tx" {
			c.NonTrivial("reverted-tx-hash")
		}
		for _, method := range []string{"starknet_getTransactionByHash", "starknet_getTransactionReceipt", "starknet_getTransactionStatus"} {
			rs, vs = nil, nil
			for _, e := range w.eps {
				r := e.call(c, method, q.hash.String())
				rs, vs = append(rs, r), append(vs, e.version)
				where := fmt.Sprintf("%s %s(%s)", e.version, method, q.hash.ShortString())
				if q.b == nil {
					w.expectCode(where, r, codeTxNotFound)
					continue
				}
				if r.Error != nil {
					c.Violation("tx-found-expected", "%s: chain has the transaction (block %d index %d) but the answer is %s", where, q.b.Num(), q.i, trunc(r.raw))
				}
				switch method {
				case "starknet_getTransactionByHash":
					w.checkTx(where, r.Result, q.b.B.Transactions[q.i])
				case "starknet_getTransactionReceipt":
					w.checkReceipt(where, r.Result, q.b, q.i, false)
				case "starknet_getTransactionStatus":
					m, _ := r.Result.(map[string]any)
					wantExec := "SUCCEEDED"
					if q.b.B.Receipts[q.i].Reverted {
						wantExec = "REVERTED"
					}
					if m == nil || m["finality_status"] != w.finality(q.b.Num()) || m["execution_status"] != wantExec {
						c.Violation("tx-status", "%s = %s; want %s/%s", where, trunc(r.raw), w.finality(q.b.Num()), wantExec)
					}
				}
			}
			w.versionsAgree(method+" "+q.label, rs, vs)
		}
	}
	if w.dense {
		w.stateSweep(t)
	}
}

func ver(v string) int {
	switch v {
	case "v0_8":
		return 8
	case "v0_9":
		return 9
	}
	return 10
}

func (w *world) expectCode(where string, r response, code int) {
	if r.code() != code {
		w.c.Violation(fmt.Sprintf("error-code-%d-expected", code), "%s: expected error code %d, got %s", where, code, trunc(r.raw))
	}
}

func (w *world) checkStateUpdate(where string, got any, b *gen.Block) {
	c := w.c
	m, _ := got.(map[string]any)
	if m == nil {
		c.Violation("state-update-shape", "%s: %v", where, got)
	}
	if !feltIs(m["block_hash"], b.B.Hash) || !feltIs(m["new_root"], b.SU.NewRoot) || !feltIs(m["old_root"], b.SU.OldRoot) {
		c.Violation("state-update-field", "%s: block_hash/new_root/old_root = %v/%v/%v, chain has %s/%s/%s", where, m["block_hash"], m["new_root"], m["old_root"], b.B.Hash, b.SU.NewRoot, b.SU.OldRoot)
	}
	sd, _ := m["state_diff"].(map[string]any)
	if sd == nil {
		c.Violation("state-update-shape", "%s: no state_diff", where)
	}
	d := b.SU.StateDiff
	// storage diffs as a set of (addr,key,value)
	want := map[string]bool{}
	for a, kv := range d.StorageDiffs {
		for k, v := range kv {
			want[a.String()+"/"+k.String()+"="+v.String()] = true
		}
	}
	gotSet := map[string]bool{}
	for _, e := range sliceOf(sd["storage_diffs"]) {
		em, _ := e.(map[string]any)
		a, _ := asFelt(em["address"])
		for _, se := range sliceOf(em["storage_entries"]) {
			sm, _ := se.(map[string]any)
			k, _ := asFelt(sm["key"])
			v, _ := asFelt(sm["value"])
			if a != nil && k != nil && v != nil {
				gotSet[a.String()+"/"+k.String()+"="+v.String()] = true
			}
		}
	}
	if !reflect.DeepEqual(want, gotSet) {
		c.Violation("state-update-storage", "%s: storage_diffs %v, chain has %v", where, keys(gotSet), keys(want))
	}
	pairs := func(v any, ka, kb string) map[string]bool {
		out := map[string]bool{}
		for _, e := range sliceOf(v) {
			em, _ := e.(map[string]any)
			a, _ := asFelt(em[ka])
			bb, _ := asFelt(em[kb])
			if a != nil && bb != nil {
				out[a.String()+"="+bb.String()] = true
			}
		}
		return out
	}
	wantPairs := func(mm map[felt.Felt]*felt.Felt) map[string]bool {
		out := map[string]bool{}
		for k, v := range mm {
			out[k.String()+"="+v.String()] = true
		}
		return out
	}
	for _, sec := range []struct {
		name, ka, kb string
		want         map[felt.Felt]*felt.Felt
	}{
		{"nonces", "contract_address", "nonce", d.Nonces},
		{"deployed_contracts", "address", "class_hash", d.DeployedContracts},
		{"declared_classes", "class_hash", "compiled_class_hash", d.DeclaredV1Classes},
		{"replaced_classes", "contract_address", "class_hash", d.ReplacedClasses},
	} {
		if g, wnt := pairs(sd[sec.name], sec.ka, sec.kb), wantPairs(sec.want); !reflect.DeepEqual(g, wnt) {
			c.Violation("state-update-"+sec.name, "%s: %s = %v, chain has %v", where, sec.name, keys(g), keys(wnt))
		}
	}
	wantOld := map[string]bool{}
	for _, h := range d.DeclaredV0Classes {
		wantOld[h.String()] = true
	}
	gotOld := map[string]bool{}
	for _, e := range sliceOf(sd["deprecated_declared_classes"]) {
		if f, ok := asFelt(e); ok {
			gotOld[f.String()] = true
		}
	}
	if !reflect.DeepEqual(wantOld, gotOld) {
		c.Violation("state-update-deprecated-classes", "%s: %v, chain has %v", where, keys(gotOld), keys(wantOld))
	}
}

func sliceOf(v any) []any { s, _ := v.([]any); return s }

func keys(m map[string]bool) []string {
	var o []string
	for k := range m {
		o = append(o, k)
	}
	sort.Strings(o)
	return o
}

// recordL1 records 0-3 L1 heads in a row (absent / behind / equal / ahead of the chain head, each drawn independently of the
// one before, so the recorded head also moves BACK); *cur is the head recorded last.
func recordL1(rt *rapid.T, c *stats.Case, nd *node.Node, cur **core.L1Head, head int) {
	n := rapid.SampledFrom([]int{1, 1, 2, 3}).Draw(rt, "l1records")
	for i := 0; i < n; i++ {
		var l1 *core.L1Head
		switch rapid.IntRange(0, 3).Draw(rt, "l1pos") {
		case 1:
			l1 = &core.L1Head{BlockNumber: uint64(rapid.IntRange(0, head).Draw(rt, "l1behind"))}
			c.Label("l1-behind-or-equal")
		case 2:
			l1 = &core.L1Head{BlockNumber: uint64(head + rapid.IntRange(1, 3).Draw(rt, "l1ahead"))}
			c.Label("l1-ahead")
		case 3:
			l1 = &core.L1Head{BlockNumber: uint64(head)}
			c.Label("l1-equal")
		default:
			if *cur == nil {
				c.Label("l1-absent")
			}
			continue
		}
		l1.BlockHash, l1.StateRoot = gen.FP(l1.BlockNumber+77), gen.FP(l1.BlockNumber+99)
		if err := nd.BC.SetL1Head(l1); err != nil {
			stats.HarnessError("SetL1Head: %v", err)
		}
		if *cur != nil && l1.BlockNumber < (*cur).BlockNumber {
			c.Label("l1-head-moved-back")
		}
		if *cur != nil && l1.BlockNumber == (*cur).BlockNumber {
			c.Label("l1-head-recorded-again")
		}
		*cur = l1
	}
}

func TestPropRPCReadsFollowTheChain(t *testing.T) {
	stats.Check(t, stats.Budget{Quick: 400, Thorough: 1500},
		"chain tree (prefix 1-3 + fork F1 1-2 blocks reverted + fork F2 1-3 blocks) on a drawn state backend and a drawn store (in-memory, or in 2 of 5 cases Pebble v2 on a scratch directory) with an L1 head HISTORY (0-3 heads recorded while the first fork is canonical and 0-3 after the reorg, each absent/behind/equal/ahead of the chain head independently of the one before, so the recorded head also moves back or is recorded again; the last one recorded is the head), in a quarter of the cases served after a restart (new Blockchain and handlers; on Pebble half of those close and reopen the database); the real method tables of API v0.8/v0.9/v0.10 are mounted on jsonrpc servers and queried with JSON text: every read method x block id kinds (number, hash, latest, l1_accepted, one-past-head, reverted hash, random hash), tx hashes (existing, reverted, random), indices in/out of range, (contract, slot), classes; identity-bearing fields compared with the generated chain and the abstract state, error codes 24/29/20/28/27 exactly when the chain lacks the item, finality from the L1 head, route consistency (by index vs by hash), versions agree on shared keys; on every Pebble case and a quarter of the memory cases additionally EVERY block (drawn id form: number, hash, latest, l1_accepted) x EVERY contract (nonce, class hash) x EVERY slot (storage, partly with the last-update block) through a drawn API version, so adjacent contracts/slots whose history records start at different blocks are all read at all blocks; non-trivial = query through l1_accepted, a reverted hash or a historical block (or a per-contract read at a block where the next contract/slot got its first history record while the queried one has none from there on)",
		func(rt *rapid.T, c *stats.Case) {
			u := gen.NewUniverse(rt)
			newState := rapid.Bool().Draw(rt, "newState")
			base := gen.NewChain(u, gen.Opts{MaxTxs: 4, MinVersionIdx: rapid.IntRange(0, 3).Draw(rt, "minver")})
			np := rapid.IntRange(1, 3).Draw(rt, "prefix")
			for i := 0; i < np; i++ {
				base.Next(rt)
			}
			f1 := base.Fork(np)
			n1 := rapid.IntRange(0, 2).Draw(rt, "f1")
			for i := 0; i < n1; i++ {
				f1.Next(rt)
			}
			f2 := base.Fork(np)
			n2 := rapid.IntRange(0, 3).Draw(rt, "f2")
			for i := 0; i < n2; i++ {
				f2.Next(rt)
			}
			// storage backend: the in-memory store (its iterators filter by prefix whatever bounds were asked for, its snapshots
			// are copies) or the production store, Pebble v2 on a scratch directory (bounded iterators, real snapshots, batches)
			var database db.KeyValueStore
			store, dbPath := "memory", ""
			if rapid.IntRange(0, 4).Draw(rt, "pebble") < 2 {
				store = "pebble"
				dir := pebbleScratch()
				dbPath = filepath.Join(dir, "db")
				pdb, err := pebblev2.New(dbPath)
				if err != nil {
					stats.HarnessError("pebble open: %v", err)
				}
				database = pdb
				defer func() { _ = database.Close(); os.RemoveAll(dir) }()
			}
			c.Label("store:" + store + "/" + map[bool]string{false: "legacy", true: "trie2"}[newState])
			// every contract x slot x block is read on every Pebble case and on a quarter of the memory cases
			dense := store == "pebble" || rapid.IntRange(0, 3).Draw(rt, "dense") == 0
			nd := node.New(newState, database, u.Net)
			for _, b := range f1.Blocks {
				if err := nd.Store(b); err != nil {
					c.Violation("valid-block-rejected", "%v", err)
				}
			}
			// the same handlers (and the same Blockchain with whatever it caches) serve queries BEFORE the reorg too: half of the
			// cases run the whole sweep against the first fork while it is canonical, then revert it
			eps := newEndpoints(nd)
			// the L1 head is a HISTORY too: it may be recorded while the first fork is canonical (it then survives the reorg and
			// the restart), and recorded again later - with any number, also a lower one: the last recorded head is the head
			var recorded *core.L1Head
			if rapid.Bool().Draw(rt, "l1BeforeReorg") {
				recordL1(rt, c, nd, &recorded, len(f1.Blocks)-1)
			}
			if n1 > 0 && rapid.Bool().Draw(rt, "sweepBeforeReorg") {
				w1 := &world{c: c, u: u, n: nd, chain: f1.Blocks, eps: eps, dense: dense, l1: recorded}
				w1.sweep(rt)
				c.Label("queried-before-the-reorg")
			}
			for i := 0; i < n1; i++ {
				if err := nd.BC.RevertHead(); err != nil {
					c.Violation("revert-failed", "%v", err)
				}
			}
			for _, b := range f2.Blocks[np:] {
				if err := nd.Store(b); err != nil {
					c.Violation("valid-block-rejected", "%v", err)
				}
			}
			// a restart between writing and serving: a new Blockchain (and new handlers) on the same database answers from what
			// was persisted, not from what the writing instance still holds in memory
			if rapid.IntRange(0, 3).Draw(rt, "restart") == 0 {
				if store == "pebble" && rapid.Bool().Draw(rt, "reopenDB") {
					// the process really ended: the database is closed (the node writes nothing the read methods need at
					// shutdown) and opened again, so the answers come from the files (WAL replay, flushed tables)
					if err := database.Close(); err != nil {
						stats.HarnessError("pebble close: %v", err)
					}
					pdb, err := pebblev2.New(dbPath)
					if err != nil {
						stats.HarnessError("pebble reopen: %v", err)
					}
					database, nd.DB = pdb, pdb
					c.Label("database-closed-and-reopened")
				}
				nd.Reopen()
				eps = newEndpoints(nd)
				c.Label("restarted-before-the-sweep")
			}
			w := &world{c: c, u: u, n: nd, chain: f2.Blocks, reverted: f1.Blocks[np:], dense: dense}
			head := len(f2.Blocks) - 1
			w.l1 = recorded
			recordL1(rt, c, nd, &w.l1, head)
			c.Fp("%v %s p%d f1:%d f2:%d l1:%v head:%s", newState, store, np, n1, n2, w.l1, f2.Blocks[head].B.Hash.String())
			w.eps = eps
			w.sweep(rt)
			c.Sample(func() any {
				return map[string]any{"backend": nd.Backend(), "store": store, "dense_state_sweep": dense, "chain_len": len(w.chain), "reverted": len(w.reverted), "l1": fmt.Sprint(w.l1)}
			})
		})
}
