package c08

import (
	"bytes"
	"encoding/json"
	"fmt"
	"io"
	"log"
	"os"
	"sort"

	"github.com/NethermindEth/juno/core/felt"
	"pgregory.net/rapid"

	"verif/harness/internal/ref"
	"verif/harness/internal/stats"
)

// Pebble's default logger writes "Found 0 WALs" through the standard logger at every open; nothing here uses that logger.
func init() { log.SetOutput(io.Discard) }

// pebbleScratch returns a fresh directory for one case's Pebble database (RAM-backed when the machine offers it: the
// production store commits every batch with Sync, which only costs time here). The caller removes it.
func pebbleScratch() string {
	base := ""
	if st, err := os.Stat("/dev/shm"); err == nil && st.IsDir() {
		base = "/dev/shm"
	}
	d, err := os.MkdirTemp(base, "verif-c08-")
	if err != nil {
		stats.HarnessError("mkdtemp: %v", err)
	}
	return d
}

// ---- the oracles of the per-contract state reads (the abstract state `st` as of the resolved block)

func (w *world) checkNonce(where string, r response, st *ref.State, addr felt.Felt) {
	c := w.c
	ct := st.Contracts[addr]
	if ct != nil && ct.System && r.code() == codeContractNotFound {
		c.Label("system-contract-reported-not-found") // tolerated: 0x1/0x2 have no class; both answers occur in practice
	} else if ct == nil {
		w.expectCode(where, r, codeContractNotFound)
	} else if !feltIs(r.Result, &ct.Nonce) {
		c.Violation("nonce", "%s = %s, state at that block has %s", where, trunc(r.raw), ct.Nonce.String())
	}
}

func (w *world) checkClassHashAt(where string, r response, st *ref.State, addr felt.Felt) {
	c := w.c
	ct := st.Contracts[addr]
	if ct != nil && ct.System && r.code() == codeContractNotFound {
		c.Label("system-contract-reported-not-found")
	} else if ct == nil {
		w.expectCode(where, r, codeContractNotFound)
	} else if !feltIs(r.Result, &ct.ClassHash) {
		c.Violation("class-hash-at", "%s = %s, state at that block has %s", where, trunc(r.raw), ct.ClassHash.String())
	}
}

func (w *world) checkStorageAt(where string, r response, st *ref.State, addr, key felt.Felt) {
	ct := st.Contracts[addr]
	if ct == nil {
		w.expectCode(where, r, codeContractNotFound)
	} else {
		want := ct.Storage[key]
		if !feltIs(r.Result, &want) {
			w.c.Violation("storage-at", "%s = %s, state at that block has %s", where, trunc(r.raw), want.String())
		}
	}
}

// checkLastUpdate: v0.10 getStorageAt with INCLUDE_LAST_UPDATE_BLOCK for a contract that exists at id.blk. The last update
// of (addr,key) as of block b is bounded by the chain: not before the last block <= b whose diff really changes the slot,
// and it is a block <= b whose diff mentions the slot (or 0 when none does). No-op writes (same value, zero to a
// never-written slot) may or may not count as updates, so only these bounds are asserted.
func (w *world) checkLastUpdate(e endpoint, id bid, addr, key felt.Felt) {
	c := w.c
	ct := id.blk.Post.Contracts[addr]
	lastReal, mentioned := uint64(0), map[uint64]bool{}
	hasReal := false
	for _, b := range w.chain {
		if b.Num() > id.blk.Num() {
			break
		}
		v, ok := b.SU.StateDiff.StorageDiffs[addr][key]
		if !ok {
			continue
		}
		mentioned[b.Num()] = true
		var prev felt.Felt
		if pc := b.Pre.Contracts[addr]; pc != nil {
			prev = pc.Storage[key]
		}
		if !v.Equal(&prev) {
			lastReal, hasReal = b.Num(), true
		}
	}
	r := e.call(c, "starknet_getStorageAt", addr.String(), key.String(), id.id, []string{"INCLUDE_LAST_UPDATE_BLOCK"})
	where := fmt.Sprintf("%s starknet_getStorageAt(%s, %s, %v, [INCLUDE_LAST_UPDATE_BLOCK])", e.version, addr.ShortString(), key.ShortString(), id.id)
	m, _ := r.Result.(map[string]any)
	if r.Error != nil || m == nil {
		c.Violation("storage-at", "%s: %s (the contract exists at that block)", where, trunc(r.raw))
	}
	want := ct.Storage[key]
	if !feltIs(m["value"], &want) {
		c.Violation("storage-at", "%s: value %v, state at that block has %s", where, m["value"], want.String())
	}
	lub, ok := m["last_update_block"].(json.Number)
	n, perr := lub.Int64()
	if !ok || perr != nil || n < 0 {
		c.Violation("storage-last-update", "%s: last_update_block %v is not a block number", where, m["last_update_block"])
	}
	got := uint64(n)
	switch {
	case got > id.blk.Num():
		c.Violation("storage-last-update", "%s: last_update_block %d is after the queried block %d", where, got, id.blk.Num())
	case hasReal && got < lastReal:
		c.Violation("storage-last-update", "%s: last_update_block %d, but block %d (<= queried block %d) changes the slot", where, got, lastReal, id.blk.Num())
	case got != 0 && !mentioned[got]:
		c.Violation("storage-last-update", "%s: last_update_block %d, but the diff of that block does not touch the slot (blocks that do: %v)", where, got, mentioned)
	case got == 0 && hasReal && lastReal != 0:
		c.Violation("storage-last-update", "%s: last_update_block 0, but block %d changes the slot", where, lastReal)
	}
	if hasReal && want.IsZero() {
		c.Label("last-update-of-cleared-slot")
	}
	c.Label("storage-last-update-read")
}

// ---- which items of the canonical chain have history (a diff section mentions them) and at which blocks. Only used to
// classify queries (labels / non-trivial rule), never by an oracle.

type histItem struct {
	key    []byte // address, or address|slot: the order of the per-item history records in the store
	blocks []uint64
}

type histIndex map[string][]histItem // "nonce" | "class" | "storage" -> items that have history, sorted by key

func itemKey(addr felt.Felt, slot *felt.Felt) []byte {
	k := addr.Marshal()
	if slot != nil {
		k = append(k, slot.Marshal()...)
	}
	return k
}

func (w *world) historyIndex() histIndex {
	acc := map[string]map[string][]uint64{"nonce": {}, "class": {}, "storage": {}}
	for _, b := range w.chain {
		d := b.SU.StateDiff
		for a := range d.Nonces {
			acc["nonce"][string(itemKey(a, nil))] = append(acc["nonce"][string(itemKey(a, nil))], b.Num())
		}
		for a := range d.DeployedContracts {
			acc["class"][string(itemKey(a, nil))] = append(acc["class"][string(itemKey(a, nil))], b.Num())
		}
		for a := range d.ReplacedClasses {
			acc["class"][string(itemKey(a, nil))] = append(acc["class"][string(itemKey(a, nil))], b.Num())
		}
		for a, kv := range d.StorageDiffs {
			for k := range kv {
				acc["storage"][string(itemKey(a, &k))] = append(acc["storage"][string(itemKey(a, &k))], b.Num())
			}
		}
	}
	out := histIndex{}
	for bucket, m := range acc {
		items := make([]histItem, 0, len(m))
		for k, bl := range m {
			items = append(items, histItem{key: []byte(k), blocks: bl}) // blocks ascend: the chain is walked in order
		}
		sort.Slice(items, func(i, j int) bool { return bytes.Compare(items[i].key, items[j].key) < 0 })
		out[bucket] = items
	}
	return out
}

// neighbourShape classifies the query (bucket, item, block n) by what the history records AROUND the item look like:
//
//	"at":    the item has no record at or after n, and the next item of the bucket that has any record got its FIRST one
//	         exactly at n (a lookup that looks for "the record at n" and is not confined to the item finds the neighbour's);
//	"after": the item has no record after n, and the next item has one after n (same, for a lookup that looks for
//	         "the first record after n").
func (h histIndex) neighbourShape(bucket string, key []byte, n uint64) (at, after bool) {
	items := h[bucket]
	i := sort.Search(len(items), func(i int) bool { return bytes.Compare(items[i].key, key) >= 0 })
	ownAtOrAfter, ownAfter := false, false
	if i < len(items) && bytes.Equal(items[i].key, key) {
		for _, b := range items[i].blocks {
			ownAtOrAfter = ownAtOrAfter || b >= n
			ownAfter = ownAfter || b > n
		}
		i++
	}
	if i >= len(items) {
		return false, false
	}
	nb := items[i].blocks
	return !ownAtOrAfter && nb[0] == n, !ownAfter && nb[len(nb)-1] > n
}

// stateSweep asks, for EVERY canonical block (through a drawn form of its id: number, hash, latest for the head,
// l1_accepted for the block the L1 head resolves to) and EVERY contract address of the universe, the nonce and the class
// hash, and for every slot of the universe the storage value (on v0.10 partly with the last-update block), each through a
// drawn API version. Same oracles as the sampled reads of sweep; the point is that neighbouring items (adjacent addresses,
// adjacent slots of one contract) with different histories are all read at all blocks.
func (w *world) stateSweep(t *rapid.T) {
	c := w.c
	hist := w.historyIndex()
	addrs := w.u.AllAddrs()
	var l1blk uint64
	hasL1 := w.l1 != nil
	if hasL1 {
		l1blk = min(w.l1.BlockNumber, w.head().Num())
	}
	shape := func(method, bucket string, key []byte, b uint64, form string) {
		at, after := hist.neighbourShape(bucket, key, b)
		if at {
			c.Label("neighbour-first-history-record-at-queried-block:" + method)
			c.Label("neighbour-first-history-record-at-queried-block:id-" + form)
			c.NonTrivial("neighbour-history-record-at-queried-block")
		}
		if after {
			c.Label("neighbour-history-record-after-queried-block:" + method)
		}
	}
	for _, b := range w.chain {
		forms := []bid{
			{map[string]any{"block_number": b.Num()}, b, "number", 8},
			{map[string]any{"block_hash": b.B.Hash.String()}, b, "hash", 8},
		}
		if b == w.head() {
			forms = append(forms, bid{"latest", b, "latest", 8})
		}
		if hasL1 && l1blk == b.Num() {
			forms = append(forms, bid{"l1_accepted", b, "l1_accepted", 9}, bid{"l1_accepted", b, "l1_accepted", 9})
		}
		st := b.Post
		for _, addr := range addrs {
			id := forms[rapid.IntRange(0, len(forms)-1).Draw(t, "denseForm")]
			var eps []endpoint
			for _, e := range w.eps {
				if ver(e.version) >= id.minV {
					eps = append(eps, e)
				}
			}
			e := eps[rapid.IntRange(0, len(eps)-1).Draw(t, "denseVersion")]
			exists := st.Contracts[addr] != nil
			r := e.call(c, "starknet_getNonce", id.id, addr.String())
			w.checkNonce(fmt.Sprintf("%s starknet_getNonce(%v, %s)", e.version, id.id, addr.String()), r, st, addr)
			r = e.call(c, "starknet_getClassHashAt", id.id, addr.String())
			w.checkClassHashAt(fmt.Sprintf("%s starknet_getClassHashAt(%v, %s)", e.version, id.id, addr.String()), r, st, addr)
			if exists {
				shape("getNonce", "nonce", itemKey(addr, nil), b.Num(), id.label)
				shape("getClassHashAt", "class", itemKey(addr, nil), b.Num(), id.label)
			}
			for _, key := range w.u.Keys {
				if exists && e.version == "v0_10" && rapid.IntRange(0, 2).Draw(t, "denseLastUpdate") == 0 {
					w.checkLastUpdate(e, id, addr, key)
				} else {
					r = e.call(c, "starknet_getStorageAt", addr.String(), key.String(), id.id)
					w.checkStorageAt(fmt.Sprintf("%s starknet_getStorageAt(%s, %s, %v)", e.version, addr.String(), key.String(), id.id), r, st, addr, key)
				}
				if exists {
					shape("getStorageAt", "storage", itemKey(addr, &key), b.Num(), id.label)
				}
			}
		}
	}
	c.Label("dense-state-sweep")
}
