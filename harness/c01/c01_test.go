// Package c01: the state root is the protocol-defined commitment of the resulting state (property C01).
package c01

import (
	"encoding/json"
	"fmt"
	"os"
	"path/filepath"
	"sort"
	"testing"

	"github.com/NethermindEth/juno/adapters/sn2core"
	"github.com/NethermindEth/juno/core"
	"github.com/NethermindEth/juno/core/crypto"
	"github.com/NethermindEth/juno/core/felt"
	"github.com/NethermindEth/juno/core/state"
	"github.com/NethermindEth/juno/core/trie"
	"github.com/NethermindEth/juno/core/trie2"
	"github.com/NethermindEth/juno/core/trie2/triedb"
	"github.com/NethermindEth/juno/core/trie2/trienode"
	"github.com/NethermindEth/juno/core/trie2/trieutils"
	"github.com/NethermindEth/juno/db"
	"github.com/NethermindEth/juno/db/memory"
	"github.com/NethermindEth/juno/db/pebblev2"
	_ "github.com/NethermindEth/juno/encoder/registry"
	"github.com/NethermindEth/juno/starknet"
	"pgregory.net/rapid"

	"verif/harness/internal/gen"
	"verif/harness/internal/node"
	"verif/harness/internal/ref"
	"verif/harness/internal/stats"
)

func TestMain(m *testing.M) {
	selfValidate()
	stats.Main(m)
}

// selfValidate anchors the reference model in real-network data: mainnet state updates 0,1,2 must
// reproduce their new_root from the diffs alone. A failure here is a harness error (exit 2).
func selfValidate() {
	st := ref.NewState()
	for i := 0; i < 3; i++ {
		raw, err := os.ReadFile(fmt.Sprintf("/repo/clients/feeder/testdata/mainnet/state_update/%d.json", i))
		if err != nil {
			stats.HarnessError("fixture: %v", err)
		}
		var su starknet.StateUpdate
		if err := json.Unmarshal(raw, &su); err != nil {
			stats.HarnessError("fixture decode: %v", err)
		}
		csu, err := sn2core.AdaptStateUpdate(&su)
		if err != nil {
			stats.HarnessError("fixture adapt: %v", err)
		}
		old := st.Commitment("0.0.0")
		if !old.Equal(csu.OldRoot) {
			stats.HarnessError("reference model: mainnet block %d old root %s != %s", i, old.String(), csu.OldRoot.String())
		}
		if err := st.Apply(uint64(i), "0.0.0", csu.StateDiff, nil, func(felt.Felt) felt.Felt { return felt.Zero }); err != nil {
			stats.HarnessError("reference model apply: %v", err)
		}
		nr := st.Commitment("0.0.0")
		if !nr.Equal(csu.NewRoot) {
			stats.HarnessError("reference model: mainnet block %d new root %s != fixture %s", i, nr.String(), csu.NewRoot.String())
		}
	}
}

// ---------------------------------------------------------------------------------------------
// (a) trie level: both trie implementations against ref.MPT under a state machine

type oldTrie struct {
	db     *memory.Database
	txn    db.IndexedBatch
	tr     *trie.Trie
	posei  bool
	height uint8
}

func (o *oldTrie) open() error {
	var err error
	if o.posei {
		o.tr, err = trie.NewTriePoseidon(o.txn, []byte{0x55}, o.height)
	} else {
		o.tr, err = trie.NewTriePedersen(o.txn, []byte{0x55}, o.height)
	}
	return err
}

type newTrie struct {
	disk   db.KeyValueStore
	tdb    interface{}
	tr     *trie2.Trie
	posei  bool
	height uint8
	root   felt.Felt
}

func hashFn(posei bool) crypto.HashFn {
	if posei {
		return crypto.Poseidon
	}
	return crypto.Pedersen
}

func refHash(posei bool) ref.HashFn {
	if posei {
		return ref.Poseidon
	}
	return ref.Pedersen
}

func keyFor(t *rapid.T, height int, pool []felt.Felt) felt.Felt {
	if height >= 251 {
		return rapid.SampledFrom(pool).Draw(t, "key")
	}
	if height >= 32 {
		// few stems with low/high bit flips inside the height
		base := rapid.SampledFrom([]uint64{0, 1, 0x8000000000000000, 0x5555555555555555, 0xffffffffffffffff}).Draw(t, "stem64")
		nflip := rapid.IntRange(0, 2).Draw(t, "nflip")
		for i := 0; i < nflip; i++ {
			base ^= 1 << uint(rapid.SampledFrom([]int{0, 1, 2, 31, 32, 61, 62, 63}).Draw(t, "flipbit"))
		}
		if height < 64 {
			base &= (1 << uint(height)) - 1
		}
		return gen.F(base)
	}
	return gen.F(uint64(rapid.IntRange(0, (1<<height)-1).Draw(t, "smallkey")))
}

func TestPropTrieRootIsFunctionOfSet(t *testing.T) {
	stats.Check(t, stats.Budget{Quick: 2500, Thorough: 20000},
		"put/overwrite/delete(zero)/zero-absent/commit/reopen/hash sequences on core/trie and core/trie2 (heights 251, 64, 8; Pedersen, Poseidon) vs recursive reference MPT; 1 case in 32 mixes in up to two large batches (99..300 updates, thorough up to 1000: inserts/overwrites/deletes over spread, sequential, clustered, deep-prefix key sets) committed in ONE commit around the trie2 parallel collector/hasher threshold of 100 pending updates, then reopens and goes on with small ops and reads on the batch's keys; non-trivial = sequence contains a structural event on the model (edge split, collapse after delete, re-insert after delete, zero write to absent key, reopen between updates) or a commit of more than 100 pending updates",
		func(rt *rapid.T, c *stats.Case) {
			height := rapid.SampledFrom([]int{251, 251, 64, 8, 8, 3}).Draw(rt, "height")
			posei := rapid.Bool().Draw(rt, "poseidon")
			// SIZE: one case in thirty-two performs large single commits (sizes around the trie2 parallel-collector /
			// parallel-hasher threshold of 100 pending updates, see large_test.go) mixed with the small structural ops
			large := gen.Uniform(rt, 32, "large") == 0
			if large {
				height = rapid.SampledFrom([]int{251, 251, 64, 251, 8}).Draw(rt, "heightLarge")
				c.Label("large-case")
			}
			c.Fp("h%d p%v", height, posei)
			c.Labelf("height-%d", height)
			var pool []felt.Felt
			if height >= 251 {
				// reuse the universe's stem-key generator
				u := gen.NewUniverse(rt)
				pool = append(u.Keys, u.Addrs...)
			}
			// old trie over an indexed batch of a memory DB
			ot := &oldTrie{db: memory.New(), posei: posei, height: uint8(height)}
			ot.txn = ot.db.NewIndexedBatch()
			if err := ot.open(); err != nil {
				stats.HarnessError("open old trie: %v", err)
			}
			// new trie persisted through the raw trie DB (only for height 251: the path DB keys encode 251-bit paths),
			// otherwise an in-memory empty trie
			disk := memory.New()
			tdb := triedb.New(disk, nil)
			var nt *trie2.Trie
			persistent := true
			if persistent {
				var err error
				nt, err = trie2.New(trieutils.NewContractTrieID(felt.StateRootHash{}), uint8(height), hashFn(posei), tdb)
				if err != nil {
					stats.HarnessError("open trie2: %v", err)
				}
			} else {
				nt = trie2.NewEmpty(uint8(height), hashFn(posei))
			}
			var ntRoot felt.Felt
			model := map[felt.Felt]felt.Felt{}
			deleted := map[felt.Felt]bool{}

			// the reference root is recomputed only when the model changed (it costs 2 hashes per key)
			modelVer, wantVer := 0, -1
			var wantMemo felt.Felt
			refRoot := func() felt.Felt {
				if wantVer != modelVer {
					wantMemo, wantVer = ref.MPT(height, refHash(posei), model), modelVer
				}
				return wantMemo
			}
			// updates applied to the trie2 object since its last Commit / Hash (what trie2 compares with 100)
			pendU, pendH := 0, 0
			var extra []felt.Felt // keys of the large commits: the small ops keep touching that region
			bulks, largeCommitted := 0, false
			noteHash := func() {
				if pendH > trie2Threshold {
					c.Label("trie2-hash-pending>T")
				}
				pendH = 0
			}
			check := func(where string) {
				want := refRoot()
				noteHash()
				got, err := ot.tr.Hash()
				if err != nil {
					c.Violation("old-trie-hash-error", "%s: core/trie Hash: %v", where, err)
				}
				if !got.Equal(&want) {
					c.Violation("old-trie-root", "%s: core/trie root %s != reference %s (model %v)", where, got.String(), want.String(), renderKV(model))
				}
				got2, err := nt.Hash()
				if err != nil {
					c.Violation("trie2-hash-error", "%s: core/trie2 Hash: %v", where, err)
				}
				if !got2.Equal(&want) {
					c.Violation("trie2-root", "%s: core/trie2 root %s != reference %s (model %v)", where, got2.String(), want.String(), renderKV(model))
				}
			}
			getAll := func(where string, k felt.Felt) {
				want := model[k]
				g1, err := ot.tr.Get(&k)
				if err != nil || !g1.Equal(&want) {
					c.Violation("old-trie-get", "%s: core/trie Get(%s)=%s,%v want %s", where, k.String(), g1.String(), err, want.String())
				}
				g2, err := nt.Get(&k)
				if err != nil || !g2.Equal(&want) {
					c.Violation("trie2-get", "%s: core/trie2 Get(%s)=%s,%v want %s", where, k.String(), g2.String(), err, want.String())
				}
			}
			structural := func(k felt.Felt, inserting bool) {
				// classify on the model: edge split = new key whose first differing bit with its closest neighbour is not bit 0 etc.
				if inserting {
					if deleted[k] {
						c.NonTrivial("reinsert-after-delete")
					}
					if len(model) >= 1 {
						c.NonTrivial("insert-into-nonempty")
					}
				} else {
					if len(model) == 2 {
						c.NonTrivial("collapse-to-single")
					} else if len(model) > 2 {
						c.NonTrivial("delete-restructure")
					} else {
						c.NonTrivial("delete-to-empty")
					}
				}
			}
			put := func(k, v felt.Felt) {
				old, err := ot.tr.Put(&k, &v)
				if err != nil {
					c.Violation("old-trie-put", "core/trie Put(%s,%s): %v", k.String(), v.String(), err)
				}
				prev, had := model[k]
				if had && (old == nil || !old.Equal(&prev)) {
					c.Violation("old-trie-put-old", "core/trie Put(%s) returned old=%v want %s", k.String(), old, prev.String())
				}
				if err := nt.Update(&k, &v); err != nil {
					c.Violation("trie2-update", "core/trie2 Update(%s,%s): %v", k.String(), v.String(), err)
				}
				pendU++
				pendH++
				modelVer++
				if v.IsZero() {
					if had {
						structural(k, false)
						deleted[k] = true
					} else {
						c.NonTrivial("zero-to-absent")
					}
					delete(model, k)
				} else {
					if !had {
						structural(k, true)
					}
					model[k] = v
				}
			}
			del := func(k felt.Felt, viaDelete bool) {
				if !viaDelete {
					put(k, felt.Zero)
					return
				}
				// trie2 has an explicit Delete; the old trie deletes by writing zero
				if _, err := ot.tr.Put(&k, &felt.Zero); err != nil {
					c.Violation("old-trie-put", "core/trie Put(%s,0): %v", k.String(), err)
				}
				if err := nt.Delete(&k); err != nil {
					c.Violation("trie2-delete", "core/trie2 Delete(%s): %v", k.String(), err)
				}
				pendU++
				pendH++
				modelVer++
				structural(k, false)
				deleted[k] = true
				delete(model, k)
			}
			drawKey := func(t *rapid.T) felt.Felt {
				if len(extra) > 0 && rapid.IntRange(0, 2).Draw(t, "fromBulk") == 0 {
					return extra[rapid.IntRange(0, len(extra)-1).Draw(t, "bulkKey")]
				}
				return keyFor(t, height, pool)
			}
			commit := func(t *rapid.T) {
				c.Fp("commit")
				if err := ot.tr.Commit(); err != nil {
					c.Violation("old-trie-commit", "core/trie Commit: %v", err)
				}
				reopen := rapid.Bool().Draw(t, "reopen")
				if reopen {
					c.Label("reopen")
					if len(model) > 0 {
						c.NonTrivial("reopen-between-updates")
					}
					if rapid.Bool().Draw(t, "flushBatch") {
						if err := ot.txn.Write(); err != nil {
							stats.HarnessError("txn write: %v", err)
						}
						ot.txn = ot.db.NewIndexedBatch()
					}
					if err := ot.open(); err != nil {
						c.Violation("old-trie-reopen", "core/trie reopen: %v", err)
					}
				}
				// size of this commit as trie2 counts it
				if pendU >= trie2Threshold-1 {
					c.Label("trie2-commit-pending:" + sizeClass(pendU))
				}
				if pendU > trie2Threshold {
					c.Label("trie2-commit-pending>T")
					c.NonTrivial("commit-above-parallel-threshold")
					largeCommitted = true
					if reopen {
						c.Label("large-commit+legacy-reopen")
					}
				}
				noteHash() // Commit hashes first
				pendU = 0
				root, nodes := nt.Commit()
				want := refRoot()
				if !root.Equal(&want) {
					c.Violation("trie2-commit-root", "core/trie2 Commit root %s != reference %s", root.String(), want.String())
				}
				if persistent {
					if nodes != nil {
						b := disk.NewBatch()
						err := tdb.Update((*felt.StateRootHash)(&root), (*felt.StateRootHash)(&ntRoot), 0, nil, trienode.NewMergeNodeSet(nodes), b)
						if err == nil {
							err = b.Write()
						}
						if err != nil {
							c.Violation("trie2-persist", "trie2 node set persist: %v", err)
						}
					}
					ntRoot = root
					{
						// a committed trie2 object is unusable by design: always continue on a new trie
						// opened from the persisted node set (any non-zero state commitment makes New resolve the root)
						id := trieutils.NewContractTrieID(felt.StateRootHash(gen.F(1)))
						var err error
						nt, err = trie2.New(id, uint8(height), hashFn(posei), tdb)
						if err != nil {
							c.Violation("trie2-reopen", "core/trie2 reopen: %v", err)
						}
					}
				}
				check("after-commit")
			}
			actions := map[string]func(*rapid.T){
				"put": func(t *rapid.T) {
					k := drawKey(t)
					v := gen.NonZeroFelt().Draw(t, "v")
					c.Fp("put %s %s", k.String(), v.String())
					if largeCommitted {
						c.Label("small-op-after-large-commit")
					}
					put(k, v)
				},
				"deleteExisting": func(t *rapid.T) {
					if len(model) == 0 {
						t.Skip()
					}
					keys := sortedKeys(model)
					k := keys[rapid.IntRange(0, len(keys)-1).Draw(t, "ki")]
					c.Fp("del %s", k.String())
					if largeCommitted {
						c.Label("small-op-after-large-commit")
					}
					del(k, rapid.Bool().Draw(t, "viaDelete"))
				},
				"zeroAny": func(t *rapid.T) {
					k := drawKey(t)
					c.Fp("zero %s", k.String())
					put(k, felt.Zero)
				},
				"hash": func(t *rapid.T) {
					c.Fp("hash")
					check("hash")
				},
				"commit": commit,
				"get": func(t *rapid.T) {
					k := drawKey(t)
					c.Fp("get %s", k.String())
					getAll("get", k)
				},
				"": func(t *rapid.T) {},
			}
			if large {
				// one large batch of updates between two commits: n puts / overwrites / deletes derived from
				// (kind, key shape, seed), usually committed (and the tries reopened) right away; the small ops go on
				// afterwards on the reopened tries and keep drawing keys of the batch
				actions["bulk"] = func(t *rapid.T) {
					if bulks >= 2 {
						t.Skip()
					}
					bulks++
					n := bulkSize(t, "bulkN")
					kind := rapid.SampledFrom([]string{"insert", "insert", "overwrite", "delete", "mixed"}).Draw(t, "bulkKind")
					shape := rapid.SampledFrom(keyShapes).Draw(t, "bulkShape")
					seed := rapid.Uint64().Draw(t, "bulkSeed")
					viaDelete := rapid.Bool().Draw(t, "bulkViaDelete")
					c.Fp("bulk %d %s %s %x %v", n, kind, shape, seed, viaDelete)
					c.Label("bulk:" + kind)
					c.Label("bulk-shape:" + shape)
					c.Label("bulk-size:" + sizeClass(n))
					p := &prng{s: seed ^ 0xa5a5}
					fresh := bulkKeys(shape, seed, n, height)
					existing := sortedKeys(model)
					for i := 0; i < n; i++ {
						op := kind
						if kind == "mixed" {
							op = []string{"insert", "overwrite", "delete"}[p.intn(3)]
						}
						if len(existing) == 0 {
							op = "insert"
						}
						switch op {
						case "insert":
							put(fresh[i], p.value())
						case "overwrite":
							put(existing[p.intn(len(existing))], p.value())
						case "delete": // keys deleted earlier in the batch become zero writes to absent keys
							k := existing[p.intn(len(existing))]
							if _, present := model[k]; present {
								del(k, viaDelete)
							} else {
								put(k, felt.Zero)
							}
						}
					}
					for i := 0; i < len(fresh) && i < 12; i++ {
						extra = append(extra, fresh[p.intn(len(fresh))])
					}
					if rapid.IntRange(0, 5).Draw(t, "bulkCommit") != 0 {
						commit(t)
					}
				}
			}
			rt.Repeat(actions)
			if large && largeCommitted {
				c.Label("large-commit-then-more-ops-and-final-reads")
			}
			check("end")
			for _, k := range sortedKeys(model) {
				getAll("end", k)
			}
			// metamorphic: same key/value SET inserted in a permuted order into fresh tries gives the same root
			keys := sortedKeys(model)
			perm := rapid.Permutation(keys).Draw(rt, "perm")
			// ... and in a different split into hash/commit batches (large sets: also batches above the threshold)
			every := 3
			if len(keys) > 60 {
				every = rapid.SampledFrom([]int{trie2Threshold + 1, 3, trie2Threshold, 50, 250}).Draw(rt, "permEvery")
				c.Labelf("perm-batch-%d", every)
			}
			ft := trie2.NewEmpty(uint8(height), hashFn(posei))
			fo := &oldTrie{db: memory.New(), posei: posei, height: uint8(height)}
			fo.txn = fo.db.NewIndexedBatch()
			if err := fo.open(); err != nil {
				stats.HarnessError("open: %v", err)
			}
			for i, k := range perm {
				v := model[k]
				if err := ft.Update(&k, &v); err != nil {
					c.Violation("trie2-update", "fresh trie2 update: %v", err)
				}
				if _, err := fo.tr.Put(&k, &v); err != nil {
					c.Violation("old-trie-put", "fresh trie put: %v", err)
				}
				if i%every == every-1 {
					_, _ = ft.Hash()
					_ = fo.tr.Commit()
				}
			}
			want := refRoot()
			if r, _ := ft.Hash(); !r.Equal(&want) {
				c.Violation("trie2-order-dependence", "fresh trie2 with permuted insertion order: %s != %s", r.String(), want.String())
			}
			if r, _ := fo.tr.Hash(); !r.Equal(&want) {
				c.Violation("old-trie-order-dependence", "fresh core/trie with permuted insertion order: %s != %s", r.String(), want.String())
			}
			c.Sample(func() any { return map[string]any{"height": height, "poseidon": posei, "final_keys": len(model)} })
		})
}

func renderKV(m map[felt.Felt]felt.Felt) string {
	s := ""
	for _, k := range sortedKeys(m) {
		v := m[k]
		s += k.String() + "=" + v.String() + " "
	}
	return s
}

func sortedKeys(m map[felt.Felt]felt.Felt) []felt.Felt {
	out := make([]felt.Felt, 0, len(m))
	for k := range m {
		out = append(out, k)
	}
	sort.Slice(out, func(i, j int) bool { return out[i].Cmp(&out[j]) < 0 })
	return out
}

// ---------------------------------------------------------------------------------------------
// (b)+(c) state / node level: generated chains through Store (root sealed by the reference model) and
// through Finalise (root computed by juno, compared with the reference), both state backends,
// memory and Pebble with restarts.

func openPebble(dir string) db.KeyValueStore {
	d, err := pebblev2.New(dir)
	if err != nil {
		stats.HarnessError("pebble open: %v", err)
	}
	return d
}

func scratch() string {
	base := ""
	if st, err := os.Stat("/dev/shm"); err == nil && st.IsDir() {
		base = "/dev/shm"
	}
	d, err := os.MkdirTemp(base, "verif-c01-")
	if err != nil {
		stats.HarnessError("mkdtemp: %v", err)
	}
	return d
}

func TestPropChainStateRoot(t *testing.T) {
	stats.Check(t, stats.Budget{Quick: 400, Thorough: 2500},
		"generated chains (1-8 blocks, 4 protocol versions, state diffs consistent with the abstract state) stored on legacy and trie2 backends, memory or Pebble with restarts between blocks; 1 chain in 20 (2-6 blocks, half on Pebble) contains blocks that give ONE trie exactly n updates, n drawn around 100 (99, 100, 101, ... 300; thorough up to 1000): n slots of one contract, n contracts touched (bulk deploys / nonce bumps), n class-trie leaves (bulk Sierra declarations, migrations), overwrites/deletes of an existing large storage; never as last block, usually followed by a restart / new Blockchain object and by blocks touching the same tries; every block is sealed with the REFERENCE state root so a disagreement shows as a rejected valid block; Finalise/Simulate roots are compared with the reference; non-trivial = chain has >= 3 blocks and contains a zero write, a same-value rewrite, a class replacement, a system-contract write or a CASM migration, or a block above the threshold followed by more blocks",
		func(rt *rapid.T, c *stats.Case) {
			u := gen.NewUniverse(rt)
			ch := gen.NewChain(u, gen.Opts{MinVersionIdx: rapid.IntRange(0, 3).Draw(rt, "minver")})
			usePebble := rapid.IntRange(0, 3).Draw(rt, "pebble") == 0
			// SIZE: one chain in twenty contains blocks that are large for one trie (large_test.go)
			var plan *bigPlan
			if gen.Uniform(rt, 20, "bigChain") == 0 {
				plan = drawBigPlan(rt, u)
				usePebble = rapid.Bool().Draw(rt, "bigPebble")
				c.Label("big-chain")
				if usePebble {
					c.Label("big-chain-on-pebble")
				}
			}
			var dirs []string
			defer func() {
				for _, d := range dirs {
					os.RemoveAll(d)
				}
			}()
			mk := func(newState bool) *node.Node {
				if usePebble {
					d := scratch()
					dirs = append(dirs, d)
					return node.New(newState, openPebble(filepath.Join(d, "db")), u.Net)
				}
				return node.New(newState, nil, u.Net)
			}
			nodes := []*node.Node{mk(false), mk(true)}
			fin := []*node.Node{node.New(false, nil, u.Net), node.New(true, nil, u.Net)} // driven through Finalise
			defer func() {
				for _, n := range append(nodes, fin...) {
					n.DB.Close()
				}
			}()
			nblocks := 0
			if plan != nil {
				nblocks = plan.nblocks
			} else {
				nblocks = rapid.IntRange(1, 8).Draw(rt, "nblocks")
			}
			interesting := false
			// per trie kind: index of the first block that gave that trie more than 100 updates, and what happened after it
			crossedAt := map[string]int{}
			crossedStorage := map[felt.Felt]int{} // contract -> first block that wrote more than 100 of its slots
			prevLarge := false
			for i := 0; i < nblocks; i++ {
				var b *gen.Block
				if plan != nil {
					b = ch.Draw(rt)
					plan.augment(rt, b, i)
					ch.Blocks = append(ch.Blocks, b)
				} else {
					b = ch.Next(rt)
				}
				maxSlots, touched, classLeaves := diffSizes(b.SU.StateDiff)
				for _, tk := range []struct {
					name string
					n    int
				}{{"storage-trie", maxSlots}, {"contract-trie", touched}, {"class-trie", classLeaves}} {
					if tk.n >= trie2Threshold-1 {
						c.Labelf("block-updates-%s:%s", tk.name, sizeClass(tk.n))
					}
					if first, ok := crossedAt[tk.name]; ok && first < i && tk.n > 0 && tk.name != "storage-trie" {
						c.Label("later-block-touches-" + tk.name + "-after>T")
					}
					if tk.n > trie2Threshold {
						c.Label("block-updates-" + tk.name + ">T")
						if _, ok := crossedAt[tk.name]; !ok {
							crossedAt[tk.name] = i
						}
					}
				}
				for a, m := range b.SU.StateDiff.StorageDiffs {
					first, ok := crossedStorage[a]
					if ok && first < i && len(m) > 0 {
						c.Label("later-block-touches-storage-trie-after>T")
					}
					if !ok && len(m) > trie2Threshold {
						crossedStorage[a] = i
					}
				}
				thisLarge := maxSlots > trie2Threshold || touched > trie2Threshold || classLeaves > trie2Threshold
				if thisLarge {
					c.Label("block-above-threshold")
				}
				// restart / new Blockchain object right after a large block
				forceReopen := plan != nil && prevLarge && rapid.IntRange(0, 3).Draw(rt, "reopenAfterLarge") != 0
				prevLarge = thisLarge
				c.Fp("block %d v%s diff %s", i, b.B.ProtocolVersion, diffFp(b.SU.StateDiff))
				c.Label("ver-" + b.B.ProtocolVersion)
				for tag := range b.Tags {
					c.Label("blk:" + tag)
					switch tag {
					case "zero-to-absent", "zero-to-present", "same-value", "replace", "system-storage", "migrate", "deploy+touch":
						interesting = true
					}
				}
				// the contract records written by the head-state migration (legacy -> new layout) carry no storage root
				// ("left zero - the running node lazily backfills it"): rewrite the trie2 node's records in that format
				if i > 0 && rapid.IntRange(0, 5).Draw(rt, "stripStorageRoots") == 0 {
					n := nodes[1]
					tip := ch.Blocks[i-1].Post
					for _, a := range tip.SortedContracts() {
						ct := tip.Contracts[a]
						if ct.System {
							continue
						}
						a := a
						if err := state.WriteContract(n.DB, &a, ct.Nonce, ct.ClassHash, ct.DeployedAt); err != nil {
							stats.HarnessError("WriteContract: %v", err)
						}
					}
					n.Reopen()
					c.Label("contract-records-without-storage-root")
				}
				for _, n := range nodes {
					restart := usePebble && rapid.IntRange(0, 2).Draw(rt, "restart") == 0
					if forceReopen && !restart {
						if usePebble && rapid.Bool().Draw(rt, "restartAfterLarge") {
							restart = true
						} else {
							n.Reopen()
							c.Label("new-blockchain-object-after-large-block")
						}
					}
					if restart {
						c.Label("restart")
						if forceReopen {
							c.Label("restart-after-large-block")
						}
						p := n.DB.(interface{ Path() string }).Path()
						if err := n.DB.Close(); err != nil {
							stats.HarnessError("close: %v", err)
						}
						n.DB = openPebble(p)
						n.Reopen()
					}
					if err := n.Store(b); err != nil {
						c.Violation("valid-block-rejected-"+n.Backend(), "block %d (v%s) sealed with the reference state root %s was rejected by the %s backend: %v\ndiff: %s",
							i, b.B.ProtocolVersion, b.B.GlobalStateRoot.String(), n.Backend(), err, diffFp(b.SU.StateDiff))
					}
				}
				// Finalise path: juno computes the root itself
				var want felt.Felt
				if plan != nil {
					want = *b.SU.NewRoot // = b.Post.Commitment(version), just computed by augment (expensive for large states)
				} else {
					want = b.Post.Commitment(b.B.ProtocolVersion)
				}
				var altFor *gen.Block
				if plan == nil && rapid.IntRange(0, 2).Draw(rt, "abandonedCandidate") == 0 {
					altFor = ch.Fork(i).Draw(rt)
					c.Label("abandoned-candidate-simulated-before-the-block")
					c.Fp("abandoned %s", diffFp(altFor.SU.StateDiff))
				}
				for _, n := range fin {
					if forceReopen {
						n.Reopen()
					}
					// a dropped proposal: in a third of the (ordinary-size) blocks a DIFFERENT candidate for this height, built on the
					// same prefix, is simulated first and then abandoned (the block builder does this for every consensus proposal
					// that is not decided); nothing of it may reach the tries the real block is then applied to
					if plan == nil && altFor != nil {
						ab := cloneForFinalise(altFor, n)
						if _, err := n.BC.Simulate(ab.B, ab.SU, altFor.Classes, nil); err != nil {
							c.Violation("simulate-"+n.Backend(), "Simulate of an abandoned candidate for block %d: %v", i, err)
						}
						if wantAlt := altFor.Post.Commitment(altFor.B.ProtocolVersion); ab.B.GlobalStateRoot != nil && !ab.B.GlobalStateRoot.Equal(&wantAlt) {
							c.Violation("simulate-root-"+n.Backend(), "Simulate (%s) computed root %s for the abandoned candidate of block %d, reference %s, diff %s",
								n.Backend(), ab.B.GlobalStateRoot.String(), i, wantAlt.String(), diffFp(altFor.SU.StateDiff))
						}
					}
					fb := cloneForFinalise(b, n)
					sim, err := n.BC.Simulate(cloneForFinalise(b, n).B, cloneForFinalise(b, n).SU, b.Classes, nil)
					_ = sim
					if err != nil {
						c.Violation("simulate-"+n.Backend(), "Simulate block %d: %v", i, err)
					}
					if err := n.BC.Finalise(fb.B, fb.SU, b.Classes, nil); err != nil {
						c.Violation("finalise-"+n.Backend(), "Finalise block %d: %v", i, err)
					}
					if !fb.B.GlobalStateRoot.Equal(&want) {
						c.Violation("finalise-root-"+n.Backend(), "Finalise (%s) computed root %s, reference %s for block %d v%s diff %s",
							n.Backend(), fb.B.GlobalStateRoot.String(), want.String(), i, b.B.ProtocolVersion, diffFp(b.SU.StateDiff))
					}
				}
			}
			if nblocks >= 3 && interesting {
				c.NonTrivial("multi-block-with-structural-diff")
			}
			for _, tk := range []string{"storage-trie", "contract-trie", "class-trie"} {
				if first, ok := crossedAt[tk]; ok && first < nblocks-1 {
					c.NonTrivial("block-above-threshold-then-more-blocks")
					c.Label("chain-continues-after-" + tk + ">T")
				}
			}
			// commitments from the stored tries (read API) equal the reference too
			wantContracts, wantClasses := ch.TipState().ContractsRoot(), ch.TipState().ClassesRoot()
			for _, n := range nodes {
				sr, closer, err := n.BC.HeadState()
				if err != nil {
					c.Violation("headstate", "%s HeadState: %v", n.Backend(), err)
				}
				ct, err := sr.ContractTrie()
				if err == nil {
					h, herr := ct.Hash()
					want := wantContracts
					if herr != nil || !h.Equal(&want) {
						c.Violation("contract-trie-root-"+n.Backend(), "%s contracts trie root %s (%v) != reference %s", n.Backend(), h.String(), herr, want.String())
					}
				}
				kt, err := sr.ClassTrie()
				if err == nil {
					h, herr := kt.Hash()
					want := wantClasses
					if herr != nil || !h.Equal(&want) {
						c.Violation("class-trie-root-"+n.Backend(), "%s classes trie root %s (%v) != reference %s", n.Backend(), h.String(), herr, want.String())
					}
				}
				_ = closer()
			}
			c.Sample(func() any {
				var bl []string
				for _, b := range ch.Blocks {
					bl = append(bl, fmt.Sprintf("#%d v%s root=%s %s", b.Num(), b.B.ProtocolVersion, b.B.GlobalStateRoot.String(), diffFp(b.SU.StateDiff)))
				}
				return bl
			})
		})
}

// cloneForFinalise returns a shallow copy of the block whose header/state update may be mutated by
// Finalise (which fills in roots and hash itself). With the trie2 backend OldRoot must be the
// current root (precondition respected by the builder); the legacy backend ignores it.
func cloneForFinalise(b *gen.Block, n *node.Node) *gen.Block {
	h := *b.B.Header
	h.Hash, h.GlobalStateRoot = nil, nil
	su := *b.SU
	old := *b.SU.OldRoot
	su.OldRoot = &old
	su.NewRoot, su.BlockHash = nil, nil
	return &gen.Block{B: &core.Block{Header: &h, Transactions: b.B.Transactions, Receipts: b.B.Receipts}, SU: &su, Classes: b.Classes}
}

func diffFp(d *core.StateDiff) string { return gen.DiffString(d) }

// ---------------------------------------------------------------------------------------------
// (d) temporary tries used for block commitments: both backends vs reference (height 64)

func TestPropTempTrieBackendsAgree(t *testing.T) {
	stats.Check(t, stats.Budget{Quick: 300, Thorough: 5000},
		"generated blocks (0-12 txs with events/messages; 1 in 12 with 99..300 transactions+receipts or 99..300 events, around the 100-leaf parallel-hasher threshold of the temporary trie) hashed with core.TrieBackend and core.DeprecatedTrieBackend; commitments must agree with each other and the transaction commitment with a reference height-64 MPT over independently computed leaves; non-trivial = block has >= 2 transactions and >= 1 event",
		func(rt *rapid.T, c *stats.Case) {
			u := gen.NewUniverse(rt)
			ch := gen.NewChain(u, gen.Opts{MaxTxs: 12, MinVersionIdx: rapid.IntRange(0, 3).Draw(rt, "minver")})
			b := ch.Next(rt)
			// SIZE: one block in twelve has a transaction/receipt count or an event count around the parallel-hasher
			// threshold of the trie2-based temporary trie (> 100 leaves inserted before the single Hash call)
			if gen.Uniform(rt, 12, "bigBlock") == 0 {
				n := bulkSize(rt, "bigBlockN")
				if rapid.Bool().Draw(rt, "manyEvents") {
					c.Label("big-block:many-events")
					if len(b.B.Transactions) == 0 {
						tx := ch.DrawTx(rt, b.B.ProtocolVersion)
						b.B.Transactions = append(b.B.Transactions, tx)
						b.B.Receipts = append(b.B.Receipts, ch.DrawReceipt(rt, tx))
					}
					have := 0
					for _, r := range b.B.Receipts {
						have += len(r.Events)
					}
					for ; have < n; have++ {
						r := b.B.Receipts[rapid.IntRange(0, len(b.B.Receipts)-1).Draw(rt, "evReceipt")]
						r.Events = append(r.Events, ch.DrawEvent(rt))
					}
				} else {
					c.Label("big-block:many-txs")
					for len(b.B.Transactions) < n {
						tx := ch.DrawTx(rt, b.B.ProtocolVersion)
						b.B.Transactions = append(b.B.Transactions, tx)
						b.B.Receipts = append(b.B.Receipts, ch.DrawReceipt(rt, tx))
					}
				}
				evs := uint64(0)
				for _, r := range b.B.Receipts {
					evs += uint64(len(r.Events))
				}
				b.B.TransactionCount, b.B.EventCount = uint64(len(b.B.Transactions)), evs
				b.B.EventsBloom = core.EventsBloom(b.B.Receipts)
				gen.Rehash(b, u.Net)
			}
			if n := len(b.B.Transactions); n >= trie2Threshold-1 {
				c.Label("tx-and-receipt-trie-leaves:" + sizeClass(n))
				if n > trie2Threshold {
					c.Label("tx-and-receipt-trie-leaves>T")
				}
			}
			if n := int(b.B.EventCount); n >= trie2Threshold-1 {
				c.Label("event-trie-leaves:" + sizeClass(n))
				if n > trie2Threshold {
					c.Label("event-trie-leaves>T")
				}
			}
			c.Fp("%s %d", b.B.Hash.String(), len(b.B.Transactions))
			h1, c1, err1 := core.BlockHash(b.B, b.SU.StateDiff, u.Net, nil, core.TrieBackend)
			h2, c2, err2 := core.BlockHash(b.B, b.SU.StateDiff, u.Net, nil, core.DeprecatedTrieBackend)
			if err1 != nil || err2 != nil {
				c.Violation("blockhash-error", "BlockHash errors: %v / %v", err1, err2)
			}
			if !h1.Equal(&h2) {
				c.Violation("temp-trie-backends-disagree", "block hash differs between temporary-trie backends: %s vs %s", h1.String(), h2.String())
			}
			for name, pair := range map[string][2]*felt.Felt{
				"tx": {c1.TransactionCommitment, c2.TransactionCommitment}, "event": {c1.EventCommitment, c2.EventCommitment},
				"receipt": {c1.ReceiptCommitment, c2.ReceiptCommitment}, "statediff": {c1.StateDiffCommitment, c2.StateDiffCommitment},
			} {
				if !pair[0].Equal(pair[1]) {
					c.Violation("temp-trie-backends-disagree", "%s commitment differs between backends: %s vs %s", name, pair[0].String(), pair[1].String())
				}
			}
			// reference transaction commitment: Poseidon MPT of height 64 over H(txhash, sig...) with the version's empty-signature rule
			leaves := map[felt.Felt]felt.Felt{}
			for i, tx := range b.B.Transactions {
				var d crypto.PoseidonDigest
				d.Update(tx.Hash())
				sig := tx.Signature()
				if len(sig) > 0 {
					d.UpdateArray(sig)
				} else if b.B.ProtocolVersion == "0.13.2" {
					d.Update(&felt.Zero)
				}
				leaves[gen.F(uint64(i))] = d.Finish()
			}
			want := ref.MPT(64, ref.Poseidon, leaves)
			if !c1.TransactionCommitment.Equal(&want) {
				c.Violation("tx-commitment", "transaction commitment %s != reference %s (%d txs, v%s)", c1.TransactionCommitment.String(), want.String(), len(leaves), b.B.ProtocolVersion)
			}
			if len(b.B.Transactions) >= 2 && b.B.EventCount >= 1 {
				c.NonTrivial("multi-tx-with-events")
			}
			c.Sample(func() any {
				return map[string]any{"txs": len(b.B.Transactions), "events": b.B.EventCount, "version": b.B.ProtocolVersion, "hash": h1.String()}
			})
		})
}
