# Driver configuration for property C01
PROP = dict(
    pkg="c01", level="exploration",
    technique="model-based PBT: recursive reference MPT + abstract-state model (validated on mainnet fixtures), differential legacy vs trie2, insertion-order metamorphic relation",
    level_text=("Exploration: generated trie operation sequences and generated chains of state diffs (4 protocol versions, 2 state backends, "
                "memory/Pebble with restarts) are compared with a reference commitment computed by plain recursion on the key set; "
                "blocks are sealed with the reference root so any disagreement surfaces as a rejected valid block. Samples, no proof."),
    rule=("(a) rapid state machine put/overwrite/delete/zero-absent/commit/reopen/hash/get on core/trie and core/trie2 at heights 251/64/8/3, "
          "Pedersen and Poseidon, root compared with ref.MPT after every hash/commit plus a permuted-insertion-order re-run; "
          "(b) generated chains stored through SanityCheckNewHeight+Store (reference-sealed) and through Finalise/Simulate on both backends, "
          "the trie2 node's contract records optionally rewritten between blocks in the storage-root-less format the head-state migration writes; "
          "(c) temporary-trie backends for block commitments. Non-trivial = structural trie event (edge split, collapse, re-insert after delete, "
          "zero write to absent key, reopen between updates) / multi-block chain with a structural diff; distinct = SHA-256 of the rendered op sequence."),
    assumptions=["felt arithmetic and Pedersen/Poseidon primitives trusted (reference model calls them)",
                 "reference model self-validated on mainnet state updates 0-2 at start (failure = exit 2)",
                 "sequencer guarantees documented in core/state_update.go respected by the generator"],
    runs=[dict(run="^TestProp")],
)
