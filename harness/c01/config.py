# Driver configuration for property C01
PROP = dict(
    pkg="c01", level="exploration",
    technique="model-based PBT: recursive reference MPT + abstract-state model (validated on mainnet fixtures), differential legacy vs trie2, insertion-order metamorphic relation, commit sizes drawn around the size thresholds of the implementations; differential test of the hash primitives against independent implementations",
    level_text=("Exploration: generated trie operation sequences and generated chains of state diffs (4 protocol versions, 2 state backends, "
                "memory/Pebble with restarts) are compared with a reference commitment computed by plain recursion on the key set; "
                "blocks are sealed with the reference root so any disagreement surfaces as a rejected valid block. A drawn fraction of the "
                "cases makes single commits/blocks large for one trie (99, 100, 101 ... several hundred updates) so that the size-switched "
                "code paths (trie2 parallel collector and parallel hasher above 100 pending updates, per-contract goroutine pools, "
                "top-of-trie concurrent hashing of the legacy trie) run and their persisted result is read back after a reopen. Samples, no proof."),
    rule=("(a) rapid state machine put/overwrite/delete/zero-absent/commit/reopen/hash/get on core/trie and core/trie2 at heights 251/64/8/3, "
          "Pedersen and Poseidon, root compared with ref.MPT after every hash/commit plus a permuted-insertion-order re-run (large sets: "
          "hash/commit batches of 3, 50, 100, 101 or 250 insertions); 1 case in 32 adds up to two batches of 99..300 (thorough ..1000) "
          "inserts/overwrites/deletes over derived key sets (spread, sequential, clustered, deep-prefix, mixed) applied between two commits, "
          "usually committed and reopened at once, the following small ops and reads drawing keys of the batch; "
          "(b) generated chains stored through SanityCheckNewHeight+Store (reference-sealed) and through Finalise/Simulate on both backends, "
          "the trie2 node's contract records optionally rewritten between blocks in the storage-root-less format the head-state migration writes; "
          "1 chain in 20 contains blocks giving one trie exactly n updates (n around 100 as above): n slots of one contract, n touched contracts, "
          "n class-trie leaves, overwrite/delete of an existing large storage, followed by restart or a new Blockchain object and later blocks "
          "touching the same tries; (c) temporary-trie backends for block commitments, 1 block in 12 with 99..300 transactions or events; (d) hash primitives (Pedersen, Poseidon/Hades, Starknet keccak, felt arithmetic) against independent implementations, operands biased to 2^248 / 2^251 / P-1 / byte boundaries. "
          "Non-trivial = structural trie event (edge split, collapse, re-insert after delete, zero write to absent key, reopen between updates), "
          "commit above the threshold / multi-block chain with a structural diff or with a block above the threshold followed by more blocks; "
          "distinct = SHA-256 of the rendered op sequence."),
    assumptions=["the reference models CALL core/felt and core/crypto (Pedersen, Poseidon, Starknet keccak); these are themselves checked by TestPropHashPrimitives against gnark-crypto's pedersenhash, the defining Pedersen formula with generic scalar multiplication, a math/big Hades/sponge with the harness's own copy of the spec constants, masked Keccak-256 and math/big field arithmetic; trusted below that: gnark-crypto's curve/field arithmetic, x/crypto sha3, math/big",
                 "reference model self-validated on mainnet state updates 0-2 at start (failure = exit 2)",
                 "sequencer guarantees documented in core/state_update.go respected by the generator",
                 "keys/values of the large batches are a deterministic function (splitmix64) of drawn parameters (count, shape, 64-bit seed)"],
    runs=[dict(run="^TestProp")],
)
