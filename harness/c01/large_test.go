package c01

// Size-dependent code paths (round f). The implementations switch strategy on the SIZE of one
// commit, never on its content:
//
//   core/trie2/trie.go      Commit: pendingUpdates > 100  -> parallel collector (collector.go, keeps forking
//                           goroutines with private node sets down to node depth parallelThreshold = 8)
//   core/trie2/trie.go      Hash:   pendingHashes  > 100  -> parallel hasher (hasher.go)
//   core/trie/trie.go       updateValueIfDirty: nodes whose key is at most concurrencyMaxDepth = 8 bits long hash
//                           their children concurrently (needs dirty binary nodes in the top 8 levels: spread keys)
//   core/state/state.go,    one pooled goroutine per touched contract, pool bounded by GOMAXPROCS
//   core/deprecatedstate    (more touched contracts than cores)
//   core/receipt.go         calculateCommitment: min(GOMAXPROCS, items) workers, then items Updates + one Hash on the
//                           temporary trie (> 100 items -> parallel hasher with the trie2 backend)
//
// The helpers below draw sizes around those thresholds and derive large key sets from a few drawn
// parameters (count, shape, 64-bit seed): every value is a deterministic function of rapid draws.

import (
	"sort"
	"sync"

	"github.com/NethermindEth/juno/core"
	"github.com/NethermindEth/juno/core/felt"
	"pgregory.net/rapid"

	"verif/harness/internal/gen"
	"verif/harness/internal/ref"
	"verif/harness/internal/stats"
)

// trie2Threshold is the literal in core/trie2/trie.go (pendingUpdates > 100, pendingHashes > 100).
const trie2Threshold = 100

// bulkSize draws the number of updates of one large commit: threshold-1, threshold, threshold+1 and a few
// multiples of it. (SampledFrom favours the first entries: most sizes sit right at the threshold, which is
// also the cheapest.)
func bulkSize(t *rapid.T, label string) int {
	sizes := []int{
		trie2Threshold + 1, trie2Threshold, trie2Threshold - 1, trie2Threshold + 2, trie2Threshold + 1,
		trie2Threshold + 10, 128, 150, 2 * trie2Threshold, 256, 3 * trie2Threshold,
	}
	if stats.Thorough() {
		sizes = append(sizes, 4*trie2Threshold, 6*trie2Threshold, 10*trie2Threshold)
	}
	return rapid.SampledFrom(sizes).Draw(t, label)
}

// sizeClass renders a count relative to the threshold (labels).
func sizeClass(n int) string {
	switch {
	case n < trie2Threshold-1:
		return "<T-1"
	case n == trie2Threshold-1:
		return "T-1"
	case n == trie2Threshold:
		return "T"
	case n == trie2Threshold+1:
		return "T+1"
	case n < 2*trie2Threshold:
		return "T+2..2T"
	default:
		return ">=2T"
	}
}

// prng is splitmix64; its seed is a rapid draw.
type prng struct{ s uint64 }

func (p *prng) next() uint64 {
	p.s += 0x9e3779b97f4a7c15
	z := p.s
	z = (z ^ (z >> 30)) * 0xbf58476d1ce4e5b9
	z = (z ^ (z >> 27)) * 0x94d049bb133111eb
	return z ^ (z >> 31)
}

func (p *prng) intn(n int) int { return int(p.next() % uint64(n)) }

// felt251 is a uniformly random 251-bit value.
func (p *prng) felt251() felt.Felt {
	var b [32]byte
	for i := 0; i < 4; i++ {
		w := p.next()
		for j := 0; j < 8; j++ {
			b[i*8+j] = byte(w >> (8 * j))
		}
	}
	b[0] &= 0x07
	var f felt.Felt
	f.SetBytes(b[:])
	return f
}

// value is a non-zero trie value: small integers (collide, so that "same value" writes occur) or random.
func (p *prng) value() felt.Felt {
	if p.intn(3) == 0 {
		return gen.F(uint64(1 + p.intn(5)))
	}
	f := p.felt251()
	if f.IsZero() {
		return gen.F(7)
	}
	return f
}

var keyShapes = []string{"spread", "sequential", "clustered", "deep-prefix", "mixed"}

// bulkKeys derives n keys of the given bit height from (shape, seed):
//
//	spread       uniformly random: binary nodes in every top level, leaves far below node depth 8
//	sequential   base, base+1, ... (an array in storage): one long edge, then a complete dense subtree
//	clustered    2..5 random stems whose low 6..10 bits vary: few top binary nodes, dense bottoms
//	deep-prefix  all keys share a random-length prefix, random below it: the root is an edge
//	mixed        half spread, half sequential
//
// Keys may repeat (always at height 8): a commit's size is its number of updates, not of distinct keys.
func bulkKeys(shape string, seed uint64, n, height int) []felt.Felt {
	p := &prng{s: seed}
	out := make([]felt.Felt, 0, n)
	var one felt.Felt
	one.SetUint64(1)
	seq := func(m int) {
		base := p.felt251()
		switch p.intn(3) {
		case 0:
			base = gen.F(uint64(p.intn(4))) // slots 0.. of a contract
		case 1:
			bs := base.Bytes()
			bs[31], bs[30] = 0xff, 0xf0|bs[30] // the run carries into higher bits
			base.SetBytes(bs[:])
		}
		cur := base
		for i := 0; i < m; i++ {
			out = append(out, cur)
			cur.Add(&cur, &one)
		}
	}
	spread := func(m int) {
		for i := 0; i < m; i++ {
			out = append(out, p.felt251())
		}
	}
	switch shape {
	case "sequential":
		seq(n)
	case "clustered":
		nst := 2 + p.intn(4)
		stems := make([]felt.Felt, nst)
		for i := range stems {
			stems[i] = p.felt251()
		}
		bits := 6 + p.intn(5)
		for i := 0; i < n; i++ {
			bs := stems[p.intn(nst)].Bytes()
			low := p.next() & (1<<uint(bits) - 1)
			bs[31] = byte(low)
			hi := uint64(1)<<uint(bits) - 1
			bs[30] = bs[30]&^byte(hi>>8) | byte(low>>8)
			var f felt.Felt
			f.SetBytes(bs[:])
			out = append(out, f)
		}
	case "deep-prefix":
		plen := p.intn(241) // shared prefix bits
		if height < 251 {
			plen = p.intn(height/2 + 1)
		}
		stemF := p.felt251()
		stem := stemF.Bytes()
		for i := 0; i < n; i++ {
			rF := p.felt251()
			r := rF.Bytes()
			// the top plen bits of the height-bit key come from stem, the rest from r
			top := 256 - height // index of the key's first bit inside the 256-bit word
			for bit := top; bit < top+plen; bit++ {
				mask := byte(0x80 >> uint(bit%8))
				r[bit/8] = r[bit/8]&^mask | stem[bit/8]&mask
			}
			var f felt.Felt
			f.SetBytes(r[:])
			out = append(out, f)
		}
	case "mixed":
		spread(n / 2)
		seq(n - n/2)
	default:
		spread(n)
	}
	if height < 251 {
		for i := range out {
			bs := out[i].Bytes()
			var nb [32]byte
			full, rem := height/8, height%8
			copy(nb[32-full:], bs[32-full:])
			if rem > 0 {
				nb[32-full-1] = bs[32-full-1] & (1<<uint(rem) - 1)
			}
			out[i].SetBytes(nb[:])
		}
	} else {
		for i := range out {
			bs := out[i].Bytes()
			if bs[0]&0xf8 != 0 { // a sequential run never leaves the 251-bit key space
				bs[0] &= 0x07
				out[i].SetBytes(bs[:])
			}
		}
	}
	return out
}

// ---------------------------------------------------------------------------------------------
// a large pool of synthetic Sierra classes (class-trie commits with > 100 leaves), built lazily once per process

var (
	bigSierraMu     sync.Mutex
	bigSierra       []*gen.SierraInfo
	bigSierraByHash = map[felt.Felt]*gen.SierraInfo{}
)

// bigSierraRange returns pool entries [from, from+n).
func bigSierraRange(from, n int) []*gen.SierraInfo {
	bigSierraMu.Lock()
	defer bigSierraMu.Unlock()
	for len(bigSierra) < from+n {
		s := gen.MakeSierra(uint64(1000 + len(bigSierra)))
		bigSierra = append(bigSierra, s)
		bigSierraByHash[s.Hash] = s
	}
	return bigSierra[from : from+n]
}

func bigSierraLookup(h felt.Felt) *gen.SierraInfo {
	bigSierraMu.Lock()
	defer bigSierraMu.Unlock()
	return bigSierraByHash[h]
}

// ---------------------------------------------------------------------------------------------
// state level: chains containing blocks whose diff is large for ONE trie
//
//	storage            n slot writes to one contract (its storage trie)
//	overwrite-storage  n writes to slots that contract already has (new value / zero / same value)
//	contracts          the diff touches n contracts: bulk deploys, some with a nonce and a slot (contract trie,
//	                   and one pooled goroutine per contract in both state implementations)
//	touch-contracts    nonce updates of n contracts deployed in bulk earlier
//	classes            the diff writes n class-trie leaves: bulk Sierra declarations (+ the migrations the
//	                   ordinary generator draws for pool classes on 0.14.1 blocks)
//
// n is drawn by bulkSize and is EXACTLY the number of updates that trie receives in the block (the ordinary
// content of the block counts), so threshold-1 / threshold / threshold+1 mean what they say. The first large
// block is never the last block of the chain; later blocks are the ordinary generator's (which replaces classes
// of the bulk contracts and migrates bulk classes by itself) plus small drawn touches of the large regions.

type bigPlan struct {
	u         *gen.Universe
	nblocks   int
	first     int
	at        map[int][]string
	addr      felt.Felt   // the storage-heavy contract
	contracts []felt.Felt // deployed in bulk so far
	cursor    int         // next unused entry of the class pool
}

func drawBigPlan(t *rapid.T, u *gen.Universe) *bigPlan {
	p := &bigPlan{u: u, at: map[int][]string{}}
	p.nblocks = rapid.IntRange(2, 6).Draw(t, "bigNBlocks")
	p.first = rapid.IntRange(0, p.nblocks-2).Draw(t, "bigFirst")
	p.addr = rapid.SampledFrom(u.Addrs).Draw(t, "bigAddr")
	mask := rapid.SampledFrom([]int{1, 2, 4, 1, 3, 5, 6, 7}).Draw(t, "bigKinds")
	for i, k := range []string{"storage", "contracts", "classes"} {
		if mask&(1<<uint(i)) != 0 {
			p.at[p.first] = append(p.at[p.first], k)
		}
	}
	if rapid.Bool().Draw(t, "bigSecond") {
		at := rapid.IntRange(p.first+1, p.nblocks-1).Draw(t, "bigSecondAt")
		k := rapid.SampledFrom([]string{"overwrite-storage", "touch-contracts", "classes", "storage", "contracts"}).Draw(t, "bigSecondKind")
		p.at[at] = append(p.at[at], k)
	}
	// a medium block before the first large one: the large block then works on an existing trie
	if p.first > 0 && rapid.Bool().Draw(t, "bigPreload") {
		p.at[p.first-1] = append(p.at[p.first-1], "preload")
	}
	return p
}

func (p *bigPlan) casmV2Of(h felt.Felt) felt.Felt {
	if s := bigSierraLookup(h); s != nil {
		return s.CasmV2
	}
	return p.u.CasmV2Of(h)
}

// diffSizes: updates per trie caused by a diff = max slot writes of one contract, contracts touched, class-trie leaves written.
func diffSizes(d *core.StateDiff) (maxSlots, touched, classLeaves int) {
	seen := map[felt.Felt]struct{}{}
	for a, m := range d.StorageDiffs {
		seen[a] = struct{}{}
		if len(m) > maxSlots {
			maxSlots = len(m)
		}
	}
	for _, m := range []map[felt.Felt]*felt.Felt{d.Nonces, d.DeployedContracts, d.ReplacedClasses} {
		for a := range m {
			seen[a] = struct{}{}
		}
	}
	return maxSlots, len(seen), len(d.DeclaredV1Classes) + len(d.MigratedClasses)
}

func sortedFeltKeys[V any](m map[felt.Felt]V) []felt.Felt {
	out := make([]felt.Felt, 0, len(m))
	for k := range m {
		out = append(out, k)
	}
	sort.Slice(out, func(i, j int) bool { return out[i].Cmp(&out[j]) < 0 })
	return out
}

// classFor returns a class hash a bulk deploy may use: declared earlier, declared by this diff, or else declared here.
func (p *bigPlan) classFor(b *gen.Block) felt.Felt {
	d := b.SU.StateDiff
	if cs := b.Pre.SortedClasses(); len(cs) > 0 {
		return cs[0]
	}
	if ks := sortedFeltKeys(d.DeclaredV1Classes); len(ks) > 0 {
		return ks[0]
	}
	if len(d.DeclaredV0Classes) > 0 {
		return *d.DeclaredV0Classes[0]
	}
	h := p.u.Cairo0[0].Hash
	d.DeclaredV0Classes = append(d.DeclaredV0Classes, &h)
	b.Classes[h] = p.u.Cairo0[0].Def
	return h
}

func (p *bigPlan) ensureDeployed(b *gen.Block, a felt.Felt) {
	d := b.SU.StateDiff
	if _, ok := b.Pre.Contracts[a]; ok {
		return
	}
	if _, ok := d.DeployedContracts[a]; ok {
		return
	}
	cls := p.classFor(b)
	d.DeployedContracts[a] = &cls
}

func (p *bigPlan) storage(b *gen.Block, n int, shape string, r *prng, overwrite bool) {
	d := b.SU.StateDiff
	p.ensureDeployed(b, p.addr)
	m := d.StorageDiffs[p.addr]
	if m == nil {
		m = map[felt.Felt]*felt.Felt{}
		d.StorageDiffs[p.addr] = m
	}
	if overwrite {
		if ct, ok := b.Pre.Contracts[p.addr]; ok && len(ct.Storage) > 0 {
			ks := sortedFeltKeys(ct.Storage)
			off := r.intn(len(ks))
			for i := 0; i < len(ks) && len(m) < n; i++ {
				k := ks[(off+i)%len(ks)]
				var v felt.Felt
				switch r.intn(4) {
				case 0: // delete
				case 1:
					v = ct.Storage[k] // same value
				default:
					v = r.value()
				}
				m[k] = &v
			}
		}
	}
	for _, k := range bulkKeys(shape, r.next(), n, 251) {
		if len(m) >= n {
			break
		}
		v := r.value()
		m[k] = &v
	}
	for len(m) < n {
		k, v := r.felt251(), r.value()
		m[k] = &v
	}
}

func (p *bigPlan) contractsTouched(b *gen.Block, n int, shape string, r *prng, bumpExisting bool) {
	d := b.SU.StateDiff
	_, touched, _ := diffSizes(d)
	if bumpExisting {
		for _, a := range p.contracts {
			if touched >= n {
				break
			}
			if _, ok := b.Pre.Contracts[a]; !ok {
				continue
			}
			_, t1 := d.Nonces[a]
			_, t2 := d.ReplacedClasses[a]
			_, t3 := d.StorageDiffs[a]
			if !(t1 || t2 || t3) {
				touched++
			}
			v := r.value()
			d.Nonces[a] = &v
		}
	}
	if touched >= n {
		return
	}
	cls := p.classFor(b)
	cands := bulkKeys(shape, r.next(), n, 251)
	for i := 0; touched < n; i++ {
		var a felt.Felt
		if i < len(cands) {
			a = cands[i]
		} else {
			a = r.felt251()
		}
		if a.IsZero() || ref.IsSystem(&a) {
			continue
		}
		if _, ok := b.Pre.Contracts[a]; ok {
			continue
		}
		if _, ok := d.DeployedContracts[a]; ok {
			continue
		}
		ch := cls
		d.DeployedContracts[a] = &ch
		touched++
		p.contracts = append(p.contracts, a)
		if r.intn(3) == 0 {
			v := r.value()
			d.Nonces[a] = &v
		}
		if r.intn(4) == 0 {
			k, v := gen.F(uint64(r.intn(3))), r.value()
			d.StorageDiffs[a] = map[felt.Felt]*felt.Felt{k: &v}
		}
	}
}

func (p *bigPlan) classes(b *gen.Block, n int) {
	d := b.SU.StateDiff
	v2 := b.B.ProtocolVersion == "0.14.1"
	_, _, leaves := diffSizes(d)
	if leaves >= n {
		return
	}
	for _, s := range bigSierraRange(p.cursor, n-leaves) {
		casm := s.CasmV1
		if v2 {
			casm = s.CasmV2
		}
		d.DeclaredV1Classes[s.Hash] = &casm
		b.Classes[s.Hash] = s.Def
	}
	p.cursor += n - leaves
}

// augment enlarges the drawn block i according to the plan, re-derives the abstract post state and re-seals the block.
func (p *bigPlan) augment(t *rapid.T, b *gen.Block, i int) {
	d := b.SU.StateDiff
	// the ordinary generator migrates classes it finds in the state; for pool classes it does not know the blake2s hash
	for h := range d.MigratedClasses {
		if s := bigSierraLookup(felt.Felt(h)); s != nil {
			d.MigratedClasses[h] = felt.CasmClassHash(s.CasmV2)
		}
	}
	for _, kind := range p.at[i] {
		n := bulkSize(t, "bigN")
		if kind == "preload" {
			n = rapid.IntRange(20, trie2Threshold).Draw(t, "preloadN")
			kind = "storage"
		}
		shape := rapid.SampledFrom(keyShapes).Draw(t, "bigShape")
		r := &prng{s: rapid.Uint64().Draw(t, "bigSeed")}
		switch kind {
		case "storage":
			p.storage(b, n, shape, r, false)
		case "overwrite-storage":
			p.storage(b, n, shape, r, true)
		case "contracts":
			p.contractsTouched(b, n, shape, r, false)
		case "touch-contracts":
			p.contractsTouched(b, n, shape, r, true)
		case "classes":
			p.classes(b, n)
		}
		b.Tags["big-"+kind] = true
	}
	// small touches of the large regions in the blocks after the first large one
	if i > p.first && rapid.IntRange(0, 2).Draw(t, "bigFollowUp") != 0 {
		r := &prng{s: rapid.Uint64().Draw(t, "followSeed")}
		if ct, ok := b.Pre.Contracts[p.addr]; ok && len(ct.Storage) > 0 {
			m := d.StorageDiffs[p.addr]
			if m == nil {
				m = map[felt.Felt]*felt.Felt{}
				d.StorageDiffs[p.addr] = m
			}
			ks := sortedFeltKeys(ct.Storage)
			for j := 1 + r.intn(3); j > 0; j-- {
				var v felt.Felt
				if r.intn(3) != 0 {
					v = r.value()
				}
				m[ks[r.intn(len(ks))]] = &v
			}
			b.Tags["follow-up-storage"] = true
		}
		if len(p.contracts) > 0 {
			for j := 1 + r.intn(3); j > 0; j-- {
				a := p.contracts[r.intn(len(p.contracts))]
				if _, ok := b.Pre.Contracts[a]; ok {
					v := r.value()
					d.Nonces[a] = &v
					b.Tags["follow-up-contracts"] = true
				}
			}
		}
		if p.cursor > 0 && r.intn(2) == 0 {
			_, _, leaves := diffSizes(d)
			p.classes(b, leaves+1+r.intn(2))
			b.Tags["follow-up-classes"] = true
		}
	}
	post := b.Pre.Clone()
	if err := post.Apply(b.Num(), b.B.ProtocolVersion, d, b.Classes, p.casmV2Of); err != nil {
		stats.HarnessError("large-block generator produced an inconsistent diff: %v", err)
	}
	b.Post = post
	// re-seal: the old root (commitment of the unchanged pre-state) stays, the new root is the reference commitment
	// of the new post-state
	nr := post.Commitment(b.B.ProtocolVersion)
	b.SU.NewRoot, b.B.GlobalStateRoot = &nr, &nr
	gen.Rehash(b, p.u.Net)
}
