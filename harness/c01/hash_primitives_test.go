package c01

// The commitment formulas of C01 stand on three hash primitives of core/crypto. The reference models of this harness CALL
// them, so a wrong primitive would be wrong on both sides of every other comparison (seed C01-g: Pedersen wrong only for a
// first operand >= 2^251, which no fixture contains). This test removes them from the trusted base by differential testing
// against implementations that share no code with juno's:
//   - Pedersen: (1) gnark-crypto's pedersenhash (nibble tables), (2) the defining formula
//     [shift + a_low*P0 + a_high*P1 + b_low*P2 + b_high*P3].x evaluated with generic scalar multiplication and the harness's
//     own copy of the five curve points;
//   - Poseidon / Hades: a math/big implementation of the permutation (8 full + 83 partial rounds, x^3, the 3x3 MDS matrix
//     of the specification) and of the sponge, with the harness's own copy of the round constants;
//   - Starknet keccak: Keccak-256 reduced by masking to 250 bits, done with math/big.
// Operands are biased to the window boundaries of the table-driven implementations (2^248, 2^251, byte boundaries, P-1).

import (
	"math/big"
	"testing"

	"github.com/NethermindEth/juno/core/crypto"
	"github.com/NethermindEth/juno/core/felt"
	starkcurve "github.com/consensys/gnark-crypto/ecc/stark-curve"
	"github.com/consensys/gnark-crypto/ecc/stark-curve/fp"
	pedersenhash "github.com/consensys/gnark-crypto/ecc/stark-curve/pedersen-hash"
	"golang.org/x/crypto/sha3"
	"pgregory.net/rapid"

	"verif/harness/internal/stats"
)

var primeP, _ = new(big.Int).SetString("800000000000011000000000000000000000000000000000000000000000001", 16)

// the Starknet Pedersen points (shift point and P0..P3), from the specification
var pedersenPointsRef = [5][2]string{
	{"2089986280348253421170679821480865132823066470938446095505822317253594081284", "1713931329540660377023406109199410414810705867260802078187082345529207694986"},
	{"996781205833008774514500082376783249102396023663454813447423147977397232763", "1668503676786377725805489344771023921079126552019160156920634619255970485781"},
	{"2251563274489750535117886426533222435294046428347329203627021249169616184184", "1798716007562728905295480679789526322175868328062420237419143593021674992973"},
	{"2138414695194151160943305727036575959195309218611738193261179310511854807447", "113410276730064486255102093846540133784865286929052426931474106396135072156"},
	{"2379962749567351885752724891227938183011949129833673362440656643086021394946", "776496453633298175483985398648758586525933812536653089401905292063708816422"},
}

func refPoint(i int) *starkcurve.G1Jac {
	var a starkcurve.G1Affine
	if _, err := a.X.SetString(pedersenPointsRef[i][0]); err != nil {
		panic(err)
	}
	if _, err := a.Y.SetString(pedersenPointsRef[i][1]); err != nil {
		panic(err)
	}
	if !a.IsOnCurve() {
		panic("reference Pedersen point not on the curve")
	}
	return new(starkcurve.G1Jac).FromAffine(&a)
}

// pedersenSpec evaluates the defining formula with generic scalar multiplication.
func pedersenSpec(a, b *big.Int) *big.Int {
	low := new(big.Int).Sub(new(big.Int).Lsh(big.NewInt(1), 248), big.NewInt(1))
	acc := refPoint(0)
	add := func(i int, k *big.Int) {
		if k.Sign() == 0 {
			return
		}
		var t starkcurve.G1Jac
		t.ScalarMultiplication(refPoint(i), k)
		acc.AddAssign(&t)
	}
	add(1, new(big.Int).And(a, low))
	add(2, new(big.Int).Rsh(a, 248))
	add(3, new(big.Int).And(b, low))
	add(4, new(big.Int).Rsh(b, 248))
	var aff starkcurve.G1Affine
	aff.FromJacobian(acc)
	return aff.X.BigInt(new(big.Int))
}

func toFp(f *felt.Felt) *fp.Element {
	b := f.Bytes()
	return new(fp.Element).SetBytes(b[:])
}

func feltBig(f *felt.Felt) *big.Int {
	b := f.Bytes()
	return new(big.Int).SetBytes(b[:])
}

func bigFelt(x *big.Int) felt.Felt {
	var f felt.Felt
	f.SetBigInt(x)
	return f
}

// ---- reference Hades permutation and sponge over math/big

var refRoundKeys = func() (k [91][3]*big.Int) {
	for i, r := range poseidonRoundKeysRef {
		for j, s := range r {
			v, ok := new(big.Int).SetString(s, 10)
			if !ok || v.Cmp(primeP) >= 0 {
				panic("bad reference round key")
			}
			k[i][j] = v
		}
	}
	return
}()

func hadesRef(s *[3]*big.Int) {
	mod := func(x *big.Int) *big.Int { return x.Mod(x, primeP) }
	cube := func(x *big.Int) *big.Int {
		y := new(big.Int).Mul(x, x)
		mod(y)
		return mod(y.Mul(y, x))
	}
	for r := 0; r < 91; r++ {
		for j := 0; j < 3; j++ {
			s[j] = mod(new(big.Int).Add(s[j], refRoundKeys[r][j]))
		}
		if r < 4 || r >= 87 {
			s[0], s[1] = cube(s[0]), cube(s[1])
		}
		s[2] = cube(s[2])
		// MDS matrix of the specification: [[3,1,1],[1,-1,1],[1,1,-2]]
		t0 := new(big.Int).Add(new(big.Int).Mul(big.NewInt(3), s[0]), new(big.Int).Add(s[1], s[2]))
		t1 := new(big.Int).Add(new(big.Int).Sub(s[0], s[1]), s[2])
		t2 := new(big.Int).Sub(new(big.Int).Add(s[0], s[1]), new(big.Int).Mul(big.NewInt(2), s[2]))
		s[0], s[1], s[2] = mod(t0), mod(t1), mod(t2)
	}
}

func poseidonRef2(x, y *big.Int) *big.Int {
	s := [3]*big.Int{new(big.Int).Set(x), new(big.Int).Set(y), big.NewInt(2)}
	hadesRef(&s)
	return s[0]
}

func poseidonArrayRef(elems []*big.Int) *big.Int {
	// pad with 1, then with zeros to a multiple of the rate (2); absorb by addition
	in := append(append([]*big.Int{}, elems...), big.NewInt(1))
	if len(in)%2 == 1 {
		in = append(in, big.NewInt(0))
	}
	s := [3]*big.Int{big.NewInt(0), big.NewInt(0), big.NewInt(0)}
	for i := 0; i < len(in); i += 2 {
		s[0] = new(big.Int).Add(s[0], in[i])
		s[1] = new(big.Int).Add(s[1], in[i+1])
		hadesRef(&s)
	}
	return s[0]
}

// ---- operand generator biased to the table/window boundaries

func boundaryFelt() *rapid.Generator[felt.Felt] {
	return rapid.Custom(func(t *rapid.T) felt.Felt {
		x := new(big.Int)
		switch rapid.IntRange(0, 9).Draw(t, "kind") {
		case 0: // small
			x.SetUint64(rapid.Uint64Range(0, 300).Draw(t, "small"))
		case 1: // P - small
			x.Sub(primeP, new(big.Int).SetUint64(rapid.Uint64Range(1, 300).Draw(t, "neg")))
		case 2, 3: // around a power of two (every byte/nibble boundary incl. 2^248, 2^251)
			e := rapid.SampledFrom([]uint{4, 8, 64, 128, 192, 240, 244, 247, 248, 249, 250, 251}).Draw(t, "exp")
			x.Lsh(big.NewInt(1), e)
			x.Add(x, big.NewInt(int64(rapid.IntRange(-2, 2).Draw(t, "delta"))))
		case 4: // in [2^251, P): the top nibble is 8
			x.Lsh(big.NewInt(1), 251)
			r := new(big.Int).SetBytes(rapid.SliceOfN(rapid.Byte(), 24, 24).Draw(t, "hi"))
			x.Add(x, r.Mod(r, new(big.Int).Sub(primeP, x)))
		case 5: // one byte set
			x.Lsh(big.NewInt(int64(rapid.IntRange(1, 255).Draw(t, "byte"))), uint(8*rapid.IntRange(0, 30).Draw(t, "pos")))
		case 6: // every top nibble 0..8 with random low part
			x.SetBytes(rapid.SliceOfN(rapid.Byte(), 31, 31).Draw(t, "low"))
			x.Add(x, new(big.Int).Lsh(big.NewInt(int64(rapid.IntRange(0, 8).Draw(t, "nibble"))), 248))
		default:
			x.SetBytes(rapid.SliceOfN(rapid.Byte(), 32, 32).Draw(t, "rnd"))
		}
		if x.Sign() < 0 {
			x.Add(x, primeP)
		}
		x.Mod(x, primeP)
		return bigFelt(x)
	})
}

func TestPropHashPrimitives(t *testing.T) {
	stats.Check(t, stats.Budget{Quick: 1500, Thorough: 20000},
		"hash primitives of the commitment formulas, differential: Pedersen(a,b) vs gnark-crypto's pedersenhash and vs the defining formula with generic scalar multiplication (harness's own copy of the points); PedersenArray/Elems/Digest vs a fold of the reference; Poseidon(x,y), PoseidonArray/Elems/Digest and HadesPermutation vs a math/big implementation of the specification (own copy of the round constants); StarknetKeccak vs masked Keccak-256; operands biased to 0, small, P-small, 2^k+-2 for every table boundary (2^248, 2^251), the range [2^251,P), single bytes, every top nibble; non-trivial = an operand >= 2^248 in first or second position, distinct = SHA-256 of the operands",
		func(rt *rapid.T, c *stats.Case) {
			a, b := boundaryFelt().Draw(rt, "a"), boundaryFelt().Draw(rt, "b")
			c.Fp("ped %s %s", a.String(), b.String())
			two248 := new(big.Int).Lsh(big.NewInt(1), 248)
			two251 := new(big.Int).Lsh(big.NewInt(1), 251)
			ab, bb := feltBig(&a), feltBig(&b)
			if ab.Cmp(two248) >= 0 {
				c.NonTrivial("first-operand>=2^248")
			}
			if bb.Cmp(two248) >= 0 {
				c.NonTrivial("second-operand>=2^248")
			}
			if ab.Cmp(two251) >= 0 {
				c.Label("first-operand>=2^251")
			}
			if bb.Cmp(two251) >= 0 {
				c.Label("second-operand>=2^251")
			}
			got := crypto.Pedersen(&a, &b)
			want1 := pedersenhash.Pedersen(toFp(&a), toFp(&b))
			if w := felt.Felt(want1); !got.Equal(&w) {
				c.Violation("pedersen-vs-gnark", "Pedersen(%s, %s) = %s, gnark-crypto says %s", a.String(), b.String(), got.String(), w.String())
			}
			if w := bigFelt(pedersenSpec(ab, bb)); !got.Equal(&w) {
				c.Violation("pedersen-vs-formula", "Pedersen(%s, %s) = %s, the defining formula gives %s", a.String(), b.String(), got.String(), w.String())
			}
			// array forms: H(...H(H(0,e0),e1)..., n)
			n := rapid.IntRange(0, 5).Draw(rt, "n")
			elems := make([]felt.Felt, n)
			ptrs := make([]*felt.Felt, n)
			fps := make([]*fp.Element, n)
			bigs := make([]*big.Int, n)
			for i := range elems {
				elems[i] = boundaryFelt().Draw(rt, "e")
				ptrs[i] = &elems[i]
				fps[i] = toFp(&elems[i])
				bigs[i] = feltBig(&elems[i])
				c.Fp("e %s", elems[i].String())
			}
			wantArr := felt.Felt(pedersenhash.PedersenArray(fps...))
			if g := crypto.PedersenArray(elems); !g.Equal(&wantArr) {
				c.Violation("pedersen-array", "PedersenArray(%v) = %s, gnark-crypto says %s", elems, g.String(), wantArr.String())
			}
			if g := crypto.PedersenElems(ptrs...); !g.Equal(&wantArr) {
				c.Violation("pedersen-array", "PedersenElems(%v) = %s, gnark-crypto says %s", elems, g.String(), wantArr.String())
			}
			var pd crypto.PedersenDigest
			split := rapid.IntRange(0, n).Draw(rt, "split")
			pd.Update(ptrs[:split]...)
			pd.UpdateArray(elems[split:])
			if g := pd.Finish(); !g.Equal(&wantArr) {
				c.Violation("pedersen-digest", "PedersenDigest over %v split at %d = %s, want %s", elems, split, g.String(), wantArr.String())
			}
			// Poseidon
			if g, w := crypto.Poseidon(&a, &b), bigFelt(poseidonRef2(ab, bb)); !g.Equal(&w) {
				c.Violation("poseidon", "Poseidon(%s, %s) = %s, reference %s", a.String(), b.String(), g.String(), w.String())
			}
			wantPA := bigFelt(poseidonArrayRef(bigs))
			if g := crypto.PoseidonArray(elems); !g.Equal(&wantPA) {
				c.Violation("poseidon-array", "PoseidonArray(%v) = %s, reference %s", elems, g.String(), wantPA.String())
			}
			if g := crypto.PoseidonElems(ptrs...); !g.Equal(&wantPA) {
				c.Violation("poseidon-array", "PoseidonElems(%v) = %s, reference %s", elems, g.String(), wantPA.String())
			}
			var qd crypto.PoseidonDigest
			qd.Update(ptrs[:split]...)
			qd.UpdateArray(elems[split:])
			if g := qd.Finish(); !g.Equal(&wantPA) {
				c.Violation("poseidon-digest", "PoseidonDigest over %v split at %d = %s, reference %s", elems, split, g.String(), wantPA.String())
			}
			// raw permutation, including the cached {0,1,0} input
			st := [3]felt.Felt{a, b, boundaryFelt().Draw(rt, "s2")}
			if rapid.IntRange(0, 7).Draw(rt, "emptyInput") == 0 {
				st = [3]felt.Felt{{}, felt.One, {}}
				c.Label("hades-cached-empty-input")
			}
			rs := [3]*big.Int{feltBig(&st[0]), feltBig(&st[1]), feltBig(&st[2])}
			crypto.HadesPermutation(&st)
			hadesRef(&rs)
			for i := range st {
				if w := bigFelt(rs[i]); !st[i].Equal(&w) {
					c.Violation("hades", "HadesPermutation output %d = %s, reference %s", i, st[i].String(), w.String())
				}
			}
			// field arithmetic and the textual/byte encodings the models convert through, against math/big
			arith := func(name string, g *felt.Felt, w *big.Int) {
				w = new(big.Int).Mod(w, primeP)
				if feltBig(g).Cmp(w) != 0 {
					c.Violation("felt-arith", "%s on %s, %s = %s, math/big says 0x%x", name, a.String(), b.String(), g.String(), w)
				}
			}
			arith("Add", new(felt.Felt).Add(&a, &b), new(big.Int).Add(ab, bb))
			arith("Sub", new(felt.Felt).Sub(&a, &b), new(big.Int).Sub(ab, bb))
			arith("Mul", new(felt.Felt).Mul(&a, &b), new(big.Int).Mul(ab, bb))
			arith("Double", new(felt.Felt).Double(&a), new(big.Int).Lsh(ab, 1))
			arith("Neg", new(felt.Felt).Neg(&a), new(big.Int).Neg(ab))
			if !b.IsZero() {
				arith("Div", new(felt.Felt).Div(&a, &b), new(big.Int).Mul(ab, new(big.Int).ModInverse(bb, primeP)))
			}
			if a.Cmp(&b) != ab.Cmp(bb) || a.Equal(&b) != (ab.Cmp(bb) == 0) || a.IsZero() != (ab.Sign() == 0) || a.IsOne() != (ab.Cmp(big.NewInt(1)) == 0) {
				c.Violation("felt-arith", "Cmp/Equal/IsZero/IsOne disagree with math/big on %s, %s", a.String(), b.String())
			}
			if r, err := new(felt.Felt).SetString(a.String()); err != nil || !r.Equal(&a) || a.String() != "0x"+ab.Text(16) {
				c.Violation("felt-text", "hex form of %s does not round-trip (String %s, math/big 0x%x)", a.String(), a.String(), ab)
			}
			if by := a.Bytes(); !new(felt.Felt).SetBytes(by[:]).Equal(&a) || new(big.Int).SetBytes(a.Marshal()).Cmp(ab) != 0 {
				c.Violation("felt-bytes", "byte forms of %s do not round-trip", a.String())
			}
			// Starknet keccak
			msg := rapid.SliceOfN(rapid.Byte(), 0, 200).Draw(rt, "msg")
			h := sha3.NewLegacyKeccak256()
			h.Write(msg)
			d := new(big.Int).SetBytes(h.Sum(nil))
			d.And(d, new(big.Int).Sub(new(big.Int).Lsh(big.NewInt(1), 250), big.NewInt(1)))
			if g, w := crypto.StarknetKeccak(msg), bigFelt(d); !g.Equal(&w) {
				c.Violation("starknet-keccak", "StarknetKeccak(%x) = %s, want %s", msg, g.String(), w.String())
			}
			c.Sample(func() any {
				return map[string]any{"a": a.String(), "b": b.String(), "array_len": n, "pedersen": got.String()}
			})
		})
}
