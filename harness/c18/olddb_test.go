package c18

import (
	"bytes"
	"context"
	"encoding/binary"
	"encoding/json"
	"errors"
	"fmt"
	"sort"
	"strings"

	"github.com/NethermindEth/juno/core"
	"github.com/NethermindEth/juno/core/felt"
	"github.com/NethermindEth/juno/core/state"
	"github.com/NethermindEth/juno/db"
	"github.com/NethermindEth/juno/db/memory"
	"github.com/NethermindEth/juno/encoder"
	_ "github.com/NethermindEth/juno/encoder/registry"
	"github.com/NethermindEth/juno/migration"
	"github.com/NethermindEth/juno/migration/blocktransactions/txlayout"
	"github.com/NethermindEth/juno/pruner"
	"pgregory.net/rapid"

	"verif/harness/internal/gen"
	"verif/harness/internal/node"
	"verif/harness/internal/stats"
)

// Indexes of the migrations in the registry of node/migration.go (registerMigrations).
const (
	idxBlockTransactions = 0
	idxHistoryPruner     = 1
	idxHeadState         = 2
	idxStateDiffLength   = 3
	nRealMigrations      = 4
)

// oldBlockCommitments is core.BlockCommitments as it was encoded before StateDiffLength existed
// (same field names, CBOR map without the StateDiffLength key).
type oldBlockCommitments struct {
	TransactionCommitment *felt.Felt
	EventCommitment       *felt.Felt
	ReceiptCommitment     *felt.Felt
	StateDiffCommitment   *felt.Felt
}

type contractRec struct {
	classHash, nonce felt.Felt
	height           uint64
}

// oldDB is one generated previous-layout database with its oracle data.
type oldDB struct {
	u      *gen.Universe
	blocks []*gen.Block // oracle: original transactions / receipts / state updates
	shape  string       // "old-layout" (no metadata, per-tx buckets) | "pruned" (bits 0,1 applied, pruned prefix)
	pruned uint64       // oldest retained block (0 = nothing pruned)
	base   *memory.Database
	preset migration.SchemaVersion

	native     *memory.Database // the same chain as written by the CURRENT Store path (after pruning, before conversion)
	nativeObs  node.Obs
	nativeDump map[string]string
	ids        *node.Ids
	contracts  map[felt.Felt]contractRec // deprecated per-field contract records found in base (headstate oracle)
	txCounts   []int

	// L1 head record of the database (nil = none). The history-prune migration computes its cut-off from it; the
	// node guarantees its presence before the runner starts whenever --prune is on (node.fetchL1HeadIfMissing).
	l1Head *core.L1Head
	l1Pos  string // "none" | "behind" | "equal" | "ahead"
	// owner maps the prefix of an observation key of node.Observe ("h<block hash>", "t<tx hash>", "m<msg hash>") to
	// the number of the block the identifier belongs to.
	owner map[string]uint64
}

// dbOpts are constraints a caller puts on the generated database (forced skeletons).
type dbOpts struct {
	fixedN    int  // >= 0: exactly this many blocks
	minBlocks int  // at least this many blocks
	oldLayout bool // never the pre-pruned shape
	l1Near    bool // an L1 head record at most one block behind the local head (or ahead of it)
}

func harnessErr(err error, what string) {
	if err != nil {
		stats.HarnessError("c18 %s: %v", what, err)
	}
}

// buildOldDB draws a chain, stores it through the real Blockchain.Store (current layout), optionally prunes a
// prefix with the real pruner, and converts the image back to the previous layout.
func buildOldDB(rt *rapid.T, c *stats.Case) *oldDB { return buildOldDBOpts(rt, c, dbOpts{fixedN: -1}) }

func buildOldDBOpts(rt *rapid.T, c *stats.Case, opts dbOpts) *oldDB {
	fixedN := opts.fixedN
	u := gen.NewUniverse(rt)
	maxBlocks := stats.Pick(26, 45)
	var n int
	switch rapid.IntRange(0, 5).Draw(rt, "sizeclass") {
	case 0:
		n = rapid.IntRange(0, 2).Draw(rt, "nblocks-tiny")
	case 1:
		// around the batch boundaries of the block-transactions migration (ranges of 10 blocks)
		n = rapid.SampledFrom([]int{9, 10, 11, 19, 20, 21, 30, 31, 40, 41}).Draw(rt, "nblocks-boundary")
		if n > maxBlocks {
			n = maxBlocks
		}
	default:
		n = rapid.IntRange(0, maxBlocks).Draw(rt, "nblocks")
	}
	if n < opts.minBlocks {
		n = opts.minBlocks + rapid.IntRange(0, 6).Draw(rt, "nblocks-above-min")
	}
	if fixedN >= 0 {
		n = fixedN
	}
	leadEmpty := rapid.SampledFrom([]int{0, 0, 0, 1, 3, 10, 12, 21}).Draw(rt, "leadempty")
	ch := gen.NewChain(u, gen.Opts{MaxTxs: 3, MaxEvents: 2, MinVersionIdx: rapid.IntRange(0, 3).Draw(rt, "minver")})
	nd := node.New(false, memory.New(), u.Net)
	o := &oldDB{u: u, ids: &node.Ids{NoState: true}, owner: map[string]uint64{}}
	excludeLeadingEmpty := stats.Known(keyEmptyGap)
	anyTx := false
	for i := 0; i < n; i++ {
		if i < leadEmpty || rapid.IntRange(0, 4).Draw(rt, "forceempty") == 0 {
			ch.Opt.MaxTxs = 0 // drawTxs draws IntRange(0, MaxTxs): an empty block
		} else {
			ch.Opt.MaxTxs = 3
		}
		b := ch.Draw(rt)
		if excludeLeadingEmpty && !anyTx && len(b.B.Transactions) == 0 && (i == 9 || i == n-1) {
			// known finding keyEmptyGap: some block of the first 10-block range must carry a transaction,
			// otherwise blocks below the first non-empty range never get a combined entry
			ch.Opt.MaxTxs = 3
			for try := 0; len(b.B.Transactions) == 0; try++ {
				if try > 200 {
					rt.Skip("could not draw a non-empty block")
				}
				b = ch.Draw(rt)
			}
			c.Excluded(keyEmptyGap)
		}
		anyTx = anyTx || len(b.B.Transactions) > 0
		ch.Blocks = append(ch.Blocks, b)
		if err := nd.Store(b); err != nil {
			stats.HarnessError("c18: store of generated block %d failed: %v", i, err)
		}
		o.ids.AddBlock(b)
		o.txCounts = append(o.txCounts, len(b.B.Transactions))
		o.owner["h"+b.B.Hash.String()] = b.Num()
		for _, tx := range b.B.Transactions {
			o.owner["t"+tx.Hash().String()] = b.Num()
			if l1, ok := tx.(*core.L1HandlerTransaction); ok {
				o.owner[fmt.Sprintf("m%x", l1.MessageHash())] = b.Num()
			}
		}
	}
	o.blocks = ch.Blocks
	native := nd.DB.(*memory.Database)

	// L1 head record, written the way the L1 client does (Blockchain.SetL1Head): whatever block L1 has verified,
	// behind, at, or - while the node is still syncing - ahead of the local head.
	o.l1Pos = rapid.SampledFrom([]string{"none", "behind", "equal", "equal", "ahead"}).Draw(rt, "l1head")
	if opts.l1Near && (o.l1Pos == "none" || o.l1Pos == "behind") {
		o.l1Pos = rapid.SampledFrom([]string{"behind-by-1", "equal", "ahead"}).Draw(rt, "l1head-near")
	}
	if n == 0 && o.l1Pos != "none" {
		o.l1Pos = "ahead"
	}
	if n == 1 && strings.HasPrefix(o.l1Pos, "behind") {
		o.l1Pos = "equal"
	}
	if o.l1Pos != "none" {
		var num uint64
		switch o.l1Pos {
		case "behind":
			num = uint64(rapid.IntRange(0, n-2).Draw(rt, "l1head-number"))
		case "behind-by-1":
			num, o.l1Pos = uint64(n-2), "behind"
		case "equal":
			num = uint64(n - 1)
		default:
			num = uint64(n + rapid.IntRange(0, 4).Draw(rt, "l1head-ahead"))
		}
		o.l1Head = &core.L1Head{BlockNumber: num, BlockHash: gen.FP(0x11ead0000 + num), StateRoot: gen.FP(0x57a7e0000 + num)}
		if num < uint64(n) {
			o.l1Head.BlockHash, o.l1Head.StateRoot = o.blocks[num].B.Hash, o.blocks[num].B.GlobalStateRoot
		}
		harnessErr(nd.BC.SetL1Head(o.l1Head), "SetL1Head")
	}

	o.shape = "old-layout"
	if n >= 2 && !opts.oldLayout && rapid.IntRange(0, 3).Draw(rt, "shape") == 0 {
		o.shape = "pruned"
		o.pruned = uint64(rapid.IntRange(1, n-1).Draw(rt, "prunedprefix"))
		_, oldest, err := pruner.PruneUpto(context.Background(), native, o.pruned, 1<<30)
		harnessErr(err, "pruner.PruneUpto")
		if oldest != o.pruned {
			stats.HarnessError("c18: pruner kept %d, wanted %d", oldest, o.pruned)
		}
		o.preset.Set(idxBlockTransactions)
		o.preset.Set(idxHistoryPruner)
	}
	o.native = native
	o.nativeObs = node.New(false, native.Copy(), u.Net).Observe(o.ids)
	o.nativeDump = node.Dump(native)

	base := native.Copy()
	for _, b := range o.blocks {
		num := b.Num()
		if num < o.pruned {
			continue
		}
		if o.shape == "old-layout" {
			harnessErr(core.BlockTransactionsBucket.Delete(base, num), "delete combined entry")
			harnessErr(txlayout.TransactionLayoutPerTx.WriteTransactionsAndReceipts(base, num, b.B.Transactions, b.B.Receipts), "write per-tx layout")
		}
		cm, err := core.GetBlockCommitmentByBlockNum(base, num)
		harnessErr(err, "read commitments")
		enc, err := encoder.Marshal(&oldBlockCommitments{cm.TransactionCommitment, cm.EventCommitment, cm.ReceiptCommitment, cm.StateDiffCommitment})
		harnessErr(err, "encode old commitments")
		harnessErr(base.Put(db.BlockCommitmentsKey(num), enc), "write old commitments")
		// sanity of the harness: the record decodes with length 0
		back, err := core.GetBlockCommitmentByBlockNum(base, num)
		if err != nil || back.StateDiffLength != 0 {
			stats.HarnessError("c18: old-format commitments do not decode as length 0: %v %v", back, err)
		}
	}
	if o.shape == "pruned" {
		harnessErr(migration.WriteSchemaMetadata(base, migration.SchemaMetadata{CurrentVersion: o.preset, LastTargetVersion: o.preset}), "preset metadata")
	}
	o.base = base

	// deprecated per-field contract records (input of the head-state migration)
	o.contracts = map[felt.Felt]contractRec{}
	pfx := db.ContractClassHash.Key()
	it, err := base.NewIterator(pfx, true)
	harnessErr(err, "iterate contracts")
	for ok := it.First(); ok; ok = it.Next() {
		k := it.Key()
		if len(k) != len(pfx)+felt.Bytes {
			continue
		}
		var a felt.Felt
		a.SetBytes(k[len(pfx):])
		chh, err := core.GetContractClassHash(base, &a)
		harnessErr(err, "class hash")
		nn, err := core.GetContractNonce(base, &a)
		if err != nil && !errors.Is(err, db.ErrKeyNotFound) {
			harnessErr(err, "nonce")
		}
		hh, err := core.GetContractDeploymentHeight(base, &a)
		harnessErr(err, "deployment height")
		o.contracts[a] = contractRec{chh, nn, hh}
	}
	it.Close()

	c.Label("shape:" + o.shape)
	c.Label("l1head:" + o.l1Pos)
	c.Labelf("blocks:%s", bucketOf(n))
	if n > 0 && leadEmpty > 0 {
		c.Label("leading-empty-blocks")
	}
	c.Fp("shape %s pruned %d n %d txs %v l1 %s", o.shape, o.pruned, n, o.txCounts, o.l1Desc())
	for _, b := range o.blocks {
		c.Fp("%s", b.B.Hash.ShortString())
	}
	return o
}

func bucketOf(n int) string {
	switch {
	case n == 0:
		return "0"
	case n <= 10:
		return "1-10"
	case n <= 20:
		return "11-20"
	case n <= 30:
		return "21-30"
	default:
		return "31+"
	}
}

func js(v any) string {
	b, err := json.Marshal(v)
	if err != nil {
		return "!json:" + err.Error()
	}
	return string(b)
}

func hasPrefixKey(d db.KeyValueReader, prefix []byte) (bool, string) {
	it, err := d.NewIterator(prefix, true)
	if err != nil {
		return true, "iterator: " + err.Error()
	}
	defer it.Close()
	if it.First() {
		return true, fmt.Sprintf("%x", it.Key())
	}
	return false, ""
}

// --- post-conditions of the real migrations, stated against the ORIGINAL data (o.blocks) -------------------

// postBlockTransactions: every retained block's transactions and receipts are readable through the current
// accessors with their original content, derived lookups work, the per-tx buckets are empty. Returns "" or a
// description of the first discrepancy.
func (o *oldDB) postBlockTransactions(d db.KeyValueReader) string {
	return o.postBlockTransactionsFrom(d, o.pruned, true)
}

// postBlockTransactionsFrom: the same for the blocks at or above floor. hashLookups=false leaves out the hash-keyed
// reverse lookups (tx hash -> (block, index), L1 message hash -> tx hash): the history-prune migration wipes and
// rebuilds them, so they are legitimately absent on an image it was interrupted on (no node can serve from such an
// image: the runner must finish the opted-into migration first and opting out is refused).
func (o *oldDB) postBlockTransactionsFrom(d db.KeyValueReader, floor uint64, hashLookups bool) string {
	if has, k := hasPrefixKey(d, db.TransactionsByBlockNumberAndIndex.Key()); has {
		return "old bucket TransactionsByBlockNumberAndIndex not empty: " + k
	}
	if has, k := hasPrefixKey(d, db.ReceiptsByBlockNumberAndIndex.Key()); has {
		return "old bucket ReceiptsByBlockNumberAndIndex not empty: " + k
	}
	for _, b := range o.blocks {
		num := b.Num()
		if num < floor {
			continue
		}
		T, R := b.B.Transactions, b.B.Receipts
		txs, err := core.GetTransactionsByBlockNumber(d, num)
		if err != nil || len(txs) != len(T) {
			return fmt.Sprintf("block %d: GetTransactionsByBlockNumber = %d txs, %v; original %d", num, len(txs), err, len(T))
		}
		rcs, err := core.GetReceiptsByBlockNumber(d, num)
		if err != nil || len(rcs) != len(R) {
			return fmt.Sprintf("block %d: GetReceiptsByBlockNumber = %d receipts, %v; original %d", num, len(rcs), err, len(R))
		}
		t2, r2, err := core.GetTransactionsAndReceiptsByBlockNumber(d, num)
		if err != nil || len(t2) != len(T) || len(r2) != len(R) {
			return fmt.Sprintf("block %d: GetTransactionsAndReceiptsByBlockNumber = %d/%d, %v; original %d", num, len(t2), len(r2), err, len(T))
		}
		hs, err := core.GetTransactionHashesByBlockNumber(d, num)
		if err != nil || len(hs) != len(T) {
			return fmt.Sprintf("block %d: GetTransactionHashesByBlockNumber = %d, %v; original %d", num, len(hs), err, len(T))
		}
		evs, err := core.GetTransactionEventsByBlockNumber(d, num)
		if err != nil || len(evs) != len(T) {
			return fmt.Sprintf("block %d: GetTransactionEventsByBlockNumber = %d, %v; original %d", num, len(evs), err, len(T))
		}
		blk, err := core.GetBlockByNumber(d, num)
		if err != nil || len(blk.Transactions) != len(T) || len(blk.Receipts) != len(R) || blk.TransactionCount != uint64(len(T)) {
			return fmt.Sprintf("block %d: GetBlockByNumber: %v", num, err)
		}
		for i := range T {
			wt, wr := js(T[i]), js(R[i])
			if js(txs[i]) != wt || js(t2[i]) != wt || js(blk.Transactions[i]) != wt {
				return fmt.Sprintf("block %d tx %d: content differs: %s VS original %s", num, i, js(txs[i]), wt)
			}
			if js(rcs[i]) != wr || js(r2[i]) != wr || js(blk.Receipts[i]) != wr {
				return fmt.Sprintf("block %d receipt %d: content differs: %s VS original %s", num, i, js(rcs[i]), wr)
			}
			if !hs[i].Equal(T[i].Hash()) {
				return fmt.Sprintf("block %d tx %d: hash list has %s", num, i, hs[i].String())
			}
			if js(evs[i].Events) != js(R[i].Events) && !(len(evs[i].Events) == 0 && len(R[i].Events) == 0) {
				return fmt.Sprintf("block %d tx %d: events projection differs", num, i)
			}
			if evs[i].TransactionHash == nil || !evs[i].TransactionHash.Equal(T[i].Hash()) {
				return fmt.Sprintf("block %d tx %d: events projection tx hash differs", num, i)
			}
			tx, err := core.GetTransactionByBlockAndIndex(d, num, uint64(i))
			if err != nil || js(tx) != wt {
				return fmt.Sprintf("block %d: GetTransactionByBlockAndIndex(%d) = %s, %v", num, i, js(tx), err)
			}
			rc, err := core.GetReceiptByBlockAndIndex(d, num, uint64(i))
			if err != nil || js(rc) != wr {
				return fmt.Sprintf("block %d: GetReceiptByBlockAndIndex(%d) = %s, %v", num, i, js(rc), err)
			}
			tx3, rc3, err := core.GetTransactionAndReceiptByBlockAndIndex(d, num, uint64(i))
			if err != nil || js(tx3) != wt || js(rc3) != wr {
				return fmt.Sprintf("block %d: GetTransactionAndReceiptByBlockAndIndex(%d): %v", num, i, err)
			}
			st, err := core.GetTransactionExecutionStatusByBlockAndIndex(d, num, uint64(i))
			if err != nil || st.Reverted != R[i].Reverted || st.RevertReason != R[i].RevertReason {
				return fmt.Sprintf("block %d: execution status (%d) = %+v, %v", num, i, st, err)
			}
			if !hashLookups {
				continue
			}
			th := (*felt.TransactionHash)(T[i].Hash())
			txh, err := core.GetTransactionByHash(d, th)
			if err != nil || js(txh) != wt {
				return fmt.Sprintf("block %d tx %d: GetTransactionByHash = %s, %v", num, i, js(txh), err)
			}
			loc, err := core.TransactionBlockNumbersAndIndicesByHashBucket.Get(d, th)
			if err != nil || loc.Number != num || loc.Index != uint64(i) {
				return fmt.Sprintf("block %d tx %d: hash -> (block,index) = %+v, %v", num, i, loc, err)
			}
			if l1, ok := T[i].(*core.L1HandlerTransaction); ok {
				h, err := core.GetL1HandlerTxnHashByMsgHash(d, l1.MessageHash())
				if err != nil || !h.Equal(T[i].Hash()) {
					return fmt.Sprintf("block %d tx %d: L1 handler message lookup = %s, %v", num, i, h.String(), err)
				}
			}
		}
		if _, err := core.GetTransactionByBlockAndIndex(d, num, uint64(len(T))); err == nil {
			return fmt.Sprintf("block %d: GetTransactionByBlockAndIndex(%d) beyond the block succeeded", num, len(T))
		}
	}
	return ""
}

// postStateDiffLength: every retained block's commitments carry StateDiff.Length() of the ORIGINAL state update and
// are otherwise unchanged.
func (o *oldDB) postStateDiffLength(d db.KeyValueReader) string {
	return o.postStateDiffLengthFrom(d, o.pruned)
}

func (o *oldDB) postStateDiffLengthFrom(d db.KeyValueReader, floor uint64) string {
	for _, b := range o.blocks {
		num := b.Num()
		if num < floor {
			continue
		}
		cm, err := core.GetBlockCommitmentByBlockNum(d, num)
		if err != nil {
			return fmt.Sprintf("block %d: commitments: %v", num, err)
		}
		if want := b.SU.StateDiff.Length(); cm.StateDiffLength != want {
			return fmt.Sprintf("block %d: StateDiffLength = %d, StateDiff.Length() of the original update = %d", num, cm.StateDiffLength, want)
		}
		nat, err := core.GetBlockCommitmentByBlockNum(o.native, num)
		if err != nil || js(nat) != js(cm) {
			return fmt.Sprintf("block %d: commitments %s differ from the natively stored %s", num, js(cm), js(nat))
		}
	}
	return ""
}

// postHeadState: the deprecated per-field buckets are empty and every address they held has a consolidated record
// with the same class hash, nonce and deployment height.
func (o *oldDB) postHeadState(d db.KeyValueReader) string {
	for _, bk := range []db.Bucket{db.ContractClassHash, db.ContractNonce, db.ContractDeploymentHeight} {
		if has, k := hasPrefixKey(d, bk.Key()); has {
			return fmt.Sprintf("deprecated bucket %s not empty: %s", bk, k)
		}
	}
	addrs := make([]felt.Felt, 0, len(o.contracts))
	for a := range o.contracts {
		addrs = append(addrs, a)
	}
	sort.Slice(addrs, func(i, j int) bool { return addrs[i].Cmp(&addrs[j]) < 0 })
	for _, a := range addrs {
		want := o.contracts[a]
		a := a
		got, err := state.GetContract(d, &a)
		if err != nil {
			return fmt.Sprintf("contract %s: consolidated record missing: %v", a.ShortString(), err)
		}
		if !got.ClassHash.Equal(&want.classHash) || !got.Nonce.Equal(&want.nonce) || got.DeployedHeight != want.height {
			return fmt.Sprintf("contract %s: consolidated record %+v, deprecated fields were %+v", a.ShortString(), got, want)
		}
	}
	return ""
}

func (o *oldDB) postcondition(idx int, d db.KeyValueReader) string {
	return o.postconditionFrom(idx, d, o.pruned, true)
}

// postconditionFrom: post-condition of migration idx for the blocks at or above floor (see postBlockTransactionsFrom
// for hashLookups).
func (o *oldDB) postconditionFrom(idx int, d db.KeyValueReader, floor uint64, hashLookups bool) string {
	switch idx {
	case idxBlockTransactions:
		return o.postBlockTransactionsFrom(d, floor, hashLookups)
	case idxStateDiffLength:
		return o.postStateDiffLengthFrom(d, floor)
	case idxHeadState:
		return o.postHeadState(d)
	}
	return ""
}

// --- history pruning ------------------------------------------------------------------------------------------

func (o *oldDB) l1Desc() string {
	if o.l1Head == nil {
		return "none"
	}
	return fmt.Sprintf("%s(%d)", o.l1Pos, o.l1Head.BlockNumber)
}

// docFloor is the retention floor the history-prune migration documents for this database ("keep blocks in
// [pivot - N, l2_head], prune below", pivot = min(L1 head, local head); nothing is pruned when the chain is
// shorter than the retention window): the oldest block that MUST still be there afterwards is never above it.
func (o *oldDB) docFloor(retained uint64) uint64 {
	if len(o.blocks) == 0 || o.l1Head == nil {
		return o.pruned
	}
	pivot := min(o.l1Head.BlockNumber, uint64(len(o.blocks)-1))
	if pivot < retained {
		return o.pruned
	}
	return max(pivot-retained, o.pruned)
}

// imgFloor is the actual retention floor of an image (pruner.OldestRetainedBlock; an image without any block: 0,
// an image of a non-empty chain that retains nothing: the chain length).
func (o *oldDB) imgFloor(img db.KeyValueReader) uint64 {
	f, err := pruner.OldestRetainedBlock(img)
	if errors.Is(err, db.ErrKeyNotFound) {
		return uint64(len(o.blocks))
	}
	harnessErr(err, "OldestRetainedBlock")
	return f
}

// obsBlock maps an observation key of node.Observe to the block it is about (ok=false: a chain-level answer such as
// height, head, L1 head).
func (o *oldDB) obsBlock(key string) (uint64, bool) {
	cut := strings.IndexByte(key, '/')
	pfx := key
	if cut >= 0 {
		pfx = key[:cut]
	}
	if len(pfx) > 1 && pfx[0] == 'n' {
		var n uint64
		if _, err := fmt.Sscanf(pfx[1:], "%d", &n); err == nil {
			return n, true
		}
	}
	n, ok := o.owner[pfx]
	return n, ok
}

// readerAPIAboveFloor compares the whole Reader API on img with the natively written, UNPRUNED twin: every answer
// about a block at or above floor (and every chain-level answer) must be identical; an answer about a block below
// the floor is either an error (reported missing) or identical to the original - never a partial or different one.
func (o *oldDB) readerAPIAboveFloor(img *memory.Database, floor uint64, max int) []string {
	got := node.New(false, img.Copy(), o.u.Net).Observe(o.ids)
	keys := make([]string, 0, len(got)+len(o.nativeObs))
	seen := map[string]bool{}
	for k := range got {
		keys, seen[k] = append(keys, k), true
	}
	for k := range o.nativeObs {
		if !seen[k] {
			keys = append(keys, k)
		}
	}
	sort.Strings(keys)
	var out []string
	for _, k := range keys {
		g, gok := got[k]
		w := o.nativeObs[k]
		if gok && g == w {
			continue
		}
		num, isBlock := o.obsBlock(k)
		if isBlock && (num < floor || num >= uint64(len(o.blocks))) && (!gok || strings.HasPrefix(g, "!")) {
			continue // below the floor (or beyond the chain): reported missing
		}
		trunc := func(s string) string {
			if len(s) > 300 {
				return s[:300] + "…"
			}
			return s
		}
		where := "chain-level"
		if isBlock {
			where = fmt.Sprintf("block %d, floor %d", num, floor)
		}
		out = append(out, fmt.Sprintf("%s (%s): %s  VS native  %s", k, where, trunc(g), trunc(w)))
		if len(out) >= max {
			break
		}
	}
	return out
}

// readMeta reads the schema metadata of an image (zero when absent) and the intermediate states.
func readMeta(d db.KeyValueReader, n int) (migration.SchemaMetadata, map[int][]byte) {
	md, err := migration.GetSchemaMetadata(d)
	if err != nil && !errors.Is(err, db.ErrKeyNotFound) {
		stats.HarnessError("c18: schema metadata unreadable: %v", err)
	}
	inter := map[int][]byte{}
	for i := 0; i < n; i++ {
		s, err := migration.GetIntermediateState(d, uint8(i))
		if err == nil {
			if s == nil {
				s = []byte{}
			}
			inter[i] = append([]byte{}, s...)
		} else if !errors.Is(err, db.ErrKeyNotFound) {
			stats.HarnessError("c18: intermediate state unreadable: %v", err)
		}
	}
	return md, inter
}

// dumpDiff lists up to max differing keys of two raw dumps.
func dumpDiff(a, b map[string]string, max int) []string {
	keys := map[string]bool{}
	for k := range a {
		keys[k] = true
	}
	for k := range b {
		keys[k] = true
	}
	ks := make([]string, 0, len(keys))
	for k := range keys {
		ks = append(ks, k)
	}
	sort.Strings(ks)
	var out []string
	for _, k := range ks {
		x, okx := a[k]
		y, oky := b[k]
		if okx == oky && x == y {
			continue
		}
		bn := "?"
		if len(k) > 0 {
			bn = db.Bucket(k[0]).String()
		}
		trunc := func(s string, ok bool) string {
			if !ok {
				return "<absent>"
			}
			if len(s) > 40 {
				return fmt.Sprintf("%x…(%d bytes)", s[:40], len(s))
			}
			return fmt.Sprintf("%x", s)
		}
		out = append(out, fmt.Sprintf("[%s] %x: %s VS %s", bn, k, trunc(x, okx), trunc(y, oky)))
		if len(out) >= max {
			break
		}
	}
	return out
}

func sameDump(a, b map[string]string) bool {
	if len(a) != len(b) {
		return false
	}
	for k, v := range a {
		if w, ok := b[k]; !ok || w != v {
			return false
		}
	}
	return true
}

func clone(b []byte) []byte {
	if b == nil {
		return nil
	}
	return append([]byte{}, b...)
}

var _ = bytes.Equal
var _ = strings.Join

// firstOldBlock returns the lowest block number that still has an entry in the per-tx transaction bucket.
func firstOldBlock(d db.KeyValueReader) (uint64, bool) {
	it, err := d.NewIterator(db.TransactionsByBlockNumberAndIndex.Key(), true)
	if err != nil {
		return 0, false
	}
	defer it.Close()
	if !it.First() || len(it.Key()) < 9 {
		return 0, false
	}
	return binary.BigEndian.Uint64(it.Key()[1:9]), true
}

// btOverwriteClass reports whether img is in the input class of known finding keyBTOverwrite: the per-tx buckets
// still hold a block, and a non-empty block at or above that block's 10-aligned range start already has its
// combined entry and no per-tx entries (its range was committed before an earlier one).
func (o *oldDB) btOverwriteClass(img db.KeyValueReader) bool {
	first, ok := firstOldBlock(img)
	if !ok {
		return false
	}
	start := first - first%10
	for _, b := range o.blocks {
		if b.Num() < start || len(b.B.Transactions) == 0 {
			continue
		}
		has, err := core.BlockTransactionsBucket.Has(img, b.Num())
		if err != nil || !has {
			continue
		}
		old, _ := hasPrefixKey(img, db.TransactionsByBlockNumberAndIndex.Key(uint64be(b.Num())))
		if !old {
			return true
		}
	}
	return false
}

func uint64be(n uint64) []byte {
	var b [8]byte
	binary.BigEndian.PutUint64(b[:], n)
	return b[:]
}

// emptyGapClass reports whether img is in the input class of known finding keyEmptyGap: the block-transactions
// migration is not applied yet and some retained block without a combined entry lies below the 10-aligned range of
// the first block that still has per-tx entries (or no per-tx entries are left at all), so that the resumed
// migration will never visit it - and every such block is an EMPTY block (original transaction count 0).
func (o *oldDB) emptyGapClass(img db.KeyValueReader) bool {
	md, _ := readMeta(img, nRealMigrations)
	if md.CurrentVersion.Has(idxBlockTransactions) {
		return false
	}
	first, ok := firstOldBlock(img)
	start := first - first%10
	found := false
	for _, b := range o.blocks {
		if ok && b.Num() >= start {
			break
		}
		has, err := core.BlockTransactionsBucket.Has(img, b.Num())
		if err == nil && !has {
			if len(b.B.Transactions) > 0 {
				return false // a block WITH transactions has neither layout: not this finding, let the oracles speak
			}
			found = true
		}
	}
	return found
}

// staleStagerClass reports whether img is in the input class of known finding keyPruneStaleStager: the history-prune
// migration is not applied, its persisted intermediate state is a STAGER checkpoint (restorer not begun) above the
// pinned floor, and the live history buckets hold an entry of a block in [floor, checkpoint) that has no copy in the
// scratch namespace. The resumed migration stages only the blocks from the checkpoint on, wipes the live history
// buckets and restores them from scratch - that entry is lost. (The stager's own interruption never produces such
// an image: everything below the checkpoint it returns was staged and committed. It takes a later lifetime that ran
// through to the scratch wipe and died before the runner's "applied" commit.)
func (o *oldDB) staleStagerClass(img db.KeyValueReader) bool {
	md, inter := readMeta(img, nRealMigrations)
	st, ok := inter[idxHistoryPruner]
	if md.CurrentVersion.Has(idxHistoryPruner) || !ok || len(st) != 24 {
		return false
	}
	stager, restorer, floor := binary.BigEndian.Uint64(st[0:8]), binary.BigEndian.Uint64(st[8:16]), binary.BigEndian.Uint64(st[16:24])
	if restorer != 0 || stager <= floor {
		return false
	}
	for _, bk := range []db.Bucket{db.DeprecatedContractStorageHistory, db.DeprecatedContractNonceHistory, db.DeprecatedContractClassHashHistory} {
		it, err := img.NewIterator(bk.Key(), true)
		harnessErr(err, "iterate history")
		for ok := it.First(); ok; ok = it.Next() {
			key := it.Key()
			if len(key) < 9 {
				continue
			}
			if b := binary.BigEndian.Uint64(key[len(key)-8:]); b < floor || b >= stager {
				continue
			}
			has, err := img.Has(append([]byte{byte(db.Temporary)}, key...))
			harnessErr(err, "scratch lookup")
			if !has {
				it.Close()
				return true
			}
		}
		it.Close()
	}
	return false
}
