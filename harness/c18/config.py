# Driver configuration for property C18 (read by /verif/checks_config.py)
PROP = dict(
    pkg="c18", level="fault_enumeration",
    technique=("crash-point / cancellation-point enumeration over the real migration.Runner with the real migrators on generated "
               "previous-layout databases (fault-injecting KeyValueStore: crash after commit k, cancel at DB operation k, I/O error returned by DB operation k (reads and commits; staged writes into a batch cannot fail in the real stores) after which the process exits and is restarted, slow-read gate), "
               "optional flags --new-state and --prune-mode each switched on at a drawn restart, the real history-prune migration in the loop; "
               "differential against the uninterrupted upgrade (under the final flags) and the natively written database above the image's retention floor; "
               "trace checker for the runner bookkeeping"),
    level_text=("Fault enumeration: for every generated previous-layout database the upgrade is first run uninterrupted (reference image, "
                "W commits, N database operations); the thorough tier then interrupts it after EVERY commit (simulated process death, frozen image) "
                "and at EVERY database operation (context cancellation), the quick tier at 4-8 drawn points aimed at the inside of the migrations; "
                "each interruption is followed by 0-2 further drawn interruptions and restarts until completion, with --new-state and --prune-mode "
                "each given from a drawn restart (0,1,2) on, so that optional migrations of a LOWER index become pending after a higher one was "
                "interrupted (history pruning after a half-done state-diff-length backfill). Every image a later process can "
                "find is checked (applied => post-condition for every block at or above the image's ACTUAL retention floor, which never exceeds "
                "pivot - retained; no block lost before pruning ran), the final image must equal the reference under the final flags byte for byte "
                "(this holds on the unchanged tree also when pruning is switched on late: what an earlier backfill wrote below the floor is deleted "
                "with the block), and after late pruning the completed image itself answers the whole Reader API like the natively written database "
                "for retained blocks (below the floor: missing or original, never partial). Exhaustive over interruption "
                "points of the explored schedules; commit ORDER inside a migration's worker pool is scheduler-dependent and only sampled "
                "(natural order + one drawn slow read). The runner's rules are checked on synthetic migrations over all documented return shapes."),
    rule=("TestPropRealMigrations: chain of 0-26 (quick) / 0-45 (thorough) generated blocks incl. empty blocks, leading empty runs and lengths around "
          "the 10-block batch boundary, stored with Blockchain.Store and converted back (per-tx buckets via migration/blocktransactions/txlayout, "
          "commitments re-encoded without StateDiffLength; 1/4 of the cases: prefix pruned by pruner.PruneUpto, migrations 0 and 1 pre-applied); "
          "L1 head record written through Blockchain.SetL1Head: none / behind / equal / ahead of the local head (pruning is drawn only when there is one, "
          "as node.fetchL1HeadIfMissing guarantees); "
          "registry = node.registerMigrations (blocktransactions, historyprunner[opt, built with a drawn --prune-mode value 0,1,2,5,>chain and minAge 0, "
          "enabled from a drawn restart on, also on top of the per-tx layout and together with --new-state], headstate[opt, enabled from a drawn restart on], "
          "statedifflength). 1/6 of the cases follow a forced skeleton: >= 12 blocks, L1 head near the local head, run 0 without pruning and cancelled "
          "inside the state-diff-length backfill, --prune-mode 0-2 from run 1 on (the checkpoint then lies below the new floor in about 1/5 of all cases). "
          "A scenario stops (counted as excluded) when a restart image falls into the class of a listed known finding (block-transactions empty-block gap; "
          "history-prune stager checkpoint that outlived a lifetime which wiped the scratch namespace and died before the applied commit). "
          "Non-trivial = the first interruption landed strictly inside a migration (after its first commit, before its last), or a backfill checkpoint "
          "was left below the floor the history-prune migration established at a later restart; distinct = SHA-256 of "
          "chain + plan. TestPropRunnerBookkeeping: 1-5 synthetic migrations x scripts over (nil,nil) (state,nil) (state,ctxErr) (nil,ctxErr) "
          "(nil,otherErr) (state,otherErr) x cancellation during Migrate x Before failure x 1-7 process lifetimes with optional flags toggled, "
          "truncated registries, pre-cancelled contexts and crashes; non-trivial = a lifetime resumed from persisted intermediate state or a refusal rule fired."),
    assumptions=["memory.Database batches are atomic (C15) and stand in for Pebble; a crash loses nothing that was committed",
                 "the order in which the worker pool of a migration commits its batches is sampled, not enumerated",
                 "the deprecated (pre-registry) migrations are out of scope: the generated databases are at the deprecated framework's final version",
                 "a previous-layout database with per-tx buckets is never pruned BEFORE the upgrade (the pruner post-dates the combined layout); pre-pruned prefixes are generated with migrations 0,1 applied, "
                 "all other pruned prefixes are produced by the real history-prune migration during the scenario",
                 "--prune-mode keeps one value over a case and --prune-min-age is 0 (the wall clock never decides what is pruned); an L1 head record exists whenever pruning is enabled (node.fetchL1HeadIfMissing)",
                 "on an image on which the history-prune migration is unfinished the hash-keyed reverse lookups are not demanded (it wipes and rebuilds them; no node serves from such an image)"],
    runs=[dict(run="^Test(Prop|Known)")],
)
