# Driver configuration for property C18 (read by /verif/checks_config.py)
PROP = dict(
    pkg="c18", level="fault_enumeration",
    technique=("crash-point / cancellation-point enumeration over the real migration.Runner with the real migrators on generated "
               "previous-layout databases (fault-injecting KeyValueStore: crash after commit k, cancel at DB operation k, slow-read gate), "
               "differential against the uninterrupted upgrade and the natively written database; trace checker for the runner bookkeeping"),
    level_text=("Fault enumeration: for every generated previous-layout database the upgrade is first run uninterrupted (reference image, "
                "W commits, N database operations); the thorough tier then interrupts it after EVERY commit (simulated process death, frozen image) "
                "and at EVERY database operation (context cancellation), the quick tier at 4-8 drawn points aimed at the inside of the migrations; "
                "each interruption is followed by 0-2 further drawn interruptions and restarts until completion. Every image a later process can "
                "find is checked (applied => post-condition), the final image must equal the reference byte for byte. Exhaustive over interruption "
                "points of the explored schedules; commit ORDER inside a migration's worker pool is scheduler-dependent and only sampled "
                "(natural order + one drawn slow read). The runner's rules are checked on synthetic migrations over all documented return shapes."),
    rule=("TestPropRealMigrations: chain of 0-26 (quick) / 0-45 (thorough) generated blocks incl. empty blocks, leading empty runs and lengths around "
          "the 10-block batch boundary, stored with Blockchain.Store and converted back (per-tx buckets via migration/blocktransactions/txlayout, "
          "commitments re-encoded without StateDiffLength; 1/4 of the cases: prefix pruned by pruner.PruneUpto, migrations 0 and 1 pre-applied); "
          "registry = node.registerMigrations (blocktransactions, historyprunner[opt], headstate[opt, enabled from a drawn restart on], statedifflength). "
          "Non-trivial = the first interruption landed strictly inside a migration (after its first commit, before its last); distinct = SHA-256 of "
          "chain + plan. TestPropRunnerBookkeeping: 1-5 synthetic migrations x scripts over (nil,nil) (state,nil) (state,ctxErr) (nil,ctxErr) "
          "(nil,otherErr) (state,otherErr) x cancellation during Migrate x Before failure x 1-7 process lifetimes with optional flags toggled, "
          "truncated registries, pre-cancelled contexts and crashes; non-trivial = a lifetime resumed from persisted intermediate state or a refusal rule fired."),
    assumptions=["memory.Database batches are atomic (C15) and stand in for Pebble; a crash loses nothing that was committed",
                 "the order in which the worker pool of a migration commits its batches is sampled, not enumerated",
                 "the deprecated (pre-registry) migrations are out of scope: the generated databases are at the deprecated framework's final version",
                 "a previous-layout database with per-tx buckets is never pruned (the pruner post-dates the combined layout); pruned prefixes are generated with migrations 0,1 applied"],
    runs=[dict(run="^Test(Prop|Known)")],
)
