package c18

// Deterministic witnesses of the findings listed in /verif/known_findings.json for C18 (witness and description: known_test.go).

import (
	"context"
	"encoding/binary"
	"errors"
	"testing"

	"github.com/NethermindEth/juno/blockchain/networks"
	"github.com/NethermindEth/juno/core"
	"github.com/NethermindEth/juno/core/felt"
	"github.com/NethermindEth/juno/db"
	"github.com/NethermindEth/juno/db/memory"
	"github.com/NethermindEth/juno/encoder"
	"github.com/NethermindEth/juno/migration"
	"github.com/NethermindEth/juno/migration/blocktransactions/txlayout"
	"github.com/NethermindEth/juno/utils/log"

	"verif/harness/internal/gen"
	"verif/harness/internal/node"
	"verif/harness/internal/stats"
)

// handDB builds a previous-layout database without the chain generator: block i carries txCount(i) invoke
// transactions; headers, chain height, per-tx buckets, hash index, state updates and old-format commitments.
func handDB(n int, txCount func(i int) int) *oldDB {
	o := &oldDB{u: &gen.Universe{Net: &networks.Sepolia}, shape: "old-layout", ids: nil, contracts: map[felt.Felt]contractRec{}}
	base := memory.New()
	for i := 0; i < n; i++ {
		num := uint64(i)
		var txs []core.Transaction
		var rcs []*core.TransactionReceipt
		for j := 0; j < txCount(i); j++ {
			h := gen.F(uint64(1000*i + j + 1))
			sender := gen.F(0xabc)
			txs = append(txs, &core.InvokeTransaction{TransactionHash: &h, Version: new(core.TransactionVersion).SetUint64(1),
				SenderAddress: &sender, Nonce: gen.FP(uint64(j)), MaxFee: gen.FP(7), CallData: []felt.Felt{gen.F(uint64(i))}, TransactionSignature: []felt.Felt{}})
			rcs = append(rcs, &core.TransactionReceipt{TransactionHash: &h, Fee: gen.FP(3), Events: []*core.Event{}, L2ToL1Message: []*core.L2ToL1Message{}})
		}
		hash := gen.F(uint64(0x10000 + i))
		hd := &core.Header{Hash: &hash, Number: num, TransactionCount: uint64(len(txs)), ParentHash: gen.FP(uint64(0x10000 + i - 1)), GlobalStateRoot: gen.FP(1), SequencerAddress: gen.FP(2)}
		su := &core.StateUpdate{BlockHash: &hash, NewRoot: gen.FP(1), OldRoot: gen.FP(1), StateDiff: func() *core.StateDiff { d := core.EmptyStateDiff(); return &d }()}
		harnessErr(core.WriteBlockHeader(base, hd), "hand header")
		harnessErr(core.WriteStateUpdateByBlockNum(base, num, su), "hand state update")
		harnessErr(txlayout.TransactionLayoutPerTx.WriteTransactionsAndReceipts(base, num, txs, rcs), "hand per-tx")
		enc, err := encoder.Marshal(&oldBlockCommitments{TransactionCommitment: gen.FP(num)})
		harnessErr(err, "hand commitments")
		harnessErr(base.Put(db.BlockCommitmentsKey(num), enc), "hand commitments")
		harnessErr(core.WriteChainHeight(base, num), "hand height")
		o.blocks = append(o.blocks, &gen.Block{B: &core.Block{Header: hd, Transactions: txs, Receipts: rcs}, SU: su})
		o.txCounts = append(o.txCounts, len(txs))
	}
	o.base = base
	return o
}

// TestKnownBlockTransactionsResumeOverwrites: 21 blocks with one transaction each = ranges [0,9] [10,19] [20,20].
// The read of block 0 is slow (gate) so that the batches of ranges 10 and 20 are committed first; the process dies
// after the third batch commit of the migration. The restarted migration starts again at block 0 (first block with
// per-tx entries), walks over the already migrated ranges and replaces their entries with empty ones.
func TestKnownBlockTransactionsResumeOverwrites(t *testing.T) {
	o := handDB(21, func(int) int { return 1 })
	r := runOnce(o.base.Copy(), o.u.Net, flags{}, 4, 0, gate{idxBlockTransactions, 0, 3})
	img := r.f.image()
	if !r.crashed || !o.btOverwriteClass(img) {
		t.Logf("crash image is not in the class (crashed=%v): witness not reproduced", r.crashed)
		stats.KnownFindingWitness(t, keyBTOverwrite, false)
		return
	}
	if msg := o.postBlockTransactionsPartial(img); msg != "" {
		t.Fatalf("harness: the crash image itself already lost data: %s", msg)
	}
	r2 := runOnce(img, o.u.Net, flags{}, 0, 0, noGate)
	final := r2.f.image()
	md, _ := readMeta(final, nRealMigrations)
	msg := o.postBlockTransactions(final)
	reproduced := r2.runErr == nil && md.CurrentVersion.Has(idxBlockTransactions) && msg != ""
	t.Logf("restart: Run=%v applied=%b post-condition: %q", r2.runErr, md.CurrentVersion, msg)
	stats.KnownFindingWitness(t, keyBTOverwrite, reproduced)
	if !stats.Known(keyBTOverwrite) && reproduced {
		t.Errorf("ORACLE[applied-but-unfinished-0] %s: after crash (commit 4, ranges 10-19 and 20 committed before range 0-9) and restart: %s", keyBTOverwrite, msg)
	}
}

// postBlockTransactionsPartial: on an image of an unfinished block-transactions migration every block is readable
// either through the old or through the new layout with its original content (no block lost yet).
func (o *oldDB) postBlockTransactionsPartial(d db.KeyValueReader) string {
	for _, b := range o.blocks {
		want := len(b.B.Transactions)
		newTxs, errNew := core.GetTransactionsByBlockNumber(d, b.Num())
		oldTxs, _ := txlayout.TransactionLayoutPerTx.TransactionsByBlockNumber(d, b.Num())
		if !(errNew == nil && len(newTxs) == want) && len(oldTxs) != want {
			return "block lost in the crash image"
		}
	}
	return ""
}

// TestKnownEmptyBlocksLeftWithoutEntry:
// (a) 12 blocks, only block 11 has a transaction: the walk starts at block 10, blocks 0-9 never get an entry.
// (b) 30 blocks, only block 5 has a transaction: range [0,9] is committed, the process dies before the (all empty)
// ranges [10,19] and [20,29] are committed; the restart finds no per-tx entries and declares the migration done.
func TestKnownEmptyBlocksLeftWithoutEntry(t *testing.T) {
	reproduced := 0
	{
		o := handDB(12, func(i int) int {
			if i == 11 {
				return 1
			}
			return 0
		})
		r := runOnce(o.base.Copy(), o.u.Net, flags{}, 0, 0, noGate)
		final := r.f.image()
		md, _ := readMeta(final, nRealMigrations)
		_, err0 := core.GetTransactionsByBlockNumber(final, 0)
		_, err10 := core.GetTransactionsByBlockNumber(final, 10)
		t.Logf("(a) Run=%v applied=%b block 0: %v, block 10: %v", r.runErr, md.CurrentVersion, err0, err10)
		if r.runErr == nil && md.CurrentVersion.Has(idxBlockTransactions) && errors.Is(err0, db.ErrKeyNotFound) && err10 == nil {
			reproduced++
		}
	}
	{
		o := handDB(30, func(i int) int {
			if i == 5 {
				return 2
			}
			return 0
		})
		// the reads of blocks 10 and 20 cannot both be gated; gate block 10 and let the crash land right after the
		// first batch that made the per-tx buckets empty
		for crashAt := 2; crashAt <= 5 && reproduced < 2; crashAt++ {
			r := runOnce(o.base.Copy(), o.u.Net, flags{}, crashAt, 0, gate{idxBlockTransactions, 10, 3})
			img := r.f.image()
			if !r.crashed || !o.emptyGapClass(img) {
				fo, okfo := firstOldBlock(img)
				t.Logf("(b) crash after commit %d: crashed=%v gateTimedOut=%v firstOld=%d,%v: not in the class", crashAt, r.crashed, r.f.gateTimedOut, fo, okfo)
				continue
			}
			r2 := runOnce(img, o.u.Net, flags{}, 0, 0, noGate)
			final := r2.f.image()
			md, _ := readMeta(final, nRealMigrations)
			msg := o.postBlockTransactions(final)
			t.Logf("(b) crash after commit %d, restart: Run=%v applied=%b post-condition: %q", crashAt, r2.runErr, md.CurrentVersion, msg)
			if r2.runErr == nil && md.CurrentVersion.Has(idxBlockTransactions) && msg != "" {
				reproduced++
			}
		}
	}
	stats.KnownFindingWitness(t, keyEmptyGap, reproduced == 2)
	if !stats.Known(keyEmptyGap) && reproduced > 0 {
		t.Errorf("ORACLE[applied-but-unfinished-0] %s: empty blocks are left without a combined entry (%d/2 witnesses)", keyEmptyGap, reproduced)
	}
}

type fixedMig struct {
	migrate func(ctx context.Context, d db.KeyValueStore) ([]byte, error)
}

func (fixedMig) Before([]byte) error { return nil }
func (m fixedMig) Migrate(ctx context.Context, d db.KeyValueStore, _ *networks.Network, _ log.StructuredLogger) ([]byte, error) {
	return m.migrate(ctx, d)
}

// TestKnownNilStateOnCancelMarkedApplied: a migration notices the cancellation before doing its work and returns
// (nil, ctx.Err()) - a shape the Migration doc comment lists ("(nil, error): Error occurred; any existing state is
// cleared"). The runner records it as applied; the next start skips it although no work was done.
func TestKnownNilStateOnCancelMarkedApplied(t *testing.T) {
	store := memory.New()
	ctx, cancel := context.WithCancel(context.Background())
	worked := false
	mk := func() *migration.Registry {
		return migration.NewRegistry().With(fixedMig{func(ctx context.Context, d db.KeyValueStore) ([]byte, error) {
			cancel() // SIGINT arrives while the migration is starting
			if err := ctx.Err(); err != nil {
				return nil, err
			}
			worked = true
			return nil, d.Put(workKey(0, 0), []byte{1})
		}})
	}
	r, err := migration.NewRunner(mk(), store, &networks.Sepolia, nopLogger)
	if err != nil {
		t.Fatal(err)
	}
	runErr := r.Run(ctx)
	md, _ := readMeta(store, 1)
	r2, err := migration.NewRunner(mk(), store, &networks.Sepolia, nopLogger)
	if err != nil {
		t.Fatal(err)
	}
	runErr2 := r2.Run(context.Background())
	reproduced := errors.Is(runErr, context.Canceled) && md.CurrentVersion.Has(0) && runErr2 == nil && !worked
	t.Logf("first Run=%v applied=%b; second Run=%v, work done=%v", runErr, md.CurrentVersion, runErr2, worked)
	stats.KnownFindingWitness(t, keyNilCtxErr, reproduced)
	if !stats.Known(keyNilCtxErr) && reproduced {
		t.Errorf("ORACLE[applied-without-completion] %s: Migrate returned (nil, context.Canceled), the runner recorded the migration as applied and never ran it again", keyNilCtxErr)
	}
}

// TestKnownDowngradeBelowUnappliedOptIn: a database is opened with migrations [m0 mandatory, m1 optional+enabled];
// m1 is interrupted half-way (intermediate state saved, LastTargetVersion = 0b11, CurrentVersion = 0b01). A binary
// that only knows m0 is then accepted by NewRunner, and its Run erases the opt-in from LastTargetVersion.
func TestKnownDowngradeBelowUnappliedOptIn(t *testing.T) {
	store := memory.New()
	ctx, cancel := context.WithCancel(context.Background())
	done := fixedMig{func(context.Context, db.KeyValueStore) ([]byte, error) { return nil, nil }}
	half := fixedMig{func(_ context.Context, d db.KeyValueStore) ([]byte, error) {
		cancel()
		return []byte{1}, d.Put(workKey(1, 0), []byte{1})
	}}
	r, err := migration.NewRunner(migration.NewRegistry().With(done).WithOptional(half, true, "opt-1"), store, &networks.Sepolia, nopLogger)
	if err != nil {
		t.Fatal(err)
	}
	runErr := r.Run(ctx)
	md, inter := readMeta(store, 2)
	t.Logf("newer binary: Run=%v current=%b lastTarget=%b intermediate=%v", runErr, md.CurrentVersion, md.LastTargetVersion, inter)
	// sanity: disabling the flag in the SAME binary is refused
	_, errOptOut := migration.NewRunner(migration.NewRegistry().With(done).WithOptional(half, false, "opt-1"), store, &networks.Sepolia, nopLogger)
	r2, errOld := migration.NewRunner(migration.NewRegistry().With(done), store, &networks.Sepolia, nopLogger)
	reproduced := errOptOut != nil && errOld == nil
	if errOld == nil {
		_ = r2.Run(context.Background())
		md2, inter2 := readMeta(store, 2)
		t.Logf("older binary accepted; after its Run: current=%b lastTarget=%b intermediate=%v", md2.CurrentVersion, md2.LastTargetVersion, inter2)
		reproduced = reproduced && !md2.LastTargetVersion.Has(1)
	}
	stats.KnownFindingWitness(t, keyDowngradeUnapplied, reproduced)
	if !stats.Known(keyDowngradeUnapplied) && reproduced {
		t.Errorf("ORACLE[refusal-missing] %s: a binary lacking the opted-into, half-run optional migration 1 was accepted (same-binary opt-out is refused: %v)", keyDowngradeUnapplied, errOptOut)
	}
}

// TestKnownHistoryPruneStaleStagerCheckpoint: 40 blocks, every block changes the nonce of one contract (one nonce
// history entry per block), L1 head = local head, --prune-mode=29 (floor = block 10).
//
//	start 1: cancelled while the history-prune migration is STAGING the keeper window: the runner persists the
//	         checkpoint (stager = X > 10, restorer = 0, floor = 10); the history of blocks 10..X-1 is in scratch.
//	start 2: resumes, stages X..39, restores the history buckets from scratch, wipes the scratch namespace - and the
//	         process dies right after that commit, before the runner's commit that records the migration as applied
//	         and deletes the checkpoint.
//	start 3: resumes from the SAME checkpoint: stages X..39 only (scratch is empty below X), wipes the live history
//	         buckets, restores from scratch. Completes and is recorded as applied.
//
// The nonce history of the retained blocks 10..X-1 is gone; the uninterrupted upgrade keeps it.
func TestKnownHistoryPruneStaleStagerCheckpoint(t *testing.T) {
	const (
		n        = 40
		retained = 29
		floor    = n - 1 - retained
	)
	o := handDB(n, func(int) int { return 1 })
	addr := gen.F(0xc0ffee)
	for i := 1; i < n; i++ {
		su := o.blocks[i].SU
		su.StateDiff.Nonces = map[felt.Felt]*felt.Felt{addr: gen.FP(uint64(i))}
		harnessErr(core.WriteStateUpdateByBlockNum(o.base, uint64(i), su), "witness state update")
		harnessErr(core.WriteDeprecatedContractNonceHistory(o.base, &addr, gen.FP(uint64(i-1)), uint64(i)), "witness nonce history")
	}
	o.l1Head = &core.L1Head{BlockNumber: n - 1, BlockHash: o.blocks[n-1].B.Hash, StateRoot: gen.FP(1)}
	harnessErr(core.WriteL1Head(o.base, o.l1Head), "witness L1 head")
	fl := flags{prune: true, retained: retained}
	histKey := func(b uint64) []byte { return db.DeprecatedContractNonceHistoryAtBlockKey(&addr, b) }

	ref := runOnce(o.base.Copy(), o.u.Net, fl, 0, 0, noGate)
	refImg := ref.f.image()
	if ref.runErr != nil || o.imgFloor(refImg) != floor {
		t.Fatalf("harness: uninterrupted upgrade: %v, floor %d", ref.runErr, o.imgFloor(refImg))
	}
	for b := uint64(floor); b < n; b++ {
		if has, _ := refImg.Has(histKey(b)); !has {
			t.Fatalf("harness: the uninterrupted upgrade does not keep the nonce history of retained block %d", b)
		}
	}
	rg := ref.f.stageOps[idxHistoryPruner]
	reproduced := false
	for cancelAt := rg[0] + 3; cancelAt < rg[1] && !reproduced; cancelAt += 2 {
		// start 1
		r1 := runOnce(o.base.Copy(), o.u.Net, fl, 0, cancelAt, noGate)
		img1 := r1.f.image()
		_, inter := readMeta(img1, nRealMigrations)
		st := inter[idxHistoryPruner]
		if len(st) != 24 {
			continue
		}
		x, restorer := binary.BigEndian.Uint64(st[0:8]), binary.BigEndian.Uint64(st[8:16])
		if restorer != 0 || x <= floor+1 || x > n-1 {
			continue // not a stager checkpoint strictly inside the keeper window
		}
		if o.staleStagerClass(img1) {
			t.Fatalf("harness: the stager's own interruption (checkpoint %d) left unstaged history below its checkpoint", x)
		}
		// start 2: crash right after the last commit made inside the migration (the scratch wipe)
		probe := runOnce(img1.Copy(), o.u.Net, fl, 0, 0, noGate)
		crashAt := 0
		for i, s := range probe.f.commitStage {
			if s == idxHistoryPruner {
				crashAt = i + 1
			}
		}
		r2 := runOnce(img1, o.u.Net, fl, crashAt, 0, noGate)
		img2 := r2.f.image()
		md2, _ := readMeta(img2, nRealMigrations)
		if !r2.crashed || md2.CurrentVersion.Has(idxHistoryPruner) || !o.staleStagerClass(img2) {
			t.Logf("cancel at op %d (checkpoint %d), crash after commit %d: crashed=%v applied=%b in-class=%v: not in the class", cancelAt, x, crashAt, r2.crashed, md2.CurrentVersion, o.staleStagerClass(img2))
			continue
		}
		for b := uint64(floor); b < n; b++ {
			if has, _ := img2.Has(histKey(b)); !has {
				t.Fatalf("harness: the crash image itself already lost the nonce history of block %d", b)
			}
		}
		// start 3
		r3 := runOnce(img2, o.u.Net, fl, 0, 0, noGate)
		final := r3.f.image()
		md3, inter3 := readMeta(final, nRealMigrations)
		var lost []uint64
		for b := uint64(floor); b < n; b++ {
			if has, _ := final.Has(histKey(b)); !has {
				lost = append(lost, b)
			}
		}
		t.Logf("start 1 cancelled at op %d: checkpoint (stager %d, restorer 0, floor %d); start 2 died after commit %d (scratch wiped, not yet applied); start 3: Run=%v applied=%b intermediate=%v, floor %d; nonce history lost for retained blocks %v",
			cancelAt, x, floor, crashAt, r3.runErr, md3.CurrentVersion, inter3, o.imgFloor(final), lost)
		reproduced = r3.runErr == nil && md3.CurrentVersion.Has(idxHistoryPruner) && len(lost) > 0 && !sameDump(node.Dump(final), node.Dump(refImg))
		if reproduced && !stats.Known(keyPruneStaleStager) {
			t.Errorf("ORACLE[final-image-differs] %s: cancelled in the stager (checkpoint %d), restarted, died after the scratch wipe, restarted: the completed, applied upgrade lost the nonce history of retained blocks %v", keyPruneStaleStager, x, lost)
		}
	}
	stats.KnownFindingWitness(t, keyPruneStaleStager, reproduced)
}
