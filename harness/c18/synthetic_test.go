package c18

// synthetic_test.go: the runner's bookkeeping, checked with harness implementations of migration.Migration that
// return every shape the Migration doc comment lists, with cancellations, crashes, restarts, optional migrations
// toggled between restarts and registries shorter than what the database has seen.
//
// The oracle is a trace checker: the recorded Before/Migrate calls of a run are replayed against the rules stated
// in the doc comments of migration.Migration / MigrationRunner (runner.go) and SchemaMetadata (metadata.go), and
// the predicted durable state (applied set, last target, intermediate states) is compared with the database.

import (
	"bytes"
	"context"
	"errors"
	"fmt"
	"testing"

	"github.com/NethermindEth/juno/blockchain/networks"
	"github.com/NethermindEth/juno/db"
	"github.com/NethermindEth/juno/db/memory"
	"github.com/NethermindEth/juno/migration"
	"github.com/NethermindEth/juno/utils/log"
	"pgregory.net/rapid"

	"verif/harness/internal/gen"
	"verif/harness/internal/stats"
)

// Known finding: Migrate returning (nil, ctx.Err()) after a cancellation is recorded as applied.
const keyNilCtxErr = "c18-runner-nil-state-on-cancel-marked-applied"

// Known finding: a registry that lacks an optional migration the database was opted into (bit set in
// LastTargetVersion, beyond the registry's length, not yet applied) is accepted and the opt-in is forgotten.
const keyDowngradeUnapplied = "c18-runner-downgrade-below-unapplied-opt-in-accepted"

var errSynthetic = errors.New("synthetic migration failure")

const (
	shNilNil        = "(nil,nil)"
	shStateNil      = "(state,nil)"
	shStateCtxErr   = "(state,ctxErr)"
	shNilCtxErr     = "(nil,ctxErr)"
	shNilOtherErr   = "(nil,otherErr)"
	shStateOtherErr = "(state,otherErr)"
)

type behaviour struct {
	shape        string
	doSteps      int
	cancelDuring bool // the context is cancelled while Migrate executes
	beforeErr    bool
}

type synthSpec struct {
	steps    int
	optional bool
}

type synthEv struct {
	kind            string // "before" | "migrate"
	idx             int
	in              []byte // before: state handed in
	inNil           bool
	beforeErr       bool
	out             []byte // migrate: state returned
	outNil          bool
	err             error
	cancelledAtExit bool
	shape           string
}

type synthShared struct {
	scripts [][]behaviour // per migration, consumed across process lifetimes
	evs     []synthEv
	cancel  context.CancelFunc
}

func workKey(idx, step int) []byte { return db.Temporary.Key([]byte(fmt.Sprintf("c18-work/%d/%d", idx, step))) }

type synthMig struct {
	idx  int
	spec synthSpec
	sh   *synthShared
	next int
}

func (m *synthMig) pop() behaviour {
	s := m.sh.scripts[m.idx]
	if len(s) == 0 {
		return behaviour{shape: shNilNil}
	}
	m.sh.scripts[m.idx] = s[1:]
	return s[0]
}

func (m *synthMig) peek() behaviour {
	if s := m.sh.scripts[m.idx]; len(s) > 0 {
		return s[0]
	}
	return behaviour{shape: shNilNil}
}

func (m *synthMig) Before(state []byte) error {
	e := synthEv{kind: "before", idx: m.idx, in: clone(state), inNil: state == nil}
	m.next = 0
	if len(state) == 1 {
		m.next = int(state[0])
	}
	if m.peek().beforeErr {
		m.pop()
		e.beforeErr = true
		m.sh.evs = append(m.sh.evs, e)
		return errSynthetic
	}
	m.sh.evs = append(m.sh.evs, e)
	return nil
}

func (m *synthMig) Migrate(ctx context.Context, d db.KeyValueStore, _ *networks.Network, _ log.StructuredLogger) ([]byte, error) {
	b := m.pop()
	n := b.doSteps
	if b.shape == shNilNil {
		n = m.spec.steps // an honest migration: "complete" only after all the work
	}
	for ; n > 0 && m.next < m.spec.steps; n-- {
		if err := d.Put(workKey(m.idx, m.next), []byte{1}); err != nil {
			return nil, err
		}
		m.next++
	}
	if b.cancelDuring {
		m.sh.cancel()
	}
	ctxErr := ctx.Err()
	if ctxErr == nil {
		ctxErr = context.Canceled // spontaneous: the runner's context is not cancelled
	}
	st := []byte{byte(m.next)}
	var out []byte
	var err error
	switch b.shape {
	case shNilNil:
	case shStateNil:
		out = st
	case shStateCtxErr:
		out, err = st, fmt.Errorf("synthetic: %w", ctxErr)
	case shNilCtxErr:
		err = ctxErr
	case shNilOtherErr:
		err = errSynthetic
	case shStateOtherErr:
		out, err = st, errSynthetic
	}
	m.sh.evs = append(m.sh.evs, synthEv{kind: "migrate", idx: m.idx, out: clone(out), outNil: out == nil, err: err,
		cancelledAtExit: ctx.Err() != nil, shape: b.shape})
	return out, err
}

// synthModel is the durable bookkeeping state the doc comments prescribe.
type synthModel struct {
	applied    migration.SchemaVersion
	lastTarget migration.SchemaVersion
	inter      map[int][]byte
	honest     migration.SchemaVersion // migrations whose Migrate returned (nil,nil) at some point
}

func (m *synthModel) String() string {
	return fmt.Sprintf("applied=%b lastTarget=%b inter=%v", m.applied, m.lastTarget, m.inter)
}

func buildSynthRegistry(specs []synthSpec, m int, enabled []bool, sh *synthShared) *migration.Registry {
	reg := migration.NewRegistry()
	for i := 0; i < m; i++ {
		mig := &synthMig{idx: i, spec: specs[i], sh: sh}
		if specs[i].optional {
			reg.WithOptional(mig, enabled[i], fmt.Sprintf("opt-%d", i))
		} else {
			reg.With(mig)
		}
	}
	return reg
}

// errClass3 classifies Run's result; a context error only counts as such when the runner's context was cancelled
// (a migration returning context.Canceled on its own is an ordinary failure).
func errClass3(err error, ctxCancelled bool) string {
	switch {
	case err == nil:
		return "nil"
	case errors.Is(err, errCrashed):
		return "crash"
	case ctxCancelled && errors.Is(err, context.Canceled):
		return "ctx"
	default:
		return "other"
	}
}

func TestPropRunnerBookkeeping(t *testing.T) {
	stats.Check(t, stats.Budget{Quick: 1500, Thorough: 30000},
		"1-5 synthetic migrations (mandatory/optional, 1-3 work units each) with drawn per-invocation scripts over the six return shapes x cancellation during Migrate x Before failure; 1-7 process lifetimes with "+
			"optional flags toggled (mostly monotone, sometimes opting out), registries truncated (downgrade), contexts cancelled before Run, crash after a drawn commit; trace checker derived from the doc comments; "+
			"non-trivial = some lifetime resumed a migration from persisted intermediate state after a cancellation or crash, or a refusal rule fired",
		func(rt *rapid.T, c *stats.Case) {
			n := rapid.IntRange(1, 5).Draw(rt, "nmig")
			specs := make([]synthSpec, n)
			sh := &synthShared{scripts: make([][]behaviour, n)}
			shapes := []string{shNilNil, shNilNil, shStateNil, shStateNil, shStateCtxErr, shStateCtxErr, shNilCtxErr, shNilOtherErr, shStateOtherErr}
			for i := range specs {
				specs[i] = synthSpec{steps: rapid.IntRange(1, 3).Draw(rt, "steps"), optional: rapid.IntRange(0, 2).Draw(rt, "optional") == 0}
				ns := rapid.IntRange(0, 3).Draw(rt, "scriptlen")
				for j := 0; j < ns; j++ {
					b := behaviour{
						shape:        rapid.SampledFrom(shapes).Draw(rt, "shape"),
						doSteps:      rapid.IntRange(0, 2).Draw(rt, "dosteps"),
						cancelDuring: rapid.IntRange(0, 2).Draw(rt, "cancelduring") == 0,
						beforeErr:    rapid.IntRange(0, 11).Draw(rt, "beforeerr") == 0,
					}
					if b.shape == shNilCtxErr && b.cancelDuring && stats.Known(keyNilCtxErr) {
						b.shape = shStateCtxErr // known finding: (nil, ctx.Err()) on cancellation is recorded as applied
						c.Excluded(keyNilCtxErr)
					}
					sh.scripts[i] = append(sh.scripts[i], b)
				}
				c.Fp("mig%d %+v %+v", i, specs[i], sh.scripts[i])
			}
			store := memory.New()
			model := &synthModel{inter: map[int][]byte{}}
			lifetimes := rapid.IntRange(1, 7).Draw(rt, "lifetimes")
			for life := 0; life < lifetimes; life++ {
				// ---- configuration of this process
				enabled := make([]bool, n)
				monotone := rapid.IntRange(0, 3).Draw(rt, "monotone") > 0
				for i := range enabled {
					if !specs[i].optional {
						continue
					}
					enabled[i] = rapid.Bool().Draw(rt, "enabled")
					if monotone && model.lastTarget.Has(uint8(i)) {
						enabled[i] = true
					}
				}
				m := n
				if rapid.IntRange(0, 5).Draw(rt, "truncate") == 0 {
					m = rapid.IntRange(0, n).Draw(rt, "registrylen")
				}
				// class of keyDowngradeUnapplied: an optional migration beyond the registry is opted into but not applied,
				// and nothing else makes NewRunner refuse
				inClass := func(m int) bool {
					hit := false
					for i := m; i < n; i++ {
						if model.applied.Has(uint8(i)) {
							return false
						}
						if specs[i].optional && model.lastTarget.Has(uint8(i)) {
							hit = true
						}
					}
					for i := 0; i < m; i++ {
						if specs[i].optional && !enabled[i] && model.lastTarget.Has(uint8(i)) {
							return false
						}
					}
					return hit
				}
				if m < n && inClass(m) && stats.Known(keyDowngradeUnapplied) {
					m = n
					c.Excluded(keyDowngradeUnapplied)
				}
				preCancelled := rapid.IntRange(0, 7).Draw(rt, "precancelled") == 0
				crashAt := 0
				if rapid.IntRange(0, 3).Draw(rt, "crash") == 0 {
					crashAt = 1 + gen.Uniform(rt, 12, "crash-at")
				}
				c.Fp("life %d enabled %v len %d pre %v crash %d", life, enabled, m, preCancelled, crashAt)

				var target migration.SchemaVersion
				for i := 0; i < m; i++ {
					if !specs[i].optional || enabled[i] {
						target.Set(uint8(i))
					}
				}
				what := fmt.Sprintf("lifetime %d (registry of %d/%d migrations, specs %+v, enabled %v, target %b, pre-cancelled %v, crash after commit %d) on %s",
					life, m, n, specs, enabled, target, preCancelled, crashAt, model)

				// ---- refusal rules (property statement + doc comment of SchemaMetadata)
				wantRefuse, why := false, ""
				for i := 0; i < n; i++ {
					lacking := i >= m || (specs[i].optional && !enabled[i])
					if lacking && model.applied.Has(uint8(i)) {
						wantRefuse, why = true, fmt.Sprintf("migration %d is applied and absent from the binary/target", i)
					}
					if lacking && specs[i].optional && model.lastTarget.Has(uint8(i)) {
						wantRefuse, why = true, fmt.Sprintf("optional migration %d was previously opted into and is now absent/disabled", i)
					}
				}
				f := newFaultDB(store)
				f.crashAt = crashAt
				ctx, cancel := context.WithCancel(context.Background())
				sh.cancel = cancel
				sh.evs = nil
				runner, err := migration.NewRunner(buildSynthRegistry(specs, m, enabled, sh), f, &networks.Sepolia, nopLogger)
				if wantRefuse {
					if err == nil {
						c.Violation("refusal-missing", "%s: NewRunner accepted although %s", what, why)
					}
					c.NonTrivial("refusal-rule-fired")
					c.Label("refused")
					cancel()
					continue
				}
				if err != nil {
					// the only tolerated extra refusal: a migration beyond this registry was targeted by a previous (newer) binary
					// but not applied - neither required nor forbidden by the property for MANDATORY migrations
					if model.lastTarget.HighestBit() >= m {
						c.Label("refused:newer-binary-targeted-unknown-migration")
						cancel()
						continue
					}
					c.Violation("refusal-unexpected", "%s: NewRunner refused: %v", what, err)
				}
				if preCancelled {
					cancel()
				}
				runErr := runner.Run(ctx)
				cancel()
				f.mu.Lock()
				crashed := f.crashed
				f.mu.Unlock()

				// ---- replay the trace against the documented rules
				exp := &synthModel{applied: model.applied, lastTarget: target, inter: map[int][]byte{}, honest: model.honest}
				for k, v := range model.inter {
					exp.inter[k] = v
				}
				uncertain := map[int]bool{} // (nil, otherErr): doc says "existing state is cleared", the runner keeps it: both accepted
				cancelled := preCancelled
				wantErr := "nil"
				evs := sh.evs
				pos := 0
				pending := target.Difference(model.applied)
				stopped := false
				for i := 0; i < m && !stopped; i++ {
					if !pending.Has(uint8(i)) {
						continue
					}
					if cancelled {
						wantErr = "ctx"
						stopped = true
						break
					}
					if pos >= len(evs) {
						if !crashed {
							c.Violation("migration-not-run", "%s: pending migration %d was not run (events %+v, Run error %v)", what, i, evs, runErr)
						}
						stopped = true
						break
					}
					e := evs[pos]
					pos++
					if e.kind != "before" || e.idx != i {
						c.Violation("order", "%s: expected Before(migration %d), got %s(migration %d)", what, i, e.kind, e.idx)
					}
					want, has := exp.inter[i]
					if (!has && len(e.in) != 0) || (has && !bytes.Equal(want, e.in)) {
						c.Violation("state-handback", "%s: Before(migration %d) received %v, persisted intermediate state is %v (present=%v)", what, i, e.in, want, has)
					}
					if has {
						c.NonTrivial("resumed-from-persisted-state")
					}
					if e.beforeErr {
						wantErr = "other"
						stopped = true
						break
					}
					if pos >= len(evs) {
						if !crashed {
							c.Violation("migrate-not-called", "%s: Before(migration %d) was not followed by Migrate", what, i)
						}
						stopped = true
						break
					}
					e = evs[pos]
					pos++
					if e.kind != "migrate" || e.idx != i {
						c.Violation("order", "%s: expected Migrate(migration %d), got %s(migration %d)", what, i, e.kind, e.idx)
					}
					c.Labelf("shape:%s/cancelled=%v", e.shape, e.cancelledAtExit)
					cancelled = cancelled || e.cancelledAtExit
					isCtxErr := e.err != nil && e.cancelledAtExit && errors.Is(e.err, context.Canceled)
					switch {
					case e.err != nil && errors.Is(e.err, errCrashed):
						stopped = true
					case e.err != nil && !isCtxErr:
						// "(state, error): Error occurred; state is saved if error is context.Canceled" / "(nil, error): any existing state is cleared"
						wantErr = "other"
						if e.outNil {
							uncertain[i] = true
						}
						stopped = true
					case !e.outNil:
						// "(state, nil): in progress, state saved" / "On cancellation, non-nil state is saved"
						exp.inter[i] = e.out
						if cancelled {
							wantErr = "ctx"
							stopped = true
						} else {
							c.Label("info:in-progress-without-cancellation-run-continues")
						}
					case e.err == nil:
						// "(nil, nil): Migration complete, marked as applied", state cleared
						exp.applied.Set(uint8(i))
						exp.honest.Set(uint8(i))
						delete(exp.inter, i)
					default:
						// (nil, ctx.Err()) after a cancellation: "(nil, error): Error occurred; any existing state is cleared",
						// "On cancellation ... nil state clears any existing state" - an error, not a completion
						delete(exp.inter, i)
						wantErr = "ctx"
						stopped = true
					}
				}
				if !stopped && cancelled && pending != 0 {
					wantErr = "ctx" // (with nothing pending Run has nothing to interrupt and returns nil)
				}
				if pos < len(evs) && !crashed {
					c.Violation("extra-calls", "%s: unexpected further calls %+v after the Run should have stopped (Run error %v)", what, evs[pos:], runErr)
				}

				img := f.image()
				md, inter := readMeta(img, n)
				// ---- invariants of ANY image a later process may find
				for i := 0; i < n; i++ {
					if !md.CurrentVersion.Has(uint8(i)) {
						continue
					}
					if !exp.honest.Has(uint8(i)) {
						c.Violation("applied-without-completion", "%s: migration %d is recorded as applied but never returned (nil,nil) (events %+v, Run error %v)", what, i, evs, runErr)
					}
					for s := 0; s < specs[i].steps; s++ {
						if has, _ := img.Has(workKey(i, s)); !has {
							c.Violation("applied-but-unfinished", "%s: migration %d is recorded as applied but work unit %d is missing", what, i, s)
						}
					}
					if _, ok := inter[i]; ok {
						c.Violation("applied-with-intermediate-state", "%s: migration %d is applied and has intermediate state %v", what, i, inter[i])
					}
				}
				if md.CurrentVersion.Difference(exp.applied) != 0 || model.applied.Difference(md.CurrentVersion) != 0 {
					c.Violation("applied-set", "%s: applied set on disk %b; before %b, documented after %b (events %+v)", what, md.CurrentVersion, model.applied, exp.applied, evs)
				}
				if crashed {
					// the process died somewhere: every persisted item must be either the old or the new value
					c.Label("crashed")
					if md.LastTargetVersion != model.lastTarget && md.LastTargetVersion != target {
						c.Violation("last-target", "%s: after the crash lastTarget=%b (neither the old %b nor the new %b)", what, md.LastTargetVersion, model.lastTarget, target)
					}
					for i := 0; i < n; i++ {
						got, ok := inter[i]
						old, okOld := model.inter[i]
						nw, okNew := exp.inter[i]
						if !((ok == okOld && bytes.Equal(got, old)) || (ok == okNew && bytes.Equal(got, nw))) {
							c.Violation("intermediate-state", "%s: after the crash intermediate state of migration %d is %v (present=%v); old %v, new %v", what, i, got, ok, old, nw)
						}
					}
					model = &synthModel{applied: md.CurrentVersion, lastTarget: md.LastTargetVersion, inter: inter, honest: exp.honest}
					store = img
					if len(inter) > 0 {
						c.Label("crash-with-intermediate-state-on-disk")
					}
					continue
				}
				// ---- a process that returned: exact comparison with the documented outcome
				if got := errClass3(runErr, cancelled); got != wantErr {
					c.Violation("run-error", "%s: Run returned %v (class %s), documented outcome class %s (events %+v)", what, runErr, got, wantErr, evs)
				}
				if md.CurrentVersion != exp.applied {
					c.Violation("applied-set", "%s: applied set on disk %b, documented %b (events %+v)", what, md.CurrentVersion, exp.applied, evs)
				}
				if md.LastTargetVersion != target {
					c.Violation("last-target", "%s: lastTarget on disk %b, target of this run %b", what, md.LastTargetVersion, target)
				}
				for i := 0; i < n; i++ {
					got, ok := inter[i]
					want, okW := exp.inter[i]
					if uncertain[i] {
						if ok && !(okW && bytes.Equal(got, want)) {
							c.Violation("intermediate-state", "%s: intermediate state of migration %d is %v after (nil, error); it was %v", what, i, got, want)
						}
						if ok {
							c.Label("info:(nil,otherErr)-keeps-existing-state-although-doc-says-cleared")
						}
						continue
					}
					if ok != okW || !bytes.Equal(got, want) {
						c.Violation("intermediate-state", "%s: intermediate state of migration %d on disk %v (present=%v), documented %v (present=%v) (events %+v)", what, i, got, ok, want, okW, evs)
					}
				}
				exp.inter = inter
				model = exp
				store = img
				if runErr == nil && md.CurrentVersion != target.Union(md.CurrentVersion) {
					c.Label("info:run-returned-nil-with-unapplied-target")
				}
			}
			c.Sample(func() any {
				return map[string]any{"specs": fmt.Sprintf("%+v", specs), "final": model.String()}
			})
		})
}
