// Package c18: schema migrations preserve all chain data and survive interruption at any point (property C18).
//
// real_test.go drives the REAL migration.Runner with the REAL migrators registered by node/migration.go
// (blocktransactions, historyprunner, headstate, statedifflength at their real indexes) over generated
// previous-layout databases, enumerating crash points (after every commit) and cancellation points (at every
// database operation), followed by drawn further interruptions and restarts.
package c18

import (
	"bytes"
	"context"
	"encoding/binary"
	"errors"
	"fmt"
	"os"
	"runtime"
	"strings"
	"testing"

	"github.com/NethermindEth/juno/blockchain/networks"
	"github.com/NethermindEth/juno/db"
	"github.com/NethermindEth/juno/db/memory"
	"github.com/NethermindEth/juno/migration"
	"github.com/NethermindEth/juno/migration/blocktransactions"
	"github.com/NethermindEth/juno/migration/historyprunner"
	"github.com/NethermindEth/juno/migration/state/headstate"
	"github.com/NethermindEth/juno/migration/statedifflength"
	"github.com/NethermindEth/juno/utils/log"
	"pgregory.net/rapid"

	"verif/harness/internal/gen"
	"verif/harness/internal/node"
	"verif/harness/internal/stats"
)

func TestMain(m *testing.M) { stats.Main(m) }

// Known finding: blocks of a range that was committed out of order before a crash are overwritten with an empty
// entry by the resumed block-transactions migration (witness and description: known_test.go).
const keyBTOverwrite = "c18-blocktransactions-resume-overwrites-migrated-range"

// Known finding: empty blocks get a combined entry only while a range walk passes over them, and the walk (re)starts
// at the first block that still has per-tx entries: empty blocks below the first 10-block range holding a
// transaction, and - after an interruption - empty blocks above the last block holding a transaction, never get
// one: the current accessors answer "key not found" instead of an empty list (witness and description: known_test.go).
const keyEmptyGap = "c18-blocktransactions-empty-blocks-left-without-entry"

// Known finding: a resume checkpoint of the history-prune migration's stager that outlives a later lifetime which
// completed the migration's work (scratch namespace wiped) but died before the runner recorded it as applied makes the
// next lifetime re-stage only the blocks above the checkpoint and then wipe the live history buckets: the state history
// of the retained blocks below the checkpoint is lost (witness and description: known_test.go).
const keyPruneStaleStager = "c18-historyprunner-stale-stager-checkpoint-loses-retained-history"

type flags struct {
	prune    bool   // --prune-mode given (history pruner, optional, index 1)
	newState bool   // --new-state (head-state consolidation, optional, index 2)
	retained uint64 // value of --prune-mode: blocks retained below the pivot (constant over a case; 0 when prune is off)
}

func (f flags) String() string {
	if f.prune {
		return fmt.Sprintf("prune=true(retain %d),new-state=%v", f.retained, f.newState)
	}
	return fmt.Sprintf("prune=%v,new-state=%v", f.prune, f.newState)
}

// ev is one call observed by a tracked migrator.
type ev struct {
	kind     string // "before" | "migrate"
	idx      int
	state    []byte // before: the state handed in; migrate: the state returned
	stateNil bool
	err      error
}

type trace struct {
	f   *faultDB
	evs []ev
}

// tracked wraps a real migrator: records Before/Migrate calls and marks the stage on the fault DB.
type tracked struct {
	idx   int
	inner migration.Migration
	tr    *trace
}

func (t *tracked) Before(s []byte) error {
	t.tr.evs = append(t.tr.evs, ev{kind: "before", idx: t.idx, state: clone(s), stateNil: s == nil})
	return t.inner.Before(s)
}

func (t *tracked) Migrate(ctx context.Context, d db.KeyValueStore, n *networks.Network, l log.StructuredLogger) ([]byte, error) {
	t.tr.f.setStage(t.idx)
	st, err := t.inner.Migrate(ctx, d, n, l)
	t.tr.f.setStage(-1)
	t.tr.evs = append(t.tr.evs, ev{kind: "migrate", idx: t.idx, state: clone(st), stateNil: st == nil, err: err})
	return st, err
}

// realRegistry mirrors node.registerMigrations (same order, same optional flags) with fresh migrator instances.
func realRegistry(fl flags, tr *trace) *migration.Registry {
	tk := func(i int, m migration.Migration) migration.Migration { return &tracked{idx: i, inner: m, tr: tr} }
	return migration.NewRegistry().
		With(tk(idxBlockTransactions, &blocktransactions.Migrator{})).
		// minAge = 0: the wall clock never decides what is pruned
		WithOptional(tk(idxHistoryPruner, historyprunner.New(fl.retained, 0)), fl.prune, "prune").
		WithOptional(tk(idxHeadState, &headstate.Migrator{}), fl.newState, "new-state").
		With(tk(idxStateDiffLength, &statedifflength.Migrator{}))
}

// run is one process lifetime: NewRunner + Run on a database image, with at most one injected interruption.
type run struct {
	fl           flags
	f            *faultDB
	tr           *trace
	startMeta    migration.SchemaMetadata
	startInter   map[int][]byte
	target       migration.SchemaVersion
	newRunnerErr error
	runErr       error
	cancelled    bool // the injected cancellation fired
	failed       bool // the injected I/O error was returned by one database operation
	crashed      bool // the injected crash fired
}

// entered reports whether the runner handed control to migration idx in this lifetime.
func (r *run) entered(idx int) bool {
	for _, e := range r.tr.evs {
		if e.kind == "before" && e.idx == idx {
			return true
		}
	}
	return false
}

var nopLogger = log.NewNopZapLogger()

// gate is a drawn schedule perturbation (see faultDB.gate*): the read of one block by the given migration is held
// back until `commits` batches of the other pipeline workers were committed.
type gate struct {
	stage   int // idxBlockTransactions | idxStateDiffLength | -1 (none)
	block   uint64
	commits int
}

func (g gate) String() string {
	if g.stage < 0 {
		return "no-gate"
	}
	return fmt.Sprintf("gate(migration %d, block %d, %d commits)", g.stage, g.block, g.commits)
}

var noGate = gate{stage: -1}

func runOnce(img *memory.Database, net *networks.Network, fl flags, crashAt, cancelAt int, g gate) *run {
	return runOnceF(img, net, fl, crashAt, cancelAt, 0, g)
}

func runOnceF(img *memory.Database, net *networks.Network, fl flags, crashAt, cancelAt, failAt int, g gate) *run {
	f := newFaultDB(img)
	f.crashAt, f.cancelAt, f.failAt = crashAt, cancelAt, failAt
	switch g.stage {
	case idxBlockTransactions:
		f.setGate(g.stage, db.BlockHeaderByNumberKey(g.block), g.commits)
	case idxStateDiffLength:
		f.setGate(g.stage, db.BlockCommitmentsKey(g.block), g.commits)
	}
	tr := &trace{f: f}
	r := &run{fl: fl, f: f, tr: tr}
	r.startMeta, r.startInter = readMeta(img, nRealMigrations)
	reg := realRegistry(fl, tr)
	r.target = reg.TargetVersion()
	ctx, cancel := context.WithCancel(context.Background())
	defer cancel()
	f.cancel = cancel
	runner, err := migration.NewRunner(reg, f, net, nopLogger)
	if err != nil {
		r.newRunnerErr = err
		return r
	}
	r.runErr = runner.Run(ctx)
	f.mu.Lock()
	r.crashed = f.crashed
	r.cancelled = f.cancelAt != 0 && f.ops >= f.cancelAt
	r.failed = f.failed
	f.mu.Unlock()
	return r
}

// reference is the uninterrupted migration of the base image under given flags.
type reference struct {
	dump         map[string]string
	commits, ops int
	stageCommits map[int]int   // commits made inside Migrate(idx)
	commitsOf    map[int][]int // commit numbers made inside Migrate(idx); key -1: runner bookkeeping
	opsOf        map[int][2]int
	stages       []int  // migrations that ran, ascending
	floor        uint64 // retention floor of the reference image
}

type realCase struct {
	rt  *rapid.T
	c   *stats.Case
	o   *oldDB
	net *networks.Network
	ref map[flags]*reference
}

func (k *realCase) reference(fl flags) *reference {
	if r, ok := k.ref[fl]; ok {
		return r
	}
	c, o := k.c, k.o
	r := runOnce(o.base.Copy(), k.net, fl, 0, 0, noGate)
	if r.newRunnerErr != nil {
		c.Violation("upgrade-refused", "%s DB (%d blocks, pruned %d): NewRunner(%s) refused the previous-layout database: %v", o.shape, len(o.blocks), o.pruned, fl, r.newRunnerErr)
	}
	if r.runErr != nil {
		c.Violation("upgrade-failed", "%s DB (%d blocks, pruned %d, txs %v): uninterrupted Run(%s) failed: %v", o.shape, len(o.blocks), o.pruned, o.txCounts, fl, r.runErr)
	}
	k.checkRun(r, "uninterrupted")
	img := r.f.image()
	md, inter := readMeta(img, nRealMigrations)
	if md.CurrentVersion != r.target || md.LastTargetVersion != r.target {
		c.Violation("not-all-applied", "uninterrupted Run(%s) returned nil but metadata is current=%b lastTarget=%b, target %b", fl, md.CurrentVersion, md.LastTargetVersion, r.target)
	}
	if len(inter) != 0 {
		c.Violation("stale-intermediate-state", "uninterrupted Run(%s) left intermediate states %v", fl, inter)
	}
	pruned := r.entered(idxHistoryPruner)
	floor := k.retention(img, pruned, fl.retained, fmt.Sprintf("uninterrupted Run(%s)", fl))
	for _, idx := range []int{idxBlockTransactions, idxHeadState, idxStateDiffLength} {
		if md.CurrentVersion.Has(uint8(idx)) {
			if msg := o.postconditionFrom(idx, img, floor, true); msg != "" {
				c.Violation(fmt.Sprintf("postcondition-%d", idx), "after the uninterrupted upgrade (%s) of a %s DB with %d blocks (pruned %d, L1 head %s, floor now %d): %s", fl, o.shape, len(o.blocks), o.pruned, o.l1Desc(), floor, msg)
			}
		}
	}
	if pruned {
		// the history-prune migration ran: every answer about a retained block equals the natively written (unpruned)
		// database's, answers about blocks below the floor are "missing" or the original
		if d := o.readerAPIAboveFloor(img, floor, 3); len(d) > 0 {
			c.Violation("reader-api-differs", "after the uninterrupted upgrade (%s) of a %s DB with %d blocks (L1 head %s, floor now %d) the Reader API differs from the natively written database:\n%s", fl, o.shape, len(o.blocks), o.l1Desc(), floor, strings.Join(d, "\n"))
		}
	} else {
		// the whole Reader API answers exactly as on the database written natively by the current Store path
		obs := node.New(false, img.Copy(), k.net).Observe(o.ids)
		if d := node.Diff(o.nativeObs, obs, 3); len(d) > 0 {
			c.Violation("reader-api-differs", "after the uninterrupted upgrade (%s) of a %s DB with %d blocks (pruned %d) the Reader API differs from the natively written database:\n%s", fl, o.shape, len(o.blocks), o.pruned, strings.Join(d, "\n"))
		}
	}
	ref := &reference{dump: node.Dump(img), floor: floor, commits: r.f.commits, ops: r.f.ops, stageCommits: map[int]int{}, commitsOf: map[int][]int{}, opsOf: r.f.stageOps}
	for i, s := range r.f.commitStage {
		if s >= 0 {
			ref.stageCommits[s]++
		}
		ref.commitsOf[s] = append(ref.commitsOf[s], i+1)
	}
	for s := 0; s < nRealMigrations; s++ {
		if _, ok := ref.opsOf[s]; ok {
			ref.stages = append(ref.stages, s)
		}
	}
	// informational: is the migrated image byte-identical to the native one (modulo schema bookkeeping and the head-state consolidation)?
	if !fl.newState && !pruned {
		nd := map[string]string{}
		for key, v := range ref.dump {
			if key[0] != byte(db.SchemaMetadata) {
				nd[key] = v
			}
		}
		if sameDump(nd, o.nativeDump) {
			c.Label("info:migrated-image-byte-identical-to-native")
		} else {
			c.Label("info:migrated-image-differs-from-native-bytes")
		}
	}
	k.ref[fl] = ref
	return ref
}

// checkRun: invariants of a single process lifetime (order, no rerun of applied migrations, state hand-back,
// completion recorded, error shape).
func (k *realCase) checkRun(r *run, what string) {
	c := k.c
	last := -1
	var pendingBefore *ev
	for i := range r.tr.evs {
		e := &r.tr.evs[i]
		switch e.kind {
		case "before":
			want, has := r.startInter[e.idx]
			// absent => Before must get no state (doc: "nil on first run"); present => exactly the stored bytes
			if (!has && len(e.state) != 0) || (has && !bytes.Equal(want, e.state)) {
				c.Violation("state-handback", "%s: Before(migration %d) received %x (nil=%v), the database held %x (present=%v)", what, e.idx, e.state, e.stateNil, want, has)
			}
			pendingBefore = e
		case "migrate":
			if pendingBefore == nil || pendingBefore.idx != e.idx {
				c.Violation("before-not-called", "%s: Migrate(migration %d) ran without a preceding Before", what, e.idx)
			}
			pendingBefore = nil
			if e.idx <= last {
				c.Violation("order", "%s: Migrate(migration %d) ran after migration %d in the same Run", what, e.idx, last)
			}
			last = e.idx
			if r.startMeta.CurrentVersion.Has(uint8(e.idx)) {
				c.Violation("rerun-of-applied", "%s: Migrate(migration %d) ran although the database records it as applied (current=%b)", what, e.idx, r.startMeta.CurrentVersion)
			}
			if !r.target.Has(uint8(e.idx)) {
				c.Violation("ran-disabled", "%s: Migrate(migration %d) ran although it is not in the target %b", what, e.idx, r.target)
			}
		}
	}
	if r.crashed {
		return
	}
	live, _ := readMeta(r.f.inner, nRealMigrations)
	for _, e := range r.tr.evs {
		if e.kind == "migrate" && e.stateNil && e.err == nil && !live.CurrentVersion.Has(uint8(e.idx)) {
			if r.failed && r.runErr != nil {
				continue // the runner's own bookkeeping write is what failed; Run reported it
			}
			c.Violation("completion-not-recorded", "%s: Migrate(migration %d) returned (nil,nil) but the applied bit is not set (current=%b, Run error %v)", what, e.idx, live.CurrentVersion, r.runErr)
		}
	}
	if r.cancelled {
		if r.runErr != nil && !errors.Is(r.runErr, context.Canceled) {
			c.Violation("cancel-error-shape", "%s: cancelled Run returned %v (want nil or the context's error)", what, r.runErr)
		}
	} else if r.failed {
		// one database operation failed: Run may report it or get by without that operation; what the next process finds is
		// judged by checkImage and by the final image
	} else if r.runErr != nil {
		c.Violation("run-failed", "%s: Run(%s) failed without any injected fault: %v", what, r.fl, r.runErr)
	}
}

// checkImage: on any image a later process may find, "applied" implies the migration's post-condition, no
// intermediate state is left for an applied migration, and only migrations that actually returned (nil,nil)
// (or were applied before the scenario) are recorded.
//
// prunerEntered: the history-prune migration was handed control in this or an earlier lifetime. Before that the
// image must retain exactly the blocks the generated database retained; from then on the oracles range over the
// blocks at or above the image's ACTUAL retention floor, which must not exceed the documented one. While the
// history-prune migration is unfinished the hash-keyed reverse lookups are not demanded (postBlockTransactionsFrom).
func (k *realCase) checkImage(img *memory.Database, completed migration.SchemaVersion, prunerEntered bool, retained uint64, what string) migration.SchemaMetadata {
	c, o := k.c, k.o
	md, inter := readMeta(img, nRealMigrations)
	floor := k.retention(img, prunerEntered, retained, what)
	lookups := !prunerEntered || md.CurrentVersion.Has(idxHistoryPruner)
	for idx := 0; idx < nRealMigrations; idx++ {
		if !md.CurrentVersion.Has(uint8(idx)) {
			continue
		}
		if !completed.Has(uint8(idx)) {
			c.Violation("applied-without-completion", "%s: migration %d is recorded as applied but its Migrate never returned (nil,nil)", what, idx)
		}
		if _, ok := inter[idx]; ok {
			c.Violation("applied-with-intermediate-state", "%s: migration %d is applied and still has intermediate state %x", what, idx, inter[idx])
		}
		if msg := o.postconditionFrom(idx, img, floor, lookups); msg != "" {
			c.Violation(fmt.Sprintf("applied-but-unfinished-%d", idx), "%s: migration %d is recorded as applied but its post-condition does not hold (retention floor of the image %d): %s", what, idx, floor, msg)
		}
	}
	return md
}

// retention returns the block number from which on the oracles demand every block of img, and checks it.
func (k *realCase) retention(img *memory.Database, prunerEntered bool, retained uint64, what string) uint64 {
	c, o := k.c, k.o
	if len(o.blocks) == 0 {
		return 0
	}
	f := o.imgFloor(img)
	if !prunerEntered {
		if f != o.pruned {
			c.Violation("blocks-lost-without-pruning", "%s: the oldest retained block is %d, the previous-layout database retained everything from %d on and the history-prune migration never ran", what, f, o.pruned)
		}
		return o.pruned
	}
	if bound := o.docFloor(retained); f > bound {
		c.Violation("pruned-beyond-documented-floor", "%s: the oldest retained block is %d; --prune-mode=%d with L1 head %s and local head %d keeps everything from block %d on", what, f, retained, o.l1Desc(), len(o.blocks)-1, bound)
	}
	return f
}

// checkRefusals: on this image, a binary lacking an applied migration and a configuration disabling a
// previously enabled optional migration must both be refused by NewRunner.
func (k *realCase) checkRefusals(img *memory.Database, md migration.SchemaMetadata, what string) {
	c := k.c
	mk := func(n int, fl flags) *migration.Registry {
		tr := &trace{f: newFaultDB(img)}
		tk := func(i int, m migration.Migration) migration.Migration { return &tracked{idx: i, inner: m, tr: tr} }
		all := []func(r *migration.Registry){
			func(r *migration.Registry) { r.With(tk(0, &blocktransactions.Migrator{})) },
			func(r *migration.Registry) { r.WithOptional(tk(1, historyprunner.New(0, 0)), fl.prune, "prune") },
			func(r *migration.Registry) { r.WithOptional(tk(2, &headstate.Migrator{}), fl.newState, "new-state") },
			func(r *migration.Registry) { r.With(tk(3, &statedifflength.Migrator{})) },
		}
		r := migration.NewRegistry()
		for i := 0; i < n; i++ {
			all[i](r)
		}
		return r
	}
	full := flags{prune: md.LastTargetVersion.Has(idxHistoryPruner), newState: md.LastTargetVersion.Has(idxHeadState)}
	// (a) older binary: registry truncated below the highest applied migration
	if hb := md.CurrentVersion.HighestBit(); hb >= 1 {
		_, err := migration.NewRunner(mk(hb, full), newFaultDB(img.Copy()), k.net, nopLogger)
		if err == nil {
			c.Violation("downgrade-accepted", "%s: NewRunner accepted a registry of %d migrations on a database with current=%b", what, hb, md.CurrentVersion)
		}
		c.Label("refusal:downgrade-checked")
	}
	// (b) opt-out of a previously enabled optional migration
	for _, opt := range []int{idxHistoryPruner, idxHeadState} {
		if !md.LastTargetVersion.Has(uint8(opt)) {
			continue
		}
		fl := full
		if opt == idxHistoryPruner {
			fl.prune = false
		} else {
			fl.newState = false
		}
		_, err := migration.NewRunner(mk(nRealMigrations, fl), newFaultDB(img.Copy()), k.net, nopLogger)
		if err == nil || !strings.Contains(err.Error(), "opt out") {
			c.Violation("opt-out-accepted", "%s: NewRunner(%s) on a database with lastTarget=%b current=%b returned %v (want the opt-out refusal)", what, fl, md.LastTargetVersion, md.CurrentVersion, err)
		}
		c.Label("refusal:opt-out-checked")
	}
}

type interruption struct {
	kind string // "crash" | "cancel" | "fail" (the k-th database operation returns an I/O error, the process exits) | ""
	k    int
}

func (i interruption) String() string { return fmt.Sprintf("%s@%d", i.kind, i.k) }

// toggles says from which restart on each optional flag is given (run index; 0 = from the first start).
type toggles struct {
	nsFrom    int // --new-state
	pruneFrom int // --prune-mode
}

// scenario: first interruption (enumerated) on the base image, then drawn further interruptions, until an
// uninterrupted run under the final flags completes. An optional flag of `final` is given from restart tg.*From on
// (opting in later is legal, opting out is refused and checked by checkRefusals).
func (k *realCase) scenario(first interruption, extra []interruption, final flags, tg toggles, g gate) {
	c, o := k.c, k.o
	img := o.base.Copy()
	completed := o.preset
	plan := append([]interruption{first}, extra...)
	desc := fmt.Sprintf("%s DB, %d blocks (pruned %d, txs %v, L1 head %s), final %s (new-state from run %d, prune from run %d), %s", o.shape, len(o.blocks), o.pruned, o.txCounts, o.l1Desc(), final, tg.nsFrom, tg.pruneFrom, g)
	prunerEntered := false // the history-prune migration was handed control in some lifetime so far
	firstHit := -2         // migration the first interruption landed in
	for r := 0; ; r++ {
		if r > len(plan)+3 {
			c.Violation("no-progress", "%s: plan %v: the upgrade did not complete after %d uninterrupted restarts", desc, plan, r-len(plan))
		}
		fl := k.flagsAt(final, tg, r)
		var in interruption
		if r < len(plan) {
			in = plan[r]
		}
		crashAt, cancelAt, failAt := 0, 0, 0
		switch in.kind {
		case "crash":
			crashAt = in.k
		case "cancel":
			cancelAt = in.k
		case "fail":
			failAt = in.k
		}
		what := fmt.Sprintf("%s: plan %v, run %d (%s, %s)", desc, plan, r, fl, in)
		floorBefore := uint64(0)
		if len(o.blocks) > 0 {
			floorBefore = o.imgFloor(img)
		}
		res := runOnceF(img, k.net, fl, crashAt, cancelAt, failAt, g)
		if res.f.gateTimedOut {
			c.Info("gate-timeouts")
			if os.Getenv("C18_DEBUG") != "" {
				fmt.Println("GATE TIMEOUT", what, "stages", res.f.commitStage, "crashed", res.crashed, "cancelled", res.cancelled, "hit", res.f.hitStage, res.f.hitStageCommits, res.runErr)
			}
		}
		if res.newRunnerErr != nil {
			if in.kind == "fail" && errors.Is(res.newRunnerErr, errIO) {
				// the failing operation was NewRunner's own read of the schema metadata: the process exits, nothing was written
				c.Label("io-error-in-NewRunner")
				continue
			}
			c.Violation("restart-refused", "%s: NewRunner refused: %v", what, res.newRunnerErr)
		}
		k.checkRun(res, what)
		for _, e := range res.tr.evs {
			if e.kind == "migrate" && e.stateNil && e.err == nil {
				completed.Set(uint8(e.idx))
			}
		}
		if r == 0 && (res.crashed || res.cancelled || res.failed) {
			ref := k.reference(k.flagsAt(final, tg, 0))
			hs := res.f.hitStage
			firstHit = hs
			inside := hs >= 0 && res.f.hitStageCommits >= 1 && res.f.hitStageCommits < ref.stageCommits[hs]
			if inside {
				c.NonTrivial(fmt.Sprintf("%s-inside-migration-%d", in.kind, hs))
			} else if hs >= 0 {
				c.Labelf("%s-at-edge-of-migration-%d", in.kind, hs)
			} else {
				c.Labelf("%s-in-runner-bookkeeping", in.kind)
			}
		}
		img = res.f.image()
		if res.entered(idxHistoryPruner) {
			if !prunerEntered && tg.pruneFrom > 0 && (firstHit == idxBlockTransactions || firstHit == idxStateDiffLength) {
				// opted into at a later restart than the one in which that migration was interrupted
				c.Labelf("prune:opted-into-after-the-restart-that-interrupted-migration-%d", firstHit)
			}
			if (res.crashed || res.cancelled || res.failed) && res.f.hitStage == idxHistoryPruner {
				c.Label("prune:history-prune-migration-itself-interrupted")
			}
			prunerEntered = true
		}
		if len(o.blocks) > 0 {
			if floorAfter := o.imgFloor(img); floorAfter > floorBefore {
				c.Label("prune:history-prune-migration-deleted>=1-block")
				c.Info("prune-runs-that-deleted-blocks")
				// the resume checkpoint an interrupted state-diff-length backfill left in an earlier lifetime (next block to
				// fill) now lies below the oldest retained block
				if st, ok := res.startInter[idxStateDiffLength]; ok && len(st) == 8 {
					if cp := binary.BigEndian.Uint64(st); cp > 0 && cp < floorAfter {
						c.NonTrivial("backfill-checkpoint-below-the-floor-pruned-afterwards")
						c.Info("prune-above-backfill-checkpoint")
						if res.entered(idxStateDiffLength) {
							c.Label("prune:backfill-resumed-in-the-lifetime-that-pruned-above-its-checkpoint")
						}
					}
				}
			}
		}
		if res.crashed && o.btOverwriteClass(img) {
			c.Label("crash-image:later-range-committed-before-earlier")
			if stats.Known(keyBTOverwrite) {
				// known finding: resuming from this image empties the already migrated later range
				c.Excluded(keyBTOverwrite)
				return
			}
		}
		if (res.crashed || res.cancelled || res.failed) && o.staleStagerClass(img) {
			c.Label("restart-image:stale-stager-checkpoint-over-unstaged-history")
			if stats.Known(keyPruneStaleStager) {
				c.Excluded(keyPruneStaleStager)
				return
			}
		}
		if (res.crashed || res.cancelled || res.failed) && o.emptyGapClass(img) {
			c.Label("restart-image:only-empty-blocks-left-unmigrated")
			if stats.Known(keyEmptyGap) {
				c.Excluded(keyEmptyGap)
				return
			}
		}
		md := k.checkImage(img, completed, prunerEntered, final.retained, what)
		if res.crashed {
			c.Info("crash-points")
		} else if res.cancelled {
			c.Info("cancel-points")
		} else if res.failed {
			c.Info("io-error-points")
		}
		if r == 0 || res.crashed || res.cancelled || res.failed {
			k.checkRefusals(img, md, what)
		}
		if !res.crashed && !res.cancelled && !(res.failed && res.runErr != nil) && fl == final {
			// completed: the final image must be the image of the uninterrupted upgrade (under the final flags).
			// Byte-for-byte equality is demanded also when --prune-mode / --new-state were switched on at a later
			// restart: measured on the unchanged tree (seeds 1-5, ~1600 toggled cases) it holds, because whatever an
			// earlier lifetime wrote for blocks that are pruned afterwards (filled-in commitments, combined transaction
			// entries, reverse lookups) is keyed by the block and deleted with it, the history buckets of the retained
			// blocks are rebuilt from their own content, and the scratch namespace is wiped before completion.
			ref := k.reference(final)
			got := node.Dump(img)
			if !sameDump(got, ref.dump) {
				detail := ""
				floor := o.pruned
				if prunerEntered && len(o.blocks) > 0 {
					floor = o.imgFloor(img)
				}
				for _, idx := range []int{idxBlockTransactions, idxHeadState, idxStateDiffLength} {
					if md.CurrentVersion.Has(uint8(idx)) {
						if msg := o.postconditionFrom(idx, img, floor, true); msg != "" {
							detail += fmt.Sprintf("\n  post-condition of migration %d violated: %s", idx, msg)
						}
					}
				}
				c.Violation("final-image-differs", "%s: the completed upgrade differs from the uninterrupted one in %d+ keys:\n  %s%s", what, len(dumpDiff(ref.dump, got, 50)), strings.Join(dumpDiff(ref.dump, got, 4), "\n  "), detail)
			}
			if prunerEntered && tg.pruneFrom > 0 {
				// pruning was switched on at a later restart: besides being the reference image, the completed image itself
				// answers the Reader API like the natively written database for every retained block
				floor := o.imgFloor(img)
				if d := o.readerAPIAboveFloor(img, floor, 3); len(d) > 0 {
					c.Violation("reader-api-differs", "%s: after the completed upgrade (floor now %d) the Reader API differs from the natively written database:\n%s", what, floor, strings.Join(d, "\n"))
				}
			}
			c.Info("scenarios-completed")
			return
		}
	}
}

func (k *realCase) flagsAt(final flags, tg toggles, r int) flags {
	fl := final
	fl.newState = final.newState && r >= tg.nsFrom
	fl.prune = final.prune && r >= tg.pruneFrom
	if !fl.prune {
		fl.retained = 0
	}
	return fl
}

func r0stage(ref *reference, commit int) int {
	for s, cs := range ref.commitsOf {
		for _, k := range cs {
			if k == commit {
				return s
			}
		}
	}
	return -1
}

// sdlWorkers is the number of reader goroutines (= batches) of the state-diff-length migration.
func sdlWorkers() int { return min(runtime.GOMAXPROCS(0), 8) }

func TestPropRealMigrations(t *testing.T) {
	stats.Check(t, stats.Budget{Quick: 100, Thorough: 200},
		"generated chain (0-26 quick / 0-45 thorough blocks, empty blocks, leading empty runs, sizes around the 10-block batch boundaries) stored through Blockchain.Store, L1 head record none/behind/equal/ahead of the local head, converted back to the previous layout "+
			"(per-tx buckets via txlayout, commitments without StateDiffLength; 1/4: prefix pruned by pruner.PruneUpto with migrations 0,1 pre-applied); real Runner with the node's registry, the history-prune migration built with a drawn --prune-mode value (0,1,2,5,> chain; minAge 0); reference = uninterrupted run; "+
			"then crash after commit k / cancel at DB operation k / DB operation k fails with an I/O error and the process exits (quick: <= 8 drawn k; thorough: every k) followed by 0-2 drawn further interruptions, --new-state and --prune-mode each enabled from a drawn restart (0,1,2) on; 1/6 of the cases: forced skeleton "+
			"(no pruning + cancellation inside the state-diff-length backfill, pruning with a small retention from the next restart on); "+
			"non-trivial = the first interruption landed strictly inside a migration (after its first commit, before its last), or the resume checkpoint of an interrupted backfill was left below the retention floor established by the history-prune migration at a later restart",
		func(rt *rapid.T, c *stats.Case) {
			// forced skeleton (1/6): run 0 without pruning, cancelled inside the state-diff-length backfill; from run 1 on
			// --prune-mode with a retention small enough that the floor lies above the backfill's checkpoint
			skel := rapid.IntRange(0, 5).Draw(rt, "skeleton") == 0
			opts := dbOpts{fixedN: -1}
			if skel {
				opts.minBlocks, opts.oldLayout, opts.l1Near = 12, true, true
			}
			o := buildOldDBOpts(rt, c, opts)
			k := &realCase{rt: rt, c: c, o: o, net: o.u.Net, ref: map[flags]*reference{}}
			final := flags{prune: o.shape == "pruned", newState: rapid.IntRange(0, 2).Draw(rt, "newstate") > 0}
			var tg toggles
			if final.newState {
				tg.nsFrom = rapid.IntRange(0, 2).Draw(rt, "newstate-from-run")
			}
			nb := len(o.blocks)
			switch {
			case o.shape == "pruned":
				// migrations 0,1 are applied: --prune-mode stays on (opting out is refused), the migration never runs again
			case skel:
				final.prune, tg.pruneFrom = true, 1
				final.retained = uint64(rapid.IntRange(0, 2).Draw(rt, "retained-small"))
				c.Label("skeleton:cancel-in-backfill-then-prune")
			case o.l1Head != nil:
				// the node makes sure an L1 head record exists before it runs the migrations with --prune-mode
				// (fetchL1HeadIfMissing): pruning is drawn only for databases that have one
				if final.prune = rapid.IntRange(0, 2).Draw(rt, "prune") > 0; final.prune {
					tg.pruneFrom = rapid.IntRange(0, 2).Draw(rt, "prune-from-run")
					final.retained = rapid.SampledFrom([]uint64{0, 1, 2, 5, uint64(nb) + 3}).Draw(rt, "retained")
				}
			}
			c.Fp("final %s nsFrom %d pruneFrom %d", final, tg.nsFrom, tg.pruneFrom)
			c.Labelf("new-state:%v/from-run-%d", final.newState, tg.nsFrom)
			if o.shape != "pruned" {
				c.Labelf("prune:%v/from-run-%d", final.prune, tg.pruneFrom)
				if final.prune {
					rl := fmt.Sprint(final.retained)
					if final.retained > uint64(nb) {
						rl = ">chain"
					}
					c.Labelf("prune:retained-%s", rl)
					if o.docFloor(final.retained) > 0 {
						c.Label("prune:documented-floor>0")
					} else {
						c.Label("prune:nothing-to-prune")
					}
					if final.newState {
						c.Label("prune:combined-with-new-state")
					}
				}
			}
			ref0 := k.reference(k.flagsAt(final, tg, 0))
			refF := k.reference(final)
			c.Labelf("commits-in-reference:%s", bucketOf(ref0.commits))
			// later lifetimes may run migrations the first one did not (flags enabled later): extra interruptions range
			// over the longer of the two uninterrupted upgrades
			maxCommits, maxOps := max(ref0.commits, refF.commits), max(ref0.ops, refF.ops)

			drawExtra := func() []interruption {
				n := rapid.IntRange(0, 2).Draw(rt, "extra-interruptions")
				out := make([]interruption, n)
				for i := range out {
					if ek := rapid.IntRange(0, 4).Draw(rt, "extra-kind"); ek < 2 {
						out[i] = interruption{"crash", 1 + gen.Uniform(rt, maxCommits, "extra-crash")}
					} else if ek == 4 {
						out[i] = interruption{"fail", 1 + gen.Uniform(rt, maxOps, "extra-fail")}
					} else {
						out[i] = interruption{"cancel", 1 + gen.Uniform(rt, maxOps, "extra-cancel")}
					}
				}
				return out
			}
			type point struct {
				in    interruption
				stage int  // migration the point was aimed at (-1: anywhere)
				skel  bool // point of the forced skeleton
			}
			var firsts []point
			if stats.Thorough() {
				for i := 1; i <= ref0.commits; i++ {
					firsts = append(firsts, point{interruption{"crash", i}, r0stage(ref0, i), false})
				}
				for i := 1; i <= ref0.ops; i++ {
					st := -1
					for s, rg := range ref0.opsOf {
						if i >= rg[0] && i <= rg[1] {
							st = s
						}
					}
					firsts = append(firsts, point{interruption{"cancel", i}, st, false})
					firsts = append(firsts, point{interruption{"fail", i}, st, false})
				}
			} else {
				n := rapid.IntRange(4, 8).Draw(rt, "npoints")
				for i := 0; i < n; i++ {
					if rg, ok := ref0.opsOf[idxStateDiffLength]; skel && ok && i < (n+1)/2 {
						// skeleton: cancel while the backfill is still in the blocks below the floor that will be established
						// (it reads ~3 database operations per block after 2 initial ones)
						span := 3 * max(int(o.docFloor(final.retained))-1, 1)
						kk := min(rg[0]+2+gen.Uniform(rt, span, "skeleton-cancel-k"), max(rg[1], rg[0]))
						firsts = append(firsts, point{interruption{"cancel", kk}, idxStateDiffLength, true})
						continue
					}
					// aim 3 of 4 points at the inside of a migration that ran in the reference
					st := -1
					if len(ref0.stages) > 0 && rapid.IntRange(0, 3).Draw(rt, "aim") > 0 {
						st = ref0.stages[gen.Uniform(rt, len(ref0.stages), "aim-stage")]
					}
					if i%2 == 0 {
						k := 1 + gen.Uniform(rt, ref0.commits, "crash-k")
						if cs := ref0.commitsOf[st]; st >= 0 && len(cs) > 0 {
							k = cs[gen.Uniform(rt, len(cs), "crash-k-in-stage")]
						}
						firsts = append(firsts, point{interruption{"crash", k}, st, false})
					} else {
						k := 1 + gen.Uniform(rt, ref0.ops, "cancel-k")
						if rg, ok := ref0.opsOf[st]; ok && rg[1] >= rg[0] {
							k = rg[0] + gen.Uniform(rt, rg[1]-rg[0]+1, "cancel-k-in-stage")
						}
						kind := "cancel"
						if i%4 == 3 { // a quarter of the points: the operation FAILS (I/O error) instead of being the one a cancellation lands at
							kind = "fail"
						}
						firsts = append(firsts, point{interruption{kind, k}, st, false})
					}
				}
			}
			drawGate := func(aim int) gate {
				if nb == 0 {
					return noGate
				}
				kind := rapid.IntRange(0, 3).Draw(rt, "gate-kind")
				target := aim
				if kind == 3 || (aim != idxBlockTransactions && aim != idxStateDiffLength) {
					target = []int{idxBlockTransactions, idxStateDiffLength}[rapid.IntRange(0, 1).Draw(rt, "gate-stage")]
				}
				switch {
				case kind == 0:
					return noGate
				case target == idxStateDiffLength:
					if sdlWorkers() < 2 {
						return noGate
					}
					return gate{idxStateDiffLength, o.pruned + uint64(gen.Uniform(rt, nb-int(o.pruned), "gate-block")), rapid.IntRange(1, sdlWorkers()-1).Draw(rt, "gate-commits")}
				default:
					if o.shape != "old-layout" || stats.Known(keyBTOverwrite) {
						// (known finding keyBTOverwrite: do not provoke out-of-order commits of the block-transactions batches)
						return noGate
					}
					return gate{idxBlockTransactions, uint64(gen.Uniform(rt, nb, "gate-block")), rapid.IntRange(1, 3).Draw(rt, "gate-commits")}
				}
			}
			for _, f := range firsts {
				var extra []interruption
				g := noGate
				if f.skel && rapid.Bool().Draw(rt, "skeleton-plain") {
					// plain skeleton: one cancellation, then uninterrupted restarts
				} else {
					extra = drawExtra()
					g = drawGate(f.stage)
				}
				c.Fp("%s %v %s", f.in, extra, g)
				if g.stage >= 0 {
					c.Labelf("gate:migration-%d", g.stage)
				}
				k.scenario(f.in, extra, final, tg, g)
			}
			c.Sample(func() any {
				return map[string]any{"shape": o.shape, "blocks": len(o.blocks), "pruned_prefix": o.pruned, "tx_counts": o.txCounts, "l1_head": o.l1Desc(),
					"final_flags": final.String(), "new_state_from_run": tg.nsFrom, "prune_from_run": tg.pruneFrom, "documented_floor": o.docFloor(final.retained),
					"floor_of_reference_image": refF.floor, "reference_commits": ref0.commits, "reference_db_ops": ref0.ops,
					"commits_per_migration": ref0.stageCommits, "first_interruptions": len(firsts)}
			})
		})
}
