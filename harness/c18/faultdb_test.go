package c18

import (
	"bytes"
	"context"
	"errors"
	"sync"
	"time"

	"github.com/NethermindEth/juno/db"
	"github.com/NethermindEth/juno/db/memory"
)

// errCrashed is returned by every operation of a faultDB after its simulated process death.
var errCrashed = errors.New("c18: simulated crash (process is dead)")

// errIO is the injected failure of one database operation.
var errIO = errors.New("c18: injected I/O error")

// faultDB is a db.KeyValueStore over memory.Database that
//   - counts every COMMIT (direct Put/Delete/DeleteRange on the store, every Batch.Write, including
//     the batches created by the Update/Write helpers),
//   - counts every OPERATION (store reads Has/Get/NewIterator/NewSnapshot, store writes, batch Put/Delete/
//     DeleteRange and Batch.Write),
//   - can "crash" right after the crashAt-th commit: the image of the database at that instant is frozen
//     (memory.Database.Copy) and every later operation fails with errCrashed,
//   - can cancel a context when the cancelAt-th operation is issued (the operation itself proceeds).
//
// stage is maintained by the tracked migrators: index of the migration whose Migrate is executing, -1 while the
// runner itself is working. Every commit is attributed to the stage it was made in.
type faultDB struct {
	inner *memory.Database

	mu       sync.Mutex
	commits  int
	ops      int
	crashAt  int // 0 = never
	cancelAt int // 0 = never
	failAt   int // 0 = never: the failAt-th operation returns errIO and has no effect (an I/O error; the process then exits)
	failed   bool
	cancel   context.CancelFunc
	crashed  bool
	frozen   *memory.Database
	stage    int
	// stage of every commit (commitStage[k-1] = stage of commit k)
	commitStage []int
	// operation numbers [first, last] issued inside Migrate(stage)
	stageOps map[int][2]int
	// bookkeeping at the moment of the interruption
	hitStage        int // stage in which the interruption landed (-2 = none)
	hitStageCommits int // commits made inside that stage invocation before (crash: including) the interruption
	stageCommits    int // commits inside the current stage invocation

	// gate: schedule perturbation modelling one slow read. The first Get of gateKey issued while stage ==
	// gateStage blocks until gateCommits commits were made inside that stage invocation (by the other pipeline
	// workers), the process crashed, or a timeout expired. It makes out-of-order batch commits reachable
	// deterministically; it never changes any result.
	gateKey      []byte
	gateStage    int
	gateCommits  int
	gateUsed     bool
	gateCh       chan struct{}
	gateTimedOut bool
}

const gateTimeout = 250 * time.Millisecond

func (f *faultDB) setGate(stage int, key []byte, commits int) {
	f.gateStage, f.gateKey, f.gateCommits = stage, key, commits
	f.gateCh = make(chan struct{})
}

// openGate must be called with mu held.
func (f *faultDB) openGate() {
	if f.gateCh != nil {
		select {
		case <-f.gateCh:
		default:
			close(f.gateCh)
		}
	}
}

func (f *faultDB) maybeWaitAtGate(key []byte) {
	f.mu.Lock()
	if f.gateKey == nil || f.gateUsed || f.stage != f.gateStage || !bytes.Equal(key, f.gateKey) || f.crashed {
		f.mu.Unlock()
		return
	}
	f.gateUsed = true
	if f.stageCommits >= f.gateCommits {
		f.mu.Unlock()
		return
	}
	ch := f.gateCh
	f.mu.Unlock()
	select {
	case <-ch:
	case <-time.After(gateTimeout):
		f.mu.Lock()
		f.gateTimedOut = true
		f.mu.Unlock()
	}
}

var _ db.KeyValueStore = (*faultDB)(nil)

func newFaultDB(inner *memory.Database) *faultDB {
	return &faultDB{inner: inner, stage: -1, hitStage: -2, stageOps: map[int][2]int{}}
}

func (f *faultDB) setStage(s int) {
	f.mu.Lock()
	if s >= 0 {
		f.stageOps[s] = [2]int{f.ops + 1, 0}
	} else if f.stage >= 0 {
		r := f.stageOps[f.stage]
		r[1] = f.ops
		f.stageOps[f.stage] = r
	}
	f.stage = s
	f.stageCommits = 0
	f.mu.Unlock()
}

// op accounts one operation; returns errCrashed when the process is dead.
func (f *faultDB) op() error { return f.opF(true) }

// stagedWrite accounts a Put / Delete / DeleteRange INTO a batch: an in-memory append that has no way to fail in the real
// stores, so it is never the operation that returns the injected I/O error (reads and commits are).
func (f *faultDB) stagedWrite() error { return f.opF(false) }

func (f *faultDB) opF(mayFail bool) error {
	f.mu.Lock()
	defer f.mu.Unlock()
	if f.crashed {
		return errCrashed
	}
	f.ops++
	if f.cancelAt != 0 && f.ops == f.cancelAt && f.cancel != nil {
		f.hitStage = f.stage
		f.hitStageCommits = f.stageCommits
		f.cancel()
	}
	if f.failAt != 0 && f.ops == f.failAt {
		if !mayFail {
			f.failAt++ // the next operation that can fail
			return nil
		}
		f.hitStage = f.stage
		f.hitStageCommits = f.stageCommits
		f.failed = true
		return errIO
	}
	return nil
}

// commit runs apply (one atomic write to the inner store) as commit number commits+1.
func (f *faultDB) commit(apply func() error) error {
	f.mu.Lock()
	defer f.mu.Unlock()
	if f.crashed {
		return errCrashed
	}
	f.ops++
	if f.cancelAt != 0 && f.ops == f.cancelAt && f.cancel != nil {
		f.hitStage = f.stage
		f.hitStageCommits = f.stageCommits
		f.cancel()
	}
	if f.failAt != 0 && f.ops == f.failAt {
		f.hitStage = f.stage
		f.hitStageCommits = f.stageCommits
		f.failed = true
		return errIO
	}
	if err := apply(); err != nil {
		return err
	}
	f.commits++
	f.stageCommits++
	f.commitStage = append(f.commitStage, f.stage)
	if f.gateKey != nil && f.stage == f.gateStage && f.stageCommits >= f.gateCommits {
		f.openGate()
	}
	if f.crashAt != 0 && f.commits == f.crashAt {
		f.frozen = f.inner.Copy()
		f.crashed = true
		f.hitStage = f.stage
		f.hitStageCommits = f.stageCommits
		f.openGate()
	}
	return nil
}

// ---- reader

func (f *faultDB) Has(key []byte) (bool, error) {
	if err := f.op(); err != nil {
		return false, err
	}
	return f.inner.Has(key)
}

func (f *faultDB) Get(key []byte, cb func([]byte) error) error {
	f.maybeWaitAtGate(key)
	if err := f.op(); err != nil {
		return err
	}
	return f.inner.Get(key, cb)
}

func (f *faultDB) NewIterator(prefix []byte, withUpperBound bool) (db.Iterator, error) {
	if err := f.op(); err != nil {
		return nil, err
	}
	return f.inner.NewIterator(prefix, withUpperBound)
}

// ---- direct writers (each is one commit)

func (f *faultDB) Put(key, value []byte) error {
	return f.commit(func() error { return f.inner.Put(key, value) })
}

func (f *faultDB) Delete(key []byte) error {
	return f.commit(func() error { return f.inner.Delete(key) })
}

func (f *faultDB) DeleteRange(start, end []byte) error {
	return f.commit(func() error { return f.inner.DeleteRange(start, end) })
}

// ---- batches

type faultBatch struct {
	f *faultDB
	b db.IndexedBatch
}

var _ db.IndexedBatch = (*faultBatch)(nil)

func (f *faultDB) wrap(b db.IndexedBatch) *faultBatch { return &faultBatch{f: f, b: b} }

func (f *faultDB) NewBatch() db.Batch                { return f.wrap(f.inner.NewIndexedBatch()) }
func (f *faultDB) NewBatchWithSize(int) db.Batch     { return f.wrap(f.inner.NewIndexedBatch()) }
func (f *faultDB) NewIndexedBatch() db.IndexedBatch  { return f.wrap(f.inner.NewIndexedBatch()) }
func (f *faultDB) NewIndexedBatchWithSize(int) db.IndexedBatch {
	return f.wrap(f.inner.NewIndexedBatch())
}

func (b *faultBatch) Put(k, v []byte) error {
	if err := b.f.stagedWrite(); err != nil {
		return err
	}
	return b.b.Put(k, v)
}

func (b *faultBatch) Delete(k []byte) error {
	if err := b.f.stagedWrite(); err != nil {
		return err
	}
	return b.b.Delete(k)
}

func (b *faultBatch) DeleteRange(s, e []byte) error {
	if err := b.f.stagedWrite(); err != nil {
		return err
	}
	return b.b.DeleteRange(s, e)
}

func (b *faultBatch) Has(k []byte) (bool, error) {
	if err := b.f.op(); err != nil {
		return false, err
	}
	return b.b.Has(k)
}

func (b *faultBatch) Get(k []byte, cb func([]byte) error) error {
	if err := b.f.op(); err != nil {
		return err
	}
	return b.b.Get(k, cb)
}

func (b *faultBatch) NewIterator(p []byte, ub bool) (db.Iterator, error) {
	if err := b.f.op(); err != nil {
		return nil, err
	}
	return b.b.NewIterator(p, ub)
}

func (b *faultBatch) Size() int    { return b.b.Size() }
func (b *faultBatch) Close() error { return b.b.Close() }
func (b *faultBatch) Write() error { return b.f.commit(b.b.Write) }

// ---- helpers: the commit of the helper-created batch goes through the counting path

func (f *faultDB) Update(fn func(db.IndexedBatch) error) error {
	b := f.NewIndexedBatch()
	if err := fn(b); err != nil {
		_ = b.Close()
		return err
	}
	return b.Write()
}

func (f *faultDB) Write(fn func(db.Batch) error) error {
	b := f.NewBatch()
	if err := fn(b); err != nil {
		_ = b.Close()
		return err
	}
	return b.Write()
}

func (f *faultDB) NewSnapshot() db.Snapshot {
	_ = f.op()
	return f.inner.NewSnapshot()
}

func (f *faultDB) WithListener(db.EventListener) db.KeyValueStore { return f }
func (f *faultDB) Impl() any                                        { return f.inner.Impl() }
func (f *faultDB) Path() string                                     { return "" }
func (f *faultDB) Close() error                                     { return nil }

// image returns the database image the next process would find: the frozen image after a crash,
// a copy of the live store otherwise.
func (f *faultDB) image() *memory.Database {
	f.mu.Lock()
	defer f.mu.Unlock()
	if f.crashed {
		return f.frozen.Copy()
	}
	return f.inner.Copy()
}
