# Driver configuration for property C10 (read by /verif/checks_config.py)
PROP = dict(
        pkg="c10", level="exploration",
        technique=("property-based testing (rapid): completeness vs an independent reference MPT root + independent proof walker; "
                   "semantic soundness under generated single corruptions; RPC proofs checked by a verifier written from the RPC spec"),
        level_text=("Exploration: thousands of generated key/value sets, queried keys, range scenarios and corruptions per run on both trie "
                    "implementations, and generated chains served through the real JSON-RPC stack (v0_9, v0_10, both state backends); every "
                    "accepted proof is compared with an explicit model. Samples the input space, does not prove absence. Hash primitives "
                    "(Pedersen, Poseidon) are trusted."),
        rule=("Value pools with deliberate repeats (3-value pool in half of the cases) and 'copied neighbourhoods' (2 or 4 adjacent keys "
              "and the same values at a second place displaced by 1-2 drawn bits) make identical sub-tries under different edges frequent "
              "(labels duplicate-subtrie, duplicate-subtrie-under-different-edges); every case also proves 2-8 keys into ONE shared node set "
              "(as the RPC and GetRangeProof do) and verifies each key against it with VerifyProof and the independent walker; honest range "
              "proofs must be walkable to both boundary keys; the RPC chains get, in half of the cases, a hand-built final block writing equal "
              "values to adjacent slots at two places of one contract, whose slots are then requested together. "
              "TestPropTrieProofs: key sets over a pool (height 251: universe stems or dense low-bit subtrees with branches; heights 8 and 3 "
              "exhaustive key space; Pedersen/Poseidon) on core/trie (committed, optionally reopened) and core/trie2 (fresh/hashed/persisted); "
              "queries present / pool / one-bit-flipped at a drawn depth / boundary; Prove output walked by an independent verifier from the "
              "ref.MPT root, VerifyProof must return model[k]; then one corruption of (root,key,proof) (hash/value flip, path bit, length, swap, "
              "drop, re-key, node kind, foreign node, other key/root, trie2 value/hash confusion, stale hash cache) with the oracle "
              "'accepted => value == model[key]'. Non-trivial = an absent key diverging strictly inside an edge was proven or a shape-preserving "
              "corruption evaluated. TestPropRangeProofs: honest ranges (whole trie, [first,last] with first existing/absent/zero/beyond, single, "
              "empty) must verify with the right hasMore; one corruption of (root, first, keys, values, proof) with the oracle 'accepted => list "
              "== the trie's leaves in the covered range and hasMore right'; non-trivial = >= 3 leaves and a well-formed corrupted list. "
              "TestPropRPCStorageProof: generated chains (1-6 blocks) on legacy+trie2 nodes, starknet_getStorageProof as JSON text via "
              "jsonrpc.Server for v0_9/v0_10 with classes/contracts/slots from the universe plus absent ones; non-trivial = >= 2 contracts with "
              "storage keys and different non-empty storage. Distinct = SHA-256 of the rendered model, queries and corruptions."),
        assumptions=["Pedersen/Poseidon implementations are trusted", "ref.MPT / ref.State are the reference (validated against mainnet fixtures in C01)",
                     "VerifyProof/VerifyRangeProof hard-code height 251 (and Pedersen for ranges): smaller heights are checked with the independent walker only",
                     "an error on the EMPTY trie (no root node) is tolerated for VerifyProof/VerifyRangeProof",
                     "true leaves left of `first` in an accepted range are tolerated (nothing in the doc comments forbids them)",
                     "11 known findings (FINDINGS.md) are excluded by construction while listed as known"],
        runs=[dict(run="^Test(Prop|Known)")],
    )
