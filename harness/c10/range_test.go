package c10

import (
	"fmt"
	"testing"

	"github.com/NethermindEth/juno/core/felt"
	"pgregory.net/rapid"

	"verif/harness/internal/gen"
	"verif/harness/internal/ref"
	"verif/harness/internal/stats"
)

// What a successful VerifyRangeProof(root, first, keys, values, proof) claims (doc comments of
// core/trie.VerifyRangeProof, mirrored by core/trie2 and by the go-ethereum function both are ported from):
//   - proof == nil: keys/values are ALL leaves of the trie;
//   - len(keys) == 0: there is no leaf >= first ("Empty range proof with more elements on the right is not accepted");
//   - otherwise: keys/values are consecutive (no gaps), increasing, and are exactly the leaves in
//     [first, keys[len-1]]; the boolean tells whether leaves greater than keys[len-1] exist.
type rangeClaim struct {
	root     felt.Felt
	first    felt.Felt
	keys     []felt.Felt
	values   []felt.Felt
	nodes    []pnode
	nilProof bool
}

func (r rangeClaim) String() string {
	s := fmt.Sprintf("root=%s first=%s nilProof=%v keys=[", r.root.ShortString(), r.first.String(), r.nilProof)
	for i := range r.keys {
		v := "?"
		if i < len(r.values) {
			v = r.values[i].String()
		}
		s += r.keys[i].String() + "=" + v + " "
	}
	return s + fmt.Sprintf("] (%d values) proof=%v", len(r.values), r.nodes)
}

func ptrs(fs []felt.Felt) []*felt.Felt {
	out := make([]*felt.Felt, len(fs))
	for i := range fs {
		f := fs[i]
		out[i] = &f
	}
	return out
}

// claimHolds evaluates the claim of a successful verification against the model. It returns "" when the claim
// is true, otherwise what is wrong.
func claimHolds(model map[felt.Felt]felt.Felt, trueRoot felt.Felt, r rangeClaim, hasMore, ignoreMore bool) string {
	if !r.root.Equal(&trueRoot) {
		return "accepted against a root that is not the trie's root"
	}
	if len(r.keys) != len(r.values) {
		return "keys and values have different lengths"
	}
	entries := sortedKeys(model)
	var want []felt.Felt
	more := false
	switch {
	case r.nilProof:
		want = entries
	case len(r.keys) == 0:
		for _, k := range entries {
			if k.Cmp(&r.first) >= 0 && !ignoreMore {
				return fmt.Sprintf("empty range accepted although the trie holds %s >= first", k.String())
			}
		}
		return ""
	default:
		last := r.keys[len(r.keys)-1]
		// covered range: from first (or the first returned key when that is smaller: true leaves left of `first`
		// are harmless and nothing in the doc comments forbids them) to the last returned key
		lo := r.first
		if r.keys[0].Cmp(&lo) < 0 {
			lo = r.keys[0]
		}
		for _, k := range entries {
			if k.Cmp(&lo) >= 0 && k.Cmp(&last) <= 0 {
				want = append(want, k)
			}
			if k.Cmp(&last) > 0 {
				more = true
			}
		}
	}
	if len(want) != len(r.keys) {
		return fmt.Sprintf("the trie holds %d leaves in the covered range, the accepted list has %d", len(want), len(r.keys))
	}
	for i := range want {
		if !want[i].Equal(&r.keys[i]) {
			return fmt.Sprintf("position %d: accepted key %s, the trie's %d-th leaf in the range is %s", i, r.keys[i].String(), i, want[i].String())
		}
		if mv := model[want[i]]; !mv.Equal(&r.values[i]) {
			return fmt.Sprintf("key %s: accepted value %s, the trie holds %s", want[i].String(), r.values[i].String(), mv.String())
		}
	}
	if hasMore != more && !ignoreMore {
		return fmt.Sprintf("hasMore=%v but leaves beyond the last key exist=%v", hasMore, more)
	}
	return ""
}

// listIsFalse: the (keys, values) list differs from the trie's leaves in the covered range
// [min(first, keys[0]), keys[len-1]] (omission, fabrication or a wrong value). core/trie.VerifyRangeProof keeps the
// child hashes of the proof nodes for sub-tries INSIDE the range (there is no counterpart of go-ethereum's
// unsetInternal and a proof hash wins over the inserted leaves), so such lists are accepted whenever the affected leaf
// hangs off one of the two edge paths. The maintainer TODO in core/trie/proof.go names the smallest instance (a sibling
// leaf); the whole class is excluded for core/trie while the finding is open.
func listIsFalse(model map[felt.Felt]felt.Felt, entries []felt.Felt, r rangeClaim) bool {
	if len(r.keys) == 0 || len(r.keys) != len(r.values) {
		return false
	}
	lo, last := r.first, r.keys[len(r.keys)-1]
	if r.keys[0].Cmp(&lo) < 0 {
		lo = r.keys[0]
	}
	var want []felt.Felt
	for _, m := range entries {
		if m.Cmp(&lo) >= 0 && m.Cmp(&last) <= 0 {
			want = append(want, m)
		}
	}
	if len(want) != len(r.keys) {
		return true
	}
	for i := range want {
		if mv := model[want[i]]; !want[i].Equal(&r.keys[i]) || !mv.Equal(&r.values[i]) {
			return true
		}
	}
	return false
}

// edgeProofIncomplete: walking from the claimed root towards first or towards the last key runs into a node that is
// not in the proof set (independent walker; hash mismatches count as incomplete too).
func edgeProofIncomplete(r rangeClaim) bool {
	nm := nodeMap(r.nodes)
	ends := []felt.Felt{r.first}
	if len(r.keys) > 0 {
		ends = append(ends, r.keys[len(r.keys)-1])
	}
	for _, e := range ends {
		if _, err := walk(r.root, felt2big(&e), 251, nm, ref.Pedersen); err != nil {
			return true
		}
	}
	return false
}

func insertSorted(keys, values []felt.Felt, k, v felt.Felt) ([]felt.Felt, []felt.Felt) {
	i := 0
	for i < len(keys) && keys[i].Cmp(&k) < 0 {
		i++
	}
	keys = append(keys[:i], append([]felt.Felt{k}, keys[i:]...)...)
	values = append(values[:i], append([]felt.Felt{v}, values[i:]...)...)
	return keys, values
}

func TestPropRangeProofs(t *testing.T) {
	stats.Check(t, stats.Budget{Quick: 2500, Thorough: 16000},
		"key/value sets as TestPropTrieProofs (height 251, Pedersen) on core/trie and core/trie2; honest range proofs: whole trie without proof, [first, last returned] with first existing / absent / zero / beyond the last leaf, 0..n elements, single element; expected to verify with the right hasMore; then ONE corruption of (root, first, keys, values, proof) — truncate keys/values, change a value or key, drop first/middle/last element, swap, duplicate, insert foreign leaf, drop/replace/alter a proof node, coordinated value+proof-leaf forgery — with the semantic oracle 'accepted => the list is exactly the trie's leaves in the covered range and hasMore is right'; non-trivial = >= 3 leaves with a corruption that keeps the list well-formed (sorted, equal lengths) evaluated",
		func(rt *rapid.T, c *stats.Case) {
			const height = 251
			pool, poolKind := keyPool(rt, height)
			model, order, nbKeys := drawModel(rt, pool, 12, height)
			pool = append(pool, nbKeys...)
			labelDup(c, height, model)
			if stats.Known(kfTrie2RangeSharedNode) {
				// known finding: two sibling sub-tries with the same hash share ONE proof node object and trie2's fork detection
				// compares pointers (panic / wrong result on an honest range). Equal values are what makes sub-tries equal:
				// values are made pairwise distinct while the finding is open.
				seen := map[felt.Felt]bool{}
				for i, k := range order {
					v := model[k]
					if seen[v] {
						var d felt.Felt
						d.SetUint64(uint64(0x1000 + i))
						v.Add(&v, &d)
						model[k] = v
						c.Excluded(kfTrie2RangeSharedNode)
					}
					seen[v] = true
				}
			}
			c.Fp("%s", renderKV(model))
			c.Label("pool-" + poolKind)
			root := ref.MPT(height, ref.Pedersen, model)
			entries := sortedKeys(model)
			binaryRoot := len(entries) >= 2 && felt2big(&entries[0]).Bit(250) != felt2big(&entries[len(entries)-1]).Bit(250)
			if binaryRoot {
				c.Label("root-is-binary")
			}
			li := newLegacy(height, false, model, order, rapid.Bool().Draw(rt, "legacyReopen"))
			ti := newTrie2(height, false, model, order, rapid.SampledFrom(trie2Modes).Draw(rt, "trie2mode"))
			impls := []impl{li, ti}

			fmodel := map[felt.Felt]felt.Felt{}
			for k, v := range model {
				fmodel[k] = v
			}
			fk := rapid.SampledFrom(pool).Draw(rt, "foreignKey")
			fmodel[fk] = gen.F(0xf00d)
			otherRoot := ref.MPT(height, ref.Pedersen, fmodel)
			forder := sortedKeys(fmodel)
			fimpls := []impl{newLegacy(height, false, fmodel, forder, false), newTrie2(height, false, fmodel, forder, "hashed")}

			nsc := rapid.IntRange(1, 3).Draw(rt, "nscenarios")
			for si := 0; si < nsc; si++ {
				// ---- honest scenario
				var h rangeClaim
				h.root = root
				scen := rapid.SampledFrom([]string{"whole-nil", "range", "range", "range", "range", "single", "beyond"}).Draw(rt, "scenario")
				expectOK := true
				switch scen {
				case "whole-nil":
					h.nilProof = true
					h.keys = append(h.keys, entries...)
				case "beyond":
					// first lies after every leaf: honest empty range
					if len(entries) > 0 && entries[len(entries)-1].Equal(ptrF(big2felt(maxKey251))) {
						h.first = big2felt(maxKey251)
						h.keys = []felt.Felt{h.first}
						scen = "single"
					} else if len(entries) > 0 {
						var one felt.Felt
						one.SetUint64(1)
						h.first.Add(&entries[len(entries)-1], &one)
					} else {
						h.first, _ = queryKey(rt, height, pool, entries)
					}
				case "single":
					if len(entries) == 0 {
						h.first, _ = queryKey(rt, height, pool, entries)
					} else {
						h.first = rapid.SampledFrom(entries).Draw(rt, "singleKey")
						h.keys = []felt.Felt{h.first}
					}
				default:
					h.first, _ = queryKey(rt, height, pool, entries)
					i := 0
					for i < len(entries) && entries[i].Cmp(&h.first) < 0 {
						i++
					}
					n := rapid.IntRange(0, len(entries)-i).Draw(rt, "nelems")
					h.keys = append(h.keys, entries[i:i+n]...)
					if n == 0 && i < len(entries) {
						expectOK = false // an empty answer although leaves >= first exist is not an honest answer
						scen = "range-empty-dishonest"
					}
				}
				for _, k := range h.keys {
					h.values = append(h.values, model[k])
				}
				c.Fp("s %s first=%s n=%d", scen, h.first.String(), len(h.keys))
				c.Label("scenario:" + scen)
				if _, ok := model[h.first]; ok {
					c.Label("first-exists")
				} else if !h.nilProof {
					c.Label("first-absent")
				}
				if len(h.keys) == len(entries) && len(entries) > 0 {
					c.Label("covers-whole-trie")
				}
				wantMore := false
				if len(h.keys) > 0 && !h.nilProof {
					last := h.keys[len(h.keys)-1]
					wantMore = entries[len(entries)-1].Cmp(&last) > 0
				}

				for ii, im := range impls {
					isT2 := ii == 1
					hc := h
					// known finding: core/trie.hasRightElement is wrong when the root is a binary node at depth 0 (always false)
					// and when the key leaves the trie inside an edge (divergence ignored): hasMore and the empty-range
					// decision of core/trie are not asserted while it is open
					ignoreMore := false
					if !isT2 && stats.Known(kfLegacyHasMore) {
						ignoreMore = true
						c.Excluded(kfLegacyHasMore)
					}
					if !h.nilProof {
						right := h.first
						if len(h.keys) > 0 {
							right = h.keys[len(h.keys)-1]
						}
						var err error
						if msg, p := guarded(func() { hc.nodes, err = im.rangeProof(&h.first, &right) }); p || err != nil {
							c.Violation("rangeproof-error", "%s GetRangeProof(%s, %s): %v %s (model %s)", im.name(), h.first.String(), right.String(), err, msg, renderKV(model))
						}
					}
					// independent of the verifier under test: the node set GetRangeProof filled for two keys must lead from the
					// reference root to both of them (no hole where the two paths run through identical sub-tries)
					if !hc.nilProof && len(entries) > 0 && edgeProofIncomplete(hc) {
						c.Violation("rangeproof-incomplete", "%s GetRangeProof(%s, last key): the node set does not lead from the reference root to both boundary keys\n%v\nmodel %s", im.name(), hc.first.String(), hc, renderKV(model))
					}
					var more bool
					var err error
					if msg, p := guarded(func() {
						more, err = im.verifyRange(&hc.root, &hc.first, ptrs(hc.keys), ptrs(hc.values), hc.nodes, hc.nilProof)
					}); p {
						c.Violation("verify-range-panic", "%s VerifyRangeProof panicked on an honest range: %s\n%v\nmodel %s", im.name(), msg, hc, renderKV(model))
					}
					if len(entries) == 0 {
						// the empty trie has no root node to prove anything from: an error is tolerated, a wrong claim is not
						c.Labelf("empty-trie-range-err-%v", err != nil)
						if err == nil {
							if why := claimHolds(model, root, hc, more, false); why != "" {
								c.Violation("forged-range-accepted", "%s VerifyRangeProof on the empty trie: %s\n%v", im.name(), why, hc)
							}
						}
					} else if expectOK {
						if err != nil && ignoreMore && len(hc.keys) == 0 {
							c.Label("legacy-honest-empty-range-rejected(known)")
						} else if err != nil {
							c.Violation("range-completeness", "%s VerifyRangeProof rejected an honest range (%s): %v\n%v\nmodel %s", im.name(), scen, err, hc, renderKV(model))
						}
						if more != wantMore && !ignoreMore {
							c.Violation("range-hasmore", "%s VerifyRangeProof(honest %s) hasMore=%v, want %v\n%v\nmodel %s", im.name(), scen, more, wantMore, hc, renderKV(model))
						}
					} else if err == nil {
						if why := claimHolds(model, root, hc, more, ignoreMore); why != "" {
							c.Violation("forged-range-accepted", "%s VerifyRangeProof accepted a dishonest empty range: %s\n%v\nmodel %s", im.name(), why, hc, renderKV(model))
						}
					}

					// ---- corruptions
					var foreign []pnode
					var ferr error
					if msg, p := guarded(func() { foreign, ferr = fimpls[ii].prove(&fk) }); p || ferr != nil {
						stats.HarnessError("foreign proof: %v %s", ferr, msg)
					}
					nt := rapid.IntRange(1, 4).Draw(rt, "ntamper")
					for ti := 0; ti < nt; ti++ {
						tc := rangeClaim{root: hc.root, first: hc.first, nilProof: hc.nilProof, nodes: cloneNodes(hc.nodes),
							keys: append([]felt.Felt{}, hc.keys...), values: append([]felt.Felt{}, hc.values...)}
						n := len(tc.keys)
						kinds := []string{"proof-level", "insert-foreign", "first-change"}
						if n > 0 {
							kinds = append(kinds, "truncate-keys", "truncate-values", "truncate-both", "change-value", "change-value", "change-key", "drop-elem", "drop-elem", "drop-elem", "duplicate", "forge-value+leaf")
						}
						if n > 1 {
							kinds = append(kinds, "swap")
						}
						if !tc.nilProof {
							kinds = append(kinds, "nil-proof")
						}
						kind := rapid.SampledFrom(kinds).Draw(rt, "rtamper")
						desc := kind
						wellFormed := true
						changed := true
						contentChanged := false // the content of a proof node was altered (its set key kept)
						switch kind {
						case "proof-level":
							tr := tamper(rt, c, isT2, height, tc.root, tc.first, tc.nodes, foreign, otherRoot, pool, felt.Zero, isT2 && stats.Known(kfTrie2RangePanic))
							if tr.sanitized {
								c.Excluded(kfTrie2RangePanic)
							}
							if tr.desc == "value-hash-confusion" && stats.Known(kfTrie2ValueNode) {
								// same representation-level confusion as in VerifyProof; not evaluated while that finding is open
								c.Excluded(kfTrie2ValueNode)
								changed = false
								break
							}
							tc.root, tc.first, tc.nodes = tr.root, tr.key, tr.nodes
							desc = "proof:" + tr.desc
							changed = tr.changed
							switch tr.desc {
							case "key-flip", "key-pool", "root-flip", "root-other", "add-foreign", "drop", "rekey":
							default:
								contentChanged = true
							}
						case "insert-foreign":
							k := rapid.SampledFrom(pool).Draw(rt, "insKey")
							if _, ok := model[k]; ok {
								changed = false
								break
							}
							tc.keys, tc.values = insertSorted(tc.keys, tc.values, k, gen.NonZeroFelt().Draw(rt, "insVal"))
						case "first-change":
							nf, _ := queryKey(rt, height, pool, entries)
							changed = !nf.Equal(&tc.first)
							tc.first = nf
						case "truncate-keys":
							tc.keys = tc.keys[:rapid.IntRange(0, n-1).Draw(rt, "cut")]
							wellFormed = false
						case "truncate-values":
							tc.values = tc.values[:rapid.IntRange(0, n-1).Draw(rt, "cut")]
							wellFormed = false
						case "truncate-both":
							m := rapid.IntRange(0, n-1).Draw(rt, "cut")
							tc.keys, tc.values = tc.keys[:m], tc.values[:m]
						case "change-value":
							j := rapid.IntRange(0, n-1).Draw(rt, "idx")
							nv := gen.Felt().Draw(rt, "newVal")
							changed = !nv.Equal(&tc.values[j])
							tc.values[j] = nv
						case "change-key":
							j := rapid.IntRange(0, n-1).Draw(rt, "idx")
							tc.keys[j] = flipBit(tc.keys[j], rapid.IntRange(0, 250).Draw(rt, "kbit"))
							for x := 1; x < len(tc.keys); x++ {
								if tc.keys[x-1].Cmp(&tc.keys[x]) >= 0 {
									wellFormed = false
								}
							}
						case "drop-elem":
							j := rapid.IntRange(0, n-1).Draw(rt, "idx")
							switch {
							case j == 0:
								desc += "-first"
							case j == n-1:
								desc += "-last"
							default:
								desc += "-middle"
							}
							tc.keys = append(tc.keys[:j], tc.keys[j+1:]...)
							tc.values = append(tc.values[:j], tc.values[j+1:]...)
						case "duplicate":
							if stats.Known(kfRangeDuplicateKey) {
								c.Excluded(kfRangeDuplicateKey)
								changed = false
								break
							}
							j := rapid.IntRange(0, n-1).Draw(rt, "idx")
							// the earlier copy carries a different value
							tc.keys = append(tc.keys[:j], append([]felt.Felt{tc.keys[j]}, tc.keys[j:]...)...)
							tc.values = append(tc.values[:j], append([]felt.Felt{gen.F(0xbad)}, tc.values[j:]...)...)
							wellFormed = false
						case "swap":
							a := rapid.IntRange(0, n-2).Draw(rt, "idx")
							b := rapid.IntRange(a+1, n-1).Draw(rt, "idx2")
							if rapid.Bool().Draw(rt, "swapValuesOnly") {
								changed = !tc.values[a].Equal(&tc.values[b])
								tc.values[a], tc.values[b] = tc.values[b], tc.values[a]
								desc += "-values"
							} else {
								tc.keys[a], tc.keys[b] = tc.keys[b], tc.keys[a]
								tc.values[a], tc.values[b] = tc.values[b], tc.values[a]
								wellFormed = false
							}
						case "nil-proof":
							tc.nilProof = true
							changed = len(tc.keys) != len(entries)
						case "forge-value+leaf":
							// claim another value for one returned key and patch every proof node field holding the old value
							j := rapid.IntRange(0, n-1).Draw(rt, "idx")
							old := tc.values[j]
							nv := gen.NonZeroFelt().Draw(rt, "forgedVal")
							if nv.Equal(&old) {
								nv = gen.F(0xbad)
							}
							tc.values[j] = nv
							patched := 0
							for x := range tc.nodes {
								nd := &tc.nodes[x]
								if nd.binary {
									if nd.left.Equal(&old) {
										nd.left, patched = nv, patched+1
									}
									if nd.right.Equal(&old) {
										nd.right, patched = nv, patched+1
									}
								} else if nd.child.Equal(&old) {
									nd.child, patched = nv, patched+1
								}
								if patched > 0 && (!isT2 || stats.Known(kfTrie2CachedHash)) {
									nd.cached = nil
								}
							}
							contentChanged = patched > 0
							desc += fmt.Sprintf("(%d leaf fields patched)", patched)
						}
						if !changed {
							c.Label("rtamper-noop")
							continue
						}
						// known finding (maintainer TODO in core/trie/proof.go and its generalisation): false lists are accepted
						if !isT2 && !tc.nilProof && stats.Known(kfLegacyRangeGap) && listIsFalse(model, entries, tc) {
							c.Excluded(kfLegacyRangeGap)
							continue
						}
						// known finding (the maintainer TODO, trie2 flavour): the leaf AT `first` survives unsetInternal when it is a child of
						// a depth-250 binary node, so a list that leaves out `first` itself is accepted
						if isT2 && !tc.nilProof && len(tc.keys) > 0 && stats.Known(kfTrie2RangeFirstLeaf) {
							_, firstIsLeaf := model[tc.first]
							_, sibIsLeaf := model[flipBit(tc.first, 0)]
							listed := false
							for _, k := range tc.keys {
								listed = listed || k.Equal(&tc.first)
							}
							if firstIsLeaf && sibIsLeaf && !listed {
								c.Excluded(kfTrie2RangeFirstLeaf)
								continue
							}
						}
						// known finding: core/trie treats a proof node that is missing from the set as "key absent" instead of rejecting
						// the proof, so an edge proof may simply be left out and whole sub-tries are then taken on trust
						if !isT2 && !tc.nilProof && stats.Known(kfLegacyRangeMissingNode) && edgeProofIncomplete(tc) {
							c.Excluded(kfLegacyRangeMissingNode)
							continue
						}
						// known finding: the single-element and empty-range paths never hash the proof nodes they walk
						hashless := !tc.nilProof && (len(tc.keys) == 0 || (len(tc.keys) == 1 && tc.first.Equal(&tc.keys[0])))
						if hashless && contentChanged && stats.Known(kfRangeNoHash) {
							c.Excluded(kfRangeNoHash)
							continue
						}
						c.Fp("t %s", desc)
						c.Label("rtamper:" + kind)
						if wellFormed && len(entries) >= 3 {
							c.NonTrivial("well-formed-corruption")
						}
						var tmore bool
						var terr error
						if msg, p := guarded(func() {
							tmore, terr = im.verifyRange(&tc.root, &tc.first, ptrs(tc.keys), ptrs(tc.values), tc.nodes, tc.nilProof)
						}); p {
							c.Violation("verify-range-panic", "%s VerifyRangeProof panicked on a corrupted range [%s]: %s\nhonest  %v\ncorrupt %v\nmodel %s", im.name(), desc, msg, hc, tc, renderKV(model))
						}
						if terr != nil {
							c.Label("rtamper-rejected")
							continue
						}
						if why := claimHolds(model, root, tc, tmore, ignoreMore); why != "" {
							c.Violation("forged-range-accepted", "%s VerifyRangeProof accepted a corrupted range [%s] (hasMore=%v): %s\nhonest  %v\ncorrupt %v\nmodel %s",
								im.name(), desc, tmore, why, hc, tc, renderKV(model))
						}
						c.Label("rtamper-accepted-consistent")
					}
				}
			}
			c.Sample(func() any { return map[string]any{"model": renderKV(model), "pool": poolKind, "trie2mode": ti.mode} })
		})
}

func ptrF(f felt.Felt) *felt.Felt { return &f }
