package c10

import (
	"encoding/json"
	"fmt"
	"testing"

	"github.com/NethermindEth/juno/blockchain/networks"
	"github.com/NethermindEth/juno/core"
	"github.com/NethermindEth/juno/core/felt"

	"verif/harness/internal/gen"
	"verif/harness/internal/node"
	"verif/harness/internal/ref"
	"verif/harness/internal/stats"
)

// Deterministic witnesses of the findings listed in FINDINGS.md. Each reports whether the defect still
// reproduces on the tree under test (stats.KnownFindingWitness => the driver's KNOWN-FINDING line).

func kv(pairs ...uint64) (map[felt.Felt]felt.Felt, []felt.Felt) {
	m := map[felt.Felt]felt.Felt{}
	var order []felt.Felt
	for i := 0; i+1 < len(pairs); i += 2 {
		m[gen.F(pairs[i])] = gen.F(pairs[i+1])
		order = append(order, gen.F(pairs[i]))
	}
	return m, order
}

func fl(vs ...uint64) []felt.Felt {
	out := make([]felt.Felt, len(vs))
	for i, v := range vs {
		out[i] = gen.F(v)
	}
	return out
}

var top = flipBit(felt.Zero, 250) // 2^250: the other half of the key space

type rangeOutcome struct {
	more     bool
	err      error
	panicked string
}

func (o rangeOutcome) String() string {
	return fmt.Sprintf("hasMore=%v err=%v panic=%q", o.more, o.err, o.panicked)
}

func runRange(im impl, root, first felt.Felt, keys, values []felt.Felt, ns []pnode) rangeOutcome {
	var o rangeOutcome
	msg, p := guarded(func() { o.more, o.err = im.verifyRange(&root, &first, ptrs(keys), ptrs(values), ns, false) })
	if p {
		o.panicked = msg
	}
	return o
}

func mustProof(im impl, a, b felt.Felt) []pnode {
	ns, err := im.rangeProof(&a, &b)
	if err != nil {
		stats.HarnessError("witness: GetRangeProof: %v", err)
	}
	return ns
}

func TestKnownTrie2VerifyProofTrustsCachedHash(t *testing.T) {
	model, order := kv(0, 7)
	root := ref.MPT(251, ref.Pedersen, model)
	ti := newTrie2(251, false, model, order, "hashed")
	k := gen.F(0)
	ns, err := ti.prove(&k)
	if err != nil || len(ns) != 1 {
		stats.HarnessError("witness: prove: %v %v", err, ns)
	}
	ns[0].child = gen.F(6) // the claimed value; the node keeps the hash cache Prove copied from the trie
	v, verr := ti.verify(&root, &k, ns)
	reproduced := verr == nil && v.Equal(ptrF(gen.F(6)))
	t.Logf("trie2 {0:7}: Prove(0), child value 7 -> 6 inside the returned node object: VerifyProof = %s, %v (cached hash present: %v)", v.String(), verr, ns[0].cached != nil)
	stats.KnownFindingWitness(t, kfTrie2CachedHash, reproduced)
}

func TestKnownTrie2VerifyProofValueNodeAtAnyDepth(t *testing.T) {
	model, order := kv(0, 7, 1, 7)
	root := ref.MPT(251, ref.Pedersen, model)
	ti := newTrie2(251, false, model, order, "fresh")
	k := gen.F(0)
	ns, err := ti.prove(&k)
	if err != nil || len(ns) != 2 || ns[0].binary {
		stats.HarnessError("witness: prove: %v %v", err, ns)
	}
	ns[0].childIsValue = true // root edge (250 bits): its child, an internal hash, presented as a ValueNode
	ns[0].cached = nil
	v, verr := ti.verify(&root, &k, ns)
	reproduced := verr == nil && v.Equal(&ns[0].child)
	t.Logf("trie2 {0:7,1:7}: root edge child turned from HashNode into ValueNode (same hash): VerifyProof(0) = %s, %v after 250 of 251 key bits", v.String(), verr)
	stats.KnownFindingWitness(t, kfTrie2ValueNode, reproduced)
}

func TestKnownRangeProofSingleElementNoHashCheck(t *testing.T) {
	model, order := kv(0, 7)
	root := ref.MPT(251, ref.Pedersen, model)
	rep := 0
	for _, im := range []impl{newLegacy(251, false, model, order, false), newTrie2(251, false, model, order, "fresh")} {
		ns := mustProof(im, gen.F(0), gen.F(0))
		ns[0].child = gen.F(0xbad)
		ns[0].cached = nil
		o := runRange(im, root, gen.F(0), fl(0), fl(0xbad), ns)
		t.Logf("%s {0:7}: single-element range [0]=0xbad with the proof leaf patched to 0xbad (node still filed under the root hash): %v", im.name(), o)
		if o.err == nil && o.panicked == "" {
			rep++
		}
	}
	stats.KnownFindingWitness(t, kfRangeNoHash, rep > 0)
}

func TestKnownLegacyRangeProofTrustsInRangeHashes(t *testing.T) {
	// the maintainer TODO: sibling leaves 0 and 1; range [0,1] answered with key 1 only
	model, order := kv(0, 7, 1, 8, 2, 9, 0x1234, 10)
	root := ref.MPT(251, ref.Pedersen, model)
	li := newLegacy(251, false, model, order, false)
	ns := mustProof(li, gen.F(0), gen.F(1))
	o1 := runRange(li, root, gen.F(0), fl(1), fl(8), ns)
	t.Logf("core/trie {0:7,1:8,2:9,0x1234:10}: range first=0 keys=[1] (leaf 0 omitted): %v", o1)
	// generalisation: a wrong VALUE for a middle key hanging off the first key's path
	m2 := map[felt.Felt]felt.Felt{gen.F(1): gen.F(11), flipBit(gen.F(1), 247): gen.F(12), flipBit(gen.F(1), 248): gen.F(13), big2felt(maxKey251): gen.F(3)}
	o2ord := sortedKeys(m2)
	root2 := ref.MPT(251, ref.Pedersen, m2)
	l2 := newLegacy(251, false, m2, o2ord, false)
	ns2 := mustProof(l2, gen.F(0), o2ord[2])
	o2 := runRange(l2, root2, gen.F(0), o2ord[:3], fl(11, 0xffff, 13), ns2)
	t.Logf("core/trie {1:11, 1+2^247:12, 1+2^248:13, max:3}: range first=0 with the middle value 12 -> 0xffff: %v", o2)
	stats.KnownFindingWitness(t, kfLegacyRangeGap, (o1.err == nil && o1.panicked == "") || (o2.err == nil && o2.panicked == ""))
}

func TestKnownLegacyRangeProofMissingNodeIsAbsence(t *testing.T) {
	model, order := kv(0, 7, 1, 7, 0x100, 7)
	root := ref.MPT(251, ref.Pedersen, model)
	li := newLegacy(251, false, model, order, false)
	ns := mustProof(li, gen.F(0x100), gen.F(0x100)) // only the path of 0x100; nothing proves the left edge 0
	o := runRange(li, root, gen.F(0), fl(0x100), fl(7), ns)
	t.Logf("core/trie {0,1,0x100}: range first=0 keys=[0x100] with the edge proof of 0 left out: %v", o)
	// fabrication: a leaf that does not exist, under a sub-trie whose proof node is missing
	m2 := map[felt.Felt]felt.Felt{gen.F(0): gen.F(7), gen.F(1): gen.F(7), top: gen.F(7), flipBit(top, 1): gen.F(7)}
	root2 := ref.MPT(251, ref.Pedersen, m2)
	l2 := newLegacy(251, false, m2, sortedKeys(m2), false)
	ns2 := mustProof(l2, gen.F(0), gen.F(0))
	fake := flipBit(top, 0)
	o2 := runRange(l2, root2, gen.F(0), []felt.Felt{fake}, fl(7), ns2)
	t.Logf("core/trie {0,1,2^250,2^250+2}: range first=0 keys=[2^250+1 (not a leaf)] with only the path of 0 in the proof: %v", o2)
	stats.KnownFindingWitness(t, kfLegacyRangeMissingNode, (o.err == nil && o.panicked == "") || (o2.err == nil && o2.panicked == ""))
}

func TestKnownTrie2RangeProofOmittedFirstLeaf(t *testing.T) {
	model, order := kv(0, 7, 1, 8)
	root := ref.MPT(251, ref.Pedersen, model)
	ti := newTrie2(251, false, model, order, "fresh")
	ns := mustProof(ti, gen.F(0), gen.F(1))
	o := runRange(ti, root, gen.F(0), fl(1), fl(8), ns)
	t.Logf("core/trie2 {0:7,1:8}: range first=0 keys=[1] (leaf 0 = first omitted): %v", o)
	stats.KnownFindingWitness(t, kfTrie2RangeFirstLeaf, o.err == nil && o.panicked == "")
}

func TestKnownLegacyHasRightElement(t *testing.T) {
	// (a) root is a binary node at depth 0: hasMore is always false
	m1 := map[felt.Felt]felt.Felt{gen.F(0): gen.F(7), gen.F(0x100): gen.F(8), top: gen.F(9)}
	root1 := ref.MPT(251, ref.Pedersen, m1)
	l1 := newLegacy(251, false, m1, sortedKeys(m1), false)
	o1 := runRange(l1, root1, gen.F(0), fl(0), fl(7), mustProof(l1, gen.F(0), gen.F(0)))
	t.Logf("core/trie {0,0x100,2^250}: honest single-element range [0]: %v (leaves beyond 0 exist)", o1)
	// (b) first leaves the trie inside an edge, to the right of everything: honest empty range rejected
	m2, ord2 := kv(0, 7, 1, 7, 3, 7)
	root2 := ref.MPT(251, ref.Pedersen, m2)
	l2 := newLegacy(251, false, m2, ord2, false)
	o2 := runRange(l2, root2, gen.F(4), nil, nil, mustProof(l2, gen.F(4), gen.F(4)))
	t.Logf("core/trie {0,1,3}: honest empty range from first=4 (beyond the last leaf): %v", o2)
	stats.KnownFindingWitness(t, kfLegacyHasMore, (o1.err == nil && !o1.more) || o2.err != nil)
}

func TestKnownRangeProofDuplicateKeys(t *testing.T) {
	model, order := kv(0, 7)
	root := ref.MPT(251, ref.Pedersen, model)
	rep := 0
	for _, im := range []impl{newLegacy(251, false, model, order, false), newTrie2(251, false, model, order, "fresh")} {
		var o rangeOutcome
		msg, p := guarded(func() {
			o.more, o.err = im.verifyRange(&root, ptrF(gen.F(0)), ptrs(fl(0, 0)), ptrs(fl(0xbad, 7)), nil, true)
		})
		o.panicked = msg
		t.Logf("%s {0:7}: whole-trie range (no proof) keys=[0,0] values=[0xbad,7]: %v", im.name(), o)
		if !p && o.err == nil {
			rep++
		}
	}
	stats.KnownFindingWitness(t, kfRangeDuplicateKey, rep > 0)
}

func TestKnownTrie2RangeProofPanicsOnMisplacedValueNode(t *testing.T) {
	m := map[felt.Felt]felt.Felt{gen.F(0): gen.F(7), gen.F(1): gen.F(8), gen.F(2): gen.F(9), gen.F(3): gen.F(10), top: gen.F(11)}
	root := ref.MPT(251, ref.Pedersen, m)
	ti := newTrie2(251, false, m, sortedKeys(m), "fresh")
	ns := mustProof(ti, gen.F(0), gen.F(1))
	for i := range ns {
		if !ns[i].binary && ns[i].plen > 8 {
			ns[i].plen-- // one corrupted field: an edge one bit shorter puts the leaf-level nodes one level up
			ns[i].cached = nil
		}
	}
	o := runRange(ti, root, gen.F(0), fl(0, 1), fl(7, 8), ns)
	t.Logf("core/trie2 {0,1,2,3,2^250}: range [0,1] with the 248-bit edge shortened to 247 bits: %v", o)
	stats.KnownFindingWitness(t, kfTrie2RangePanic, o.panicked != "")
}

func TestKnownTrie2RangeProofIdenticalSubtries(t *testing.T) {
	// leaves 0x80 and 0x82 under one stem, equal values: the two single-leaf sub-tries below the
	// branching bit hash identically and are one object in the proof node set
	m := map[felt.Felt]felt.Felt{gen.F(0): gen.F(7), top: gen.F(7), flipBit(top, 7): gen.F(7), flipBit(flipBit(top, 7), 1): gen.F(7)}
	root := ref.MPT(251, ref.Pedersen, m)
	ti := newTrie2(251, false, m, sortedKeys(m), "fresh")
	a, b := flipBit(top, 7), flipBit(flipBit(top, 7), 1)
	o := runRange(ti, root, a, []felt.Felt{a, b}, fl(7, 7), mustProof(ti, a, b))
	t.Logf("core/trie2 {0, 2^250, 2^250+0x80, 2^250+0x82 all = 7}: HONEST range [2^250+0x80, 2^250+0x82]: %v", o)
	stats.KnownFindingWitness(t, kfTrie2RangeSharedNode, o.panicked != "" || o.err != nil)
}

// witnessBlock: block 0 writing one slot of each of the two system contracts (no classes needed).
func witnessBlock() *gen.Block {
	d := core.EmptyStateDiff()
	d.StorageDiffs[gen.F(1)] = map[felt.Felt]*felt.Felt{gen.F(10): gen.FP(111)}
	d.StorageDiffs[gen.F(2)] = map[felt.Felt]*felt.Felt{gen.F(20): gen.FP(222)}
	pre := ref.NewState()
	post := pre.Clone()
	if err := post.Apply(0, "0.14.0", &d, nil, func(felt.Felt) felt.Felt { return felt.Zero }); err != nil {
		stats.HarnessError("witness: apply: %v", err)
	}
	h := &core.Header{
		ParentHash: &felt.Zero, Number: 0, SequencerAddress: gen.FP(0x5e9), Timestamp: 1_700_000_000, ProtocolVersion: "0.14.0",
		EventsBloom: core.EventsBloom(nil), L1GasPriceETH: gen.FP(1), L1GasPriceSTRK: gen.FP(1),
		L1DataGasPrice: &core.GasPrice{PriceInWei: gen.FP(1), PriceInFri: gen.FP(1)},
		L2GasPrice:     &core.GasPrice{PriceInWei: gen.FP(1), PriceInFri: gen.FP(1)},
	}
	b := &gen.Block{
		B:       &core.Block{Header: h, Transactions: []core.Transaction{}, Receipts: []*core.TransactionReceipt{}},
		SU:      &core.StateUpdate{StateDiff: &d},
		Classes: map[felt.Felt]core.ClassDefinition{}, Pre: pre, Post: post, Tags: map[string]bool{},
	}
	gen.Seal(b, &networks.Sepolia)
	return b
}

func TestKnownRPCStorageProofOrder(t *testing.T) {
	// two contracts with different storage; the same request 300 times (a 2-entry Go map is iterated in swapped order with probability 1/8): the order of contracts_storage_proofs
	// follows Go map iteration
	b := witnessBlock()
	n := node.New(false, nil, &networks.Sepolia)
	defer n.DB.Close()
	if err := n.Store(b); err != nil {
		stats.HarnessError("witness: store: %v", err)
	}
	ep := newEndpoints(n)[0]
	req := proofRequest{blockID: "latest", storage: []storageReq{{Contract: gen.F(1), Keys: fl(10)}, {Contract: gen.F(2), Keys: fl(20)}}}
	permuted, total := 0, 300
	for i := 0; i < total; i++ {
		resp, bad := ep.call("starknet_getStorageProof", req.params(false))
		if bad != "" || resp.Error != nil {
			stats.HarnessError("witness: getStorageProof: %s %v", bad, resp.Error)
		}
		var pr specProof
		if err := json.Unmarshal(resp.Result, &pr); err != nil || len(pr.ContractsStorageProofs) != len(req.storage) {
			stats.HarnessError("witness: result: %v", err)
		}
		for j, s := range req.storage {
			nm, err := decodeMapping(pr.ContractsStorageProofs[j])
			if err != nil {
				stats.HarnessError("witness: mapping: %v", err)
			}
			if verifyStorageKeys(b.Post, s.Contract, s.Keys, nm) != "" {
				permuted++
				break
			}
		}
	}
	t.Logf("legacy node, block 0 = {0x1: slot 10, 0x2: slot 20}; %d identical starknet_getStorageProof requests contracts_storage_keys=[0x1/10, 0x2/20]: in %d responses contracts_storage_proofs[i] does not prove the i-th requested contract", total, permuted)
	stats.KnownFindingWitness(t, kfRPCStorageOrder, permuted > 0)
}
