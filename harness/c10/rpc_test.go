package c10

import (
	"context"
	"encoding/json"
	"fmt"
	"math/big"
	"strings"
	"testing"

	"github.com/Masterminds/semver/v3"
	"github.com/NethermindEth/juno/core"
	"github.com/NethermindEth/juno/core/crypto"
	"github.com/NethermindEth/juno/core/felt"
	"github.com/NethermindEth/juno/jsonrpc"
	"github.com/NethermindEth/juno/rpc"
	rpcv10 "github.com/NethermindEth/juno/rpc/v10"
	rpcv9 "github.com/NethermindEth/juno/rpc/v9"
	"github.com/NethermindEth/juno/sync"
	"github.com/NethermindEth/juno/utils/log"
	"pgregory.net/rapid"

	"verif/harness/internal/gen"
	"verif/harness/internal/node"
	"verif/harness/internal/ref"
	"verif/harness/internal/stats"
)

// ---------------------------------------------------------------------------------------------
// the real JSON-RPC stack over a harness node (reusable recipe, see the C10 report):
//
//	h := rpc.New(n.BC /* blockchain.Reader */, &sync.NoopSynchronizer{} /* sync.Reader */, nil /* vm.VM: never executed */,
//	             "verif", log.NewNopZapLogger(), net)
//	methods, path := h.MethodsV0_10()            // or MethodsV0_9()
//	srv := jsonrpc.NewServer(1, logger).WithValidator(rpcv10.Validator())   // what node.New does
//	srv.RegisterMethods(methods...)
//	out, _, err := srv.HandleReader(ctx, strings.NewReader(requestJSON))

type rpcEndpoint struct {
	version string
	srv     *jsonrpc.Server
}

func newEndpoints(n *node.Node) []rpcEndpoint {
	logger := log.NewNopZapLogger()
	h := rpc.New(n.BC, &sync.NoopSynchronizer{}, nil, "verif", logger, n.Net)
	mk := func(version string, methods []jsonrpc.Method, v jsonrpc.Validator) rpcEndpoint {
		srv := jsonrpc.NewServer(1, logger).WithValidator(v)
		if err := srv.RegisterMethods(methods...); err != nil {
			stats.HarnessError("RegisterMethods %s: %v", version, err)
		}
		return rpcEndpoint{version: version, srv: srv}
	}
	m10, _ := h.MethodsV0_10()
	m9, _ := h.MethodsV0_9()
	return []rpcEndpoint{mk("v0_10", m10, rpcv10.Validator()), mk("v0_9", m9, rpcv9.Validator())}
}

type rpcResponse struct {
	Result json.RawMessage `json:"result"`
	Error  *struct {
		Code    int             `json:"code"`
		Message string          `json:"message"`
		Data    json.RawMessage `json:"data"`
	} `json:"error"`
}

func (e rpcEndpoint) call(method string, params any) (rpcResponse, string) {
	pb, err := json.Marshal(params)
	if err != nil {
		stats.HarnessError("marshal params: %v", err)
	}
	req := fmt.Sprintf(`{"jsonrpc":"2.0","id":1,"method":%q,"params":%s}`, method, pb)
	var out []byte
	if msg, p := guarded(func() { out, _, err = e.srv.HandleReader(context.Background(), strings.NewReader(req)) }); p {
		return rpcResponse{}, "PANIC: " + msg + " on " + req
	}
	if err != nil {
		return rpcResponse{}, fmt.Sprintf("transport error %v on %s", err, req)
	}
	var r rpcResponse
	if err := json.Unmarshal(out, &r); err != nil {
		return rpcResponse{}, fmt.Sprintf("unparsable response %q to %s", out, req)
	}
	return r, ""
}

// ---------------------------------------------------------------------------------------------
// response shapes, taken from the RPC specification (starknet_getStorageProof result, NODE_HASH_TO_NODE_MAPPING,
// MERKLE_NODE = BINARY_NODE{left,right} | EDGE_NODE{path,length,child})

type specNode struct {
	Left   *string `json:"left"`
	Right  *string `json:"right"`
	Path   *string `json:"path"`
	Length *int    `json:"length"`
	Child  *string `json:"child"`
}

type specMapping []struct {
	NodeHash string   `json:"node_hash"`
	Node     specNode `json:"node"`
}

type specLeaf struct {
	Nonce       *string `json:"nonce"`
	ClassHash   *string `json:"class_hash"`
	StorageRoot *string `json:"storage_root"`
}

type specProof struct {
	ClassesProof   specMapping `json:"classes_proof"`
	ContractsProof *struct {
		Nodes      specMapping `json:"nodes"`
		LeavesData []*specLeaf `json:"contract_leaves_data"`
	} `json:"contracts_proof"`
	ContractsStorageProofs []specMapping `json:"contracts_storage_proofs"`
	GlobalRoots            *struct {
		ContractsTreeRoot string `json:"contracts_tree_root"`
		ClassesTreeRoot   string `json:"classes_tree_root"`
		BlockHash         string `json:"block_hash"`
	} `json:"global_roots"`
}

func parseFelt(s string) (felt.Felt, error) {
	if !strings.HasPrefix(s, "0x") {
		return felt.Zero, fmt.Errorf("felt %q is not 0x-prefixed hex", s)
	}
	f, err := new(felt.Felt).SetString(s)
	if err != nil {
		return felt.Zero, err
	}
	return *f, nil
}

// decodeMapping turns a NODE_HASH_TO_NODE_MAPPING into the walker's node map.
func decodeMapping(m specMapping) (map[felt.Felt]pnode, error) {
	out := map[felt.Felt]pnode{}
	for i, e := range m {
		k, err := parseFelt(e.NodeHash)
		if err != nil {
			return nil, fmt.Errorf("entry %d node_hash: %v", i, err)
		}
		var n pnode
		n.key = k
		switch {
		case e.Node.Left != nil && e.Node.Right != nil && e.Node.Path == nil && e.Node.Child == nil:
			n.binary = true
			if n.left, err = parseFelt(*e.Node.Left); err != nil {
				return nil, err
			}
			if n.right, err = parseFelt(*e.Node.Right); err != nil {
				return nil, err
			}
		case e.Node.Path != nil && e.Node.Length != nil && e.Node.Child != nil && e.Node.Left == nil && e.Node.Right == nil:
			p, err := parseFelt(*e.Node.Path)
			if err != nil {
				return nil, err
			}
			n.path, n.plen = felt2big(&p), *e.Node.Length
			if n.child, err = parseFelt(*e.Node.Child); err != nil {
				return nil, err
			}
		default:
			return nil, fmt.Errorf("entry %d is neither a BINARY_NODE nor an EDGE_NODE", i)
		}
		if prev, dup := out[k]; dup && prev.String() != n.String() {
			return nil, fmt.Errorf("node_hash %s mapped to two different nodes", e.NodeHash)
		}
		out[k] = n
	}
	return out, nil
}

var (
	classLeafVersion = new(felt.Felt).SetBytes([]byte("CONTRACT_CLASS_LEAF_V0"))
	stateVersion     = new(felt.Felt).SetBytes([]byte("STARKNET_STATE_V0"))
	v0140            = semver.MustParse("0.14.0")
)

// stateCommitment combines the two global roots the way the protocol does for a block of the given version.
func stateCommitment(contractsRoot, classesRoot felt.Felt, version string) felt.Felt {
	if contractsRoot.IsZero() && classesRoot.IsZero() {
		return felt.Zero
	}
	if classesRoot.IsZero() {
		if v, err := semver.NewVersion(version); err == nil && v.LessThan(v0140) {
			return contractsRoot
		}
	}
	return crypto.PoseidonElems(stateVersion, &contractsRoot, &classesRoot)
}

// ---------------------------------------------------------------------------------------------

type storageReq struct {
	Contract felt.Felt
	Keys     []felt.Felt
}

type proofRequest struct {
	blockID   any
	classes   []felt.Felt
	contracts []felt.Felt
	storage   []storageReq
}

func hexes(fs []felt.Felt) []string {
	out := make([]string, len(fs))
	for i := range fs {
		out[i] = fs[i].String()
	}
	return out
}

func (r proofRequest) params(positional bool) any {
	sk := make([]map[string]any, len(r.storage))
	for i, s := range r.storage {
		sk[i] = map[string]any{"contract_address": s.Contract.String(), "storage_keys": hexes(s.Keys)}
	}
	if positional {
		return []any{r.blockID, hexes(r.classes), hexes(r.contracts), sk}
	}
	p := map[string]any{"block_id": r.blockID}
	if len(r.classes) > 0 {
		p["class_hashes"] = hexes(r.classes)
	}
	if len(r.contracts) > 0 {
		p["contract_addresses"] = hexes(r.contracts)
	}
	if len(sk) > 0 {
		p["contracts_storage_keys"] = sk
	}
	return p
}

// subset draws up to max DISTINCT elements of pool (requests never repeat an identifier: juno de-duplicates
// its inputs, which would make "the i-th entry" ambiguous).
func subset(rt *rapid.T, pool []felt.Felt, max int, label string) []felt.Felt {
	seen := map[felt.Felt]bool{}
	var uniq []felt.Felt
	for _, f := range pool {
		if !seen[f] {
			seen[f] = true
			uniq = append(uniq, f)
		}
	}
	pool = uniq
	n := rapid.IntRange(0, min(max, len(pool))).Draw(rt, label+"-n")
	perm := rapid.Permutation(pool).Draw(rt, label+"-perm")
	return append([]felt.Felt{}, perm[:n]...)
}

// verifyStorageKeys checks one contracts_storage_proofs entry for contract a.
func verifyStorageKeys(st *ref.State, a felt.Felt, keys []felt.Felt, nodes map[felt.Felt]pnode) string {
	storage := map[felt.Felt]felt.Felt{}
	if ct, ok := st.Contracts[a]; ok {
		storage = ct.Storage
	}
	sroot := ref.MPT(251, ref.Pedersen, storage)
	for _, k := range keys {
		wr, err := walk(sroot, felt2big(&k), 251, nodes, ref.Pedersen)
		if err != nil {
			return fmt.Sprintf("contract %s slot %s: walking from the storage root %s: %v", a.ShortString(), k.String(), sroot.String(), err)
		}
		want := storage[k]
		if !wr.value.Equal(&want) || wr.absent != want.IsZero() {
			return fmt.Sprintf("contract %s slot %s: proof establishes %s (absent=%v), the state holds %s", a.ShortString(), k.String(), wr.value.String(), wr.absent, want.String())
		}
	}
	return ""
}

func permutations(n int) [][]int {
	if n == 0 {
		return [][]int{{}}
	}
	var out [][]int
	for _, p := range permutations(n - 1) {
		for i := 0; i <= len(p); i++ {
			q := append(append(append([]int{}, p[:i]...), n-1), p[i:]...)
			out = append(out, q)
		}
	}
	return out
}

func TestPropRPCStorageProof(t *testing.T) {
	stats.Check(t, stats.Budget{Quick: 250, Thorough: 2500},
		"generated chains (1-6 blocks, internal/gen) stored on a legacy and a trie2 node; after drawn blocks starknet_getStorageProof is sent as JSON text through jsonrpc.Server+rpc.Handler (v0_9 and v0_10; named or positional params; block_id latest / head number / head hash / older block) with class_hashes, contract_addresses and contracts_storage_keys drawn from the universe plus absent ones; every returned proof is walked by a verifier written from the RPC spec down to the reference model's value or to an established absence; global_roots must combine to the new_root of starknet_getBlockWithTxHashes; i-th storage proof <-> i-th requested contract; non-trivial = request with >= 2 contracts with storage keys of which >= 2 have different non-empty storage",
		func(rt *rapid.T, c *stats.Case) {
			u := gen.NewUniverse(rt)
			ch := gen.NewChain(u, gen.Opts{MaxTxs: 2, MinVersionIdx: rapid.IntRange(0, 3).Draw(rt, "minver")})
			nodes := []*node.Node{node.New(false, nil, u.Net), node.New(true, nil, u.Net)}
			eps := [][]rpcEndpoint{newEndpoints(nodes[0]), newEndpoints(nodes[1])}
			defer func() {
				for _, n := range nodes {
					n.DB.Close()
				}
			}()
			nblocks := rapid.IntRange(1, 6).Draw(rt, "nblocks")
			extraKeys := []felt.Felt{gen.F(0xdead0001), gen.F(0)}
			var sierra, otherClasses []felt.Felt
			for _, s := range u.Sierra {
				sierra = append(sierra, s.Hash)
			}
			for _, s := range u.Cairo0 {
				otherClasses = append(otherClasses, s.Hash)
			}
			otherClasses = append(otherClasses, gen.F(0xc1a55), gen.F(0))
			queries := 0
			// In half of the cases one more block, built here, follows the generated ones: it writes the SAME values to 2 or 4
			// adjacent slots at two places of one contract's storage (two identical sub-tries under different edges), and the
			// request then asks for several of those slots at once (one node set per contract on the server side).
			withNb := rapid.Bool().Draw(rt, "neighbourhoodBlock")
			nbSlots := map[felt.Felt][]felt.Felt{}
			total := nblocks
			if withNb {
				total++
			}
			for bi := 0; bi < total; bi++ {
				var b *gen.Block
				if bi < nblocks {
					b = ch.Next(rt)
				} else {
					var a felt.Felt
					var slots []felt.Felt
					b, a, slots = neighbourhoodBlock(rt, u, ch)
					ch.Blocks = append(ch.Blocks, b)
					nbSlots[a] = slots
					c.Label("neighbourhood-block")
					if _, diff := dupSubtries(251, b.Post.Contracts[a].Storage); diff {
						c.Label("duplicate-subtrie-under-different-edges")
					}
				}
				c.Fp("block %d %s", bi, gen.DiffString(b.SU.StateDiff))
				for _, n := range nodes {
					if err := n.Store(b); err != nil {
						c.Violation("valid-block-rejected", "%s rejected valid block %d: %v", n.Backend(), b.Num(), err)
					}
				}
				if bi < total-1 && rapid.IntRange(0, 2).Draw(rt, "queryHere") != 0 {
					continue
				}
				st := b.Post
				nq := rapid.IntRange(1, 2).Draw(rt, "nqueries")
				for qi := 0; qi < nq; qi++ {
					queries++
					// ---- request
					var req proofRequest
					idKind := rapid.SampledFrom([]string{"latest", "latest", "number", "hash", "older"}).Draw(rt, "blockid")
					if idKind == "older" && bi == 0 {
						idKind = "latest"
					}
					switch idKind {
					case "latest":
						req.blockID = "latest"
					case "number":
						req.blockID = map[string]any{"block_number": b.Num()}
					case "hash":
						req.blockID = map[string]any{"block_hash": b.B.Hash.String()}
					case "older":
						req.blockID = map[string]any{"block_number": uint64(rapid.IntRange(0, bi-1).Draw(rt, "olderNum"))}
					}
					req.classes = subset(rt, append(append([]felt.Felt{}, sierra...), otherClasses...), 4, "classes")
					addrPool := append(u.AllAddrs(), gen.F(0xabcdef), flipBit(u.Addrs[0], rapid.IntRange(0, 250).Draw(rt, "addrflip")))
					req.contracts = subset(rt, addrPool, 4, "contracts")
					// contracts with storage keys: distinct, preferring contracts that exist
					var existing []felt.Felt
					for _, a := range u.AllAddrs() {
						if _, ok := st.Contracts[a]; ok {
							existing = append(existing, a)
						}
					}
					// (while the order finding is listed as known the order oracle below is replaced by "some bijection
					// verifies"; generation is unchanged)
					sc := subset(rt, existing, 3, "storageContracts")
					for a := range nbSlots { // at most one entry
						listed := false
						for _, x := range sc {
							listed = listed || x.Equal(&a)
						}
						if !listed && rapid.IntRange(0, 3).Draw(rt, "askNb") > 0 {
							sc = append(sc, a)
						}
					}
					for _, a := range sc {
						if slots, ok := nbSlots[a]; ok {
							// several slots of the copied neighbourhoods in one request (plus a few others)
							ks := rapid.Permutation(slots).Draw(rt, "nbSlotOrder")
							ks = ks[:rapid.IntRange(2, len(ks)).Draw(rt, "nbSlotCount")]
							for _, k := range subset(rt, append(append([]felt.Felt{}, u.Keys...), extraKeys...), 2, "nbOtherSlots") {
								dup := false
								for _, x := range ks {
									dup = dup || x.Equal(&k)
								}
								if !dup {
									ks = append(ks, k)
								}
							}
							req.storage = append(req.storage, storageReq{Contract: a, Keys: ks})
							c.Label("request-several-slots-of-copied-neighbourhoods")
							continue
						}
						keyPool := append(append([]felt.Felt{}, u.Keys...), extraKeys...)
						if ct := st.Contracts[a]; len(ct.Storage) > 0 {
							ks := sortedKeys(ct.Storage)
							keyPool = append(keyPool, flipBit(ks[0], rapid.IntRange(0, 250).Draw(rt, "slotflip")))
						}
						ks := subset(rt, keyPool, 4, "slots")
						if len(ks) == 0 {
							ks = []felt.Felt{keyPool[0]}
						}
						req.storage = append(req.storage, storageReq{Contract: a, Keys: ks})
					}
					positional := rapid.IntRange(0, 3).Draw(rt, "positional") == 0
					c.Fp("q %v cls %v ct %v st %v", req.blockID, hexes(req.classes), hexes(req.contracts), req.storage)
					c.Label("blockid-" + idKind)
					distinctRoots := map[felt.Felt]bool{}
					for _, s := range req.storage {
						if r := ref.MPT(251, ref.Pedersen, st.Contracts[s.Contract].Storage); !r.IsZero() {
							distinctRoots[r] = true
						}
					}
					if len(req.storage) >= 2 {
						c.Label("multi-contract-storage-request")
						if len(distinctRoots) >= 2 {
							c.NonTrivial("multi-contract-storage-proof")
						}
					}

					for ni, n := range nodes {
						for _, ep := range eps[ni] {
							where := fmt.Sprintf("%s %s block %d", n.Backend(), ep.version, b.Num())
							resp, bad := ep.call("starknet_getStorageProof", req.params(positional))
							if bad != "" {
								c.Violation("rpc-transport", "%s: %s", where, bad)
							}
							pj, _ := json.Marshal(req.params(positional))
							if idKind == "older" {
								if resp.Error == nil {
									c.Violation("proof-for-non-head-block", "%s: getStorageProof for an older block returned a result (proofs are built from the head state): %s", where, pj)
								}
								c.Label("older-block-rejected")
								continue
							}
							if resp.Error != nil {
								c.Violation("rpc-error", "%s: getStorageProof%s failed: %d %s %s", where, pj, resp.Error.Code, resp.Error.Message, resp.Error.Data)
							}
							var pr specProof
							dec := json.NewDecoder(strings.NewReader(string(resp.Result)))
							dec.DisallowUnknownFields()
							if err := dec.Decode(&pr); err != nil {
								c.Violation("rpc-shape", "%s: result does not have the specified shape: %v\n%s", where, err, resp.Result)
							}
							if pr.GlobalRoots == nil || pr.ContractsProof == nil {
								c.Violation("rpc-shape", "%s: global_roots / contracts_proof missing\n%s", where, resp.Result)
							}
							// ---- the block the proof is served for
							bresp, bad := ep.call("starknet_getBlockWithTxHashes", map[string]any{"block_id": req.blockID})
							if bad != "" || bresp.Error != nil {
								c.Violation("rpc-error", "%s: getBlockWithTxHashes failed: %s %v", where, bad, bresp.Error)
							}
							var blk struct {
								NewRoot string `json:"new_root"`
								Hash    string `json:"block_hash"`
								Version string `json:"starknet_version"`
								Number  uint64 `json:"block_number"`
							}
							if err := json.Unmarshal(bresp.Result, &blk); err != nil {
								c.Violation("rpc-shape", "%s: block: %v", where, err)
							}
							newRoot, err1 := parseFelt(blk.NewRoot)
							gHash, err2 := parseFelt(pr.GlobalRoots.BlockHash)
							croot, err3 := parseFelt(pr.GlobalRoots.ContractsTreeRoot)
							kroot, err4 := parseFelt(pr.GlobalRoots.ClassesTreeRoot)
							if err1 != nil || err2 != nil || err3 != nil || err4 != nil {
								c.Violation("rpc-shape", "%s: unparsable roots %v %v %v %v", where, err1, err2, err3, err4)
							}
							if blk.Number != b.Num() || blk.Hash != b.B.Hash.String() || !gHash.Equal(b.B.Hash) {
								c.Violation("proof-block-mismatch", "%s: proof global_roots.block_hash %s, block %d hash %s, generated head %d %s", where, gHash.String(), blk.Number, blk.Hash, b.Num(), b.B.Hash.String())
							}
							if sc := stateCommitment(croot, kroot, blk.Version); !sc.Equal(&newRoot) {
								c.Violation("global-roots-vs-new-root", "%s: global_roots (contracts %s, classes %s) combine to %s under v%s, block new_root is %s", where, croot.String(), kroot.String(), sc.String(), blk.Version, newRoot.String())
							}
							if !newRoot.Equal(b.B.GlobalStateRoot) {
								c.Violation("new-root-vs-model", "%s: new_root %s, reference %s", where, newRoot.String(), b.B.GlobalStateRoot.String())
							}
							// ---- classes
							cnodes, err := decodeMapping(pr.ClassesProof)
							if err != nil {
								c.Violation("rpc-shape", "%s: classes_proof: %v", where, err)
							}
							for _, h := range req.classes {
								wr, err := walk(kroot, felt2big(&h), 251, cnodes, ref.Poseidon)
								if err != nil {
									c.Violation("class-proof-incomplete", "%s: class %s: walking from classes_tree_root %s: %v\nrequest %s\nclasses_proof %s", where, h.String(), kroot.String(), err, pj, mustJSON(pr.ClassesProof))
								}
								var want felt.Felt
								if cl, ok := st.Classes[h]; ok && cl.Sierra {
									casm := cl.CurrentCasm()
									want = crypto.Poseidon(classLeafVersion, &casm)
									c.Label("class-present")
								} else {
									c.Label("class-absent")
								}
								if !wr.value.Equal(&want) || wr.absent != want.IsZero() {
									c.Violation("class-proof-value", "%s: class %s: proof establishes leaf %s (absent=%v), reference leaf %s", where, h.String(), wr.value.String(), wr.absent, want.String())
								}
							}
							// ---- contracts
							tnodes, err := decodeMapping(pr.ContractsProof.Nodes)
							if err != nil {
								c.Violation("rpc-shape", "%s: contracts_proof.nodes: %v", where, err)
							}
							if len(pr.ContractsProof.LeavesData) != len(req.contracts) {
								c.Violation("contract-leaves-count", "%s: %d contract_leaves_data entries for %d requested contracts\n%s", where, len(pr.ContractsProof.LeavesData), len(req.contracts), resp.Result)
							}
							for i, a := range req.contracts {
								wr, err := walk(croot, felt2big(&a), 251, tnodes, ref.Pedersen)
								if err != nil {
									c.Violation("contract-proof-incomplete", "%s: contract %s: walking from contracts_tree_root %s: %v\nrequest %s", where, a.String(), croot.String(), err, pj)
								}
								ct, exists := st.Contracts[a]
								ld := pr.ContractsProof.LeavesData[i]
								if !exists {
									c.Label("contract-absent")
									if !wr.absent {
										c.Violation("contract-proof-value", "%s: contract %s does not exist, proof leads to leaf %s", where, a.String(), wr.value.String())
									}
									if ld != nil && (ld.ClassHash != nil || ld.Nonce != nil) {
										c.Violation("contract-leaf-data", "%s: leaf data %s for non-existent contract %s", where, mustJSON(ld), a.String())
									}
									continue
								}
								c.Label("contract-present")
								if ct.System {
									c.Label("contract-system")
								}
								if ld == nil || ld.ClassHash == nil || ld.Nonce == nil {
									c.Violation("contract-leaf-data", "%s: contract_leaves_data[%d] for existing contract %s is %s (class_hash and nonce are required)\nrequest %s", where, i, a.String(), mustJSON(ld), pj)
								}
								lch, e1 := parseFelt(*ld.ClassHash)
								lno, e2 := parseFelt(*ld.Nonce)
								sroot := ref.MPT(251, ref.Pedersen, ct.Storage)
								lsr := sroot
								var e3 error
								if ld.StorageRoot != nil {
									lsr, e3 = parseFelt(*ld.StorageRoot)
								}
								if e1 != nil || e2 != nil || e3 != nil {
									c.Violation("rpc-shape", "%s: leaf data unparsable", where)
								}
								if !lch.Equal(&ct.ClassHash) || !lno.Equal(&ct.Nonce) || !lsr.Equal(&sroot) {
									c.Violation("contract-leaf-data", "%s: contract %s leaf data (class %s nonce %s storage_root %s) vs reference (class %s nonce %s storage_root %s); i=%d request %s",
										where, a.String(), lch.String(), lno.String(), lsr.String(), ct.ClassHash.String(), ct.Nonce.String(), sroot.String(), i, pj)
								}
								h1 := crypto.Pedersen(&lch, &lsr)
								h2 := crypto.Pedersen(&h1, &lno)
								leaf := crypto.Pedersen(&h2, &felt.Zero)
								if wr.absent || !wr.value.Equal(&leaf) {
									c.Violation("contract-proof-value", "%s: contract %s: proof leads to leaf %s (absent=%v), leaf from contract_leaves_data %s", where, a.String(), wr.value.String(), wr.absent, leaf.String())
								}
							}
							// ---- storage
							if len(pr.ContractsStorageProofs) != len(req.storage) {
								c.Violation("storage-proof-count", "%s: %d contracts_storage_proofs for %d requested contracts", where, len(pr.ContractsStorageProofs), len(req.storage))
							}
							smaps := make([]map[felt.Felt]pnode, len(req.storage))
							for i := range req.storage {
								if smaps[i], err = decodeMapping(pr.ContractsStorageProofs[i]); err != nil {
									c.Violation("rpc-shape", "%s: contracts_storage_proofs[%d]: %v", where, i, err)
								}
							}
							inOrder := ""
							for i, s := range req.storage {
								if why := verifyStorageKeys(st, s.Contract, s.Keys, smaps[i]); why != "" {
									inOrder = fmt.Sprintf("contracts_storage_proofs[%d] vs requested contract #%d: %s", i, i, why)
									break
								}
							}
							if inOrder != "" {
								// does some other assignment of proofs to contracts verify?
								perm := ""
								for _, p := range permutations(len(req.storage)) {
									ok := true
									for i, s := range req.storage {
										if verifyStorageKeys(st, s.Contract, s.Keys, smaps[p[i]]) != "" {
											ok = false
											break
										}
									}
									if ok {
										perm = fmt.Sprint(p)
										break
									}
								}
								if perm == "" {
									c.Violation("storage-proof-invalid", "%s: %s (and no permutation of the proofs verifies)\nrequest %s\nresult %s", where, inOrder, pj, resp.Result)
								}
								if stats.Known(kfRPCStorageOrder) {
									c.Excluded(kfRPCStorageOrder)
									c.Label("storage-proofs-permuted(known)")
								} else {
									c.Violation("storage-proof-order", "%s: contracts_storage_proofs are not in the order of the requested contracts (requested contract i is proven by proof %s[i]): %s\nrequest %s", where, perm, inOrder, pj)
								}
							}
						}
					}
				}
			}
			c.Sample(func() any {
				var bl []string
				for _, b := range ch.Blocks {
					bl = append(bl, fmt.Sprintf("#%d v%s %s", b.Num(), b.B.ProtocolVersion, gen.DiffString(b.SU.StateDiff)))
				}
				return map[string]any{"chain": bl, "queries": queries}
			})
		})
}

// neighbourhoodBlock builds (without the generator) the next block of ch: an otherwise empty block whose state diff
// writes values v0..v(size-1) to slots k..k+size-1 and the same values to k'..k'+size-1 of one contract (an existing
// contract, or system contract 0x1 which needs no deployment). Sealed with the reference root like generated blocks.
func neighbourhoodBlock(rt *rapid.T, u *gen.Universe, ch *gen.Chain) (*gen.Block, felt.Felt, []felt.Felt) {
	last := ch.Blocks[len(ch.Blocks)-1]
	pre := last.Post
	target := gen.F(1)
	if live := pre.SortedContracts(); len(live) > 0 && rapid.IntRange(0, 3).Draw(rt, "nbExisting") > 0 {
		target = rapid.SampledFrom(live).Draw(rt, "nbContract")
	}
	lg := rapid.IntRange(1, 2).Draw(rt, "nbLog")
	size := 1 << lg
	base := felt2big(ptrF(rapid.SampledFrom(append([]felt.Felt{gen.F(0), gen.F(0x100)}, u.Keys...)).Draw(rt, "nbBase")))
	base.Rsh(base, uint(lg)).Lsh(base, uint(lg))
	other := new(big.Int).Set(base)
	// two flipped bits: the two copies then hang off different edges (see drawModel)
	flipped := map[int]bool{}
	for i, n := 0, rapid.SampledFrom([]int{1, 2, 2, 2}).Draw(rt, "nbFlips"); i < n; i++ {
		bit := rapid.IntRange(lg, 250).Draw(rt, "nbBit")
		if rapid.Bool().Draw(rt, "nbNear") {
			bit = rapid.IntRange(lg, lg+4).Draw(rt, "nbBitNear")
		}
		if !flipped[bit] {
			flipped[bit] = true
			other.SetBit(other, bit, other.Bit(bit)^1)
		}
	}
	d := core.EmptyStateDiff()
	writes := map[felt.Felt]*felt.Felt{}
	var slots []felt.Felt
	vals := make([]felt.Felt, size)
	for i := range vals {
		vals[i] = rapid.SampledFrom(tinyValues).Draw(rt, "nbVal")
	}
	for _, b := range []*big.Int{base, other} {
		for i := 0; i < size; i++ {
			k := big2felt(new(big.Int).Add(b, big.NewInt(int64(i))))
			v := vals[i]
			writes[k] = &v
			slots = append(slots, k)
		}
	}
	d.StorageDiffs[target] = writes
	num := uint64(len(ch.Blocks))
	post := pre.Clone()
	if err := post.Apply(num, last.B.ProtocolVersion, &d, nil, u.CasmV2Of); err != nil {
		stats.HarnessError("neighbourhood block: %v", err)
	}
	h := *last.B.Header
	h.Hash, h.GlobalStateRoot, h.Signatures = nil, nil, nil
	h.ParentHash = last.B.Hash
	h.Number = num
	h.Timestamp = last.B.Timestamp + 1
	h.TransactionCount, h.EventCount = 0, 0
	h.EventsBloom = core.EventsBloom(nil)
	b := &gen.Block{
		B:       &core.Block{Header: &h, Transactions: []core.Transaction{}, Receipts: []*core.TransactionReceipt{}},
		SU:      &core.StateUpdate{StateDiff: &d},
		Classes: map[felt.Felt]core.ClassDefinition{}, Pre: pre, Post: post, Tags: map[string]bool{"neighbourhood": true},
	}
	gen.Seal(b, u.Net)
	return b, target, slots
}

func mustJSON(v any) string {
	b, err := json.Marshal(v)
	if err != nil {
		return fmt.Sprintf("%+v", v)
	}
	return string(b)
}
