// Package c10: Merkle proofs verify against the root and cannot be forged by tampering (property C10).
//
//   - TestPropTrieProofs:      core/trie and core/trie2 Prove/VerifyProof vs the reference MPT root and an
//     independent proof walker; semantic soundness under single-field corruptions.
//   - TestPropRangeProofs:     GetRangeProof/VerifyRangeProof of both implementations (range_test.go).
//   - TestPropRPCStorageProof: starknet_getStorageProof (v0_9, v0_10) on generated chains, both state
//     backends, checked by a verifier written from the RPC specification (rpc_test.go).
package c10

import (
	"fmt"
	"math/big"
	"sort"
	"testing"

	"github.com/NethermindEth/juno/core/crypto"
	"github.com/NethermindEth/juno/core/felt"
	"github.com/NethermindEth/juno/core/trie"
	"github.com/NethermindEth/juno/core/trie2"
	"github.com/NethermindEth/juno/core/trie2/triedb"
	"github.com/NethermindEth/juno/core/trie2/triedb/database"
	"github.com/NethermindEth/juno/core/trie2/trienode"
	"github.com/NethermindEth/juno/core/trie2/trieutils"
	"github.com/NethermindEth/juno/db/memory"
	_ "github.com/NethermindEth/juno/encoder/registry"
	"pgregory.net/rapid"

	"verif/harness/internal/gen"
	"verif/harness/internal/ref"
	"verif/harness/internal/stats"
)

func TestMain(m *testing.M) { stats.Main(m) }

// Known-finding keys (see FINDINGS.md).
const (
	kfTrie2CachedHash        = "c10-trie2-verifyproof-trusts-cached-hash"
	kfTrie2ValueNode         = "c10-trie2-verifyproof-valuenode-at-any-depth"
	kfRangeNoHash            = "c10-rangeproof-single-element-no-hash-check"
	kfLegacyRangeGap         = "c10-legacy-rangeproof-trusts-in-range-proof-hashes"
	kfLegacyRangeMissingNode = "c10-legacy-rangeproof-missing-proof-node-treated-as-absence"
	kfTrie2RangeFirstLeaf    = "c10-trie2-rangeproof-omitted-first-leaf-accepted"
	kfTrie2RangeSharedNode   = "c10-trie2-rangeproof-identical-subtries-share-proof-node"
	kfTrie2RangePanic        = "c10-trie2-rangeproof-panics-on-misplaced-value-node"
	kfLegacyHasMore          = "c10-legacy-rangeproof-hasrightelement-wrong"
	kfRangeDuplicateKey      = "c10-rangeproof-duplicate-keys-accepted"
	kfRPCStorageOrder        = "c10-rpc-storage-proofs-order-scrambled"
)

// ---------------------------------------------------------------------------------------------
// small helpers

func hashFn(posei bool) crypto.HashFn {
	if posei {
		return crypto.Poseidon
	}
	return crypto.Pedersen
}

func refHash(posei bool) ref.HashFn {
	if posei {
		return ref.Poseidon
	}
	return ref.Pedersen
}

func big2felt(b *big.Int) felt.Felt {
	var f felt.Felt
	f.SetBigInt(b)
	return f
}

func felt2big(f *felt.Felt) *big.Int { return f.BigInt(new(big.Int)) }

func flipBit(f felt.Felt, bit int) felt.Felt {
	b := felt2big(&f)
	b.SetBit(b, bit, b.Bit(bit)^1)
	return big2felt(b)
}

func sortedKeys(m map[felt.Felt]felt.Felt) []felt.Felt {
	out := make([]felt.Felt, 0, len(m))
	for k := range m {
		out = append(out, k)
	}
	sort.Slice(out, func(i, j int) bool { return out[i].Cmp(&out[j]) < 0 })
	return out
}

func hexesOf(fs []felt.Felt) []string {
	out := make([]string, len(fs))
	for i := range fs {
		out[i] = fs[i].String()
	}
	return out
}

func renderKV(m map[felt.Felt]felt.Felt) string {
	s := ""
	for _, k := range sortedKeys(m) {
		v := m[k]
		s += k.String() + "=" + v.String() + " "
	}
	return s
}

// ---------------------------------------------------------------------------------------------
// neutral proof representation + independent walker (written from the Starknet MPT definition)

// pnode is one proof node in implementation-neutral form.
type pnode struct {
	key    felt.Felt // the key it is stored under in the node set (claimed hash)
	binary bool
	left   felt.Felt
	right  felt.Felt
	child  felt.Felt
	path   *big.Int
	plen   int
	// trie2 only: which children are ValueNodes (leaves) rather than HashNodes, embedded hash cache
	leftIsValue, rightIsValue, childIsValue bool
	cached                                  *felt.Felt
}

func (n pnode) String() string {
	if n.binary {
		return fmt.Sprintf("{%s: B l=%s r=%s}", n.key.ShortString(), n.left.ShortString(), n.right.ShortString())
	}
	return fmt.Sprintf("{%s: E path=%s/%d child=%s}", n.key.ShortString(), n.path.Text(16), n.plen, n.child.ShortString())
}

func (n pnode) hash(h ref.HashFn) felt.Felt {
	if n.binary {
		return h(&n.left, &n.right)
	}
	pf := big2felt(n.path)
	hv := h(&n.child, &pf)
	var l felt.Felt
	l.SetUint64(uint64(n.plen))
	var out felt.Felt
	out.Add(&hv, &l)
	return out
}

type walkResult struct {
	value  felt.Felt
	absent bool
	depth  int // depth at which the walk ended (height for membership, start of the diverging edge for absence)
	offset int // for absence: number of edge bits that matched before the divergence
	elen   int // for absence: length of the diverging edge
	nodes  int
	lastK  felt.Felt // set key of the last node used
}

// walk follows key (height bits, MSB first) from root through nodes (claimed hash -> node), checking
// every node's hash, and returns the leaf value or an established absence.
func walk(root felt.Felt, key *big.Int, height int, nodes map[felt.Felt]pnode, h ref.HashFn) (walkResult, error) {
	var r walkResult
	if root.IsZero() {
		r.absent = true
		return r, nil
	}
	cur := root
	pos := 0
	for {
		if pos == height {
			r.value = cur
			r.depth = pos
			return r, nil
		}
		n, ok := nodes[cur]
		if !ok {
			return r, fmt.Errorf("node %s (depth %d) is not in the proof", cur.String(), pos)
		}
		if hv := n.hash(h); !hv.Equal(&cur) {
			return r, fmt.Errorf("node stored under %s hashes to %s", cur.String(), hv.String())
		}
		r.nodes++
		r.lastK = cur
		if n.binary {
			if key.Bit(height-1-pos) == 1 {
				cur = n.right
			} else {
				cur = n.left
			}
			pos++
			continue
		}
		if n.plen <= 0 || pos+n.plen > height || n.path.BitLen() > n.plen {
			return r, fmt.Errorf("malformed edge at depth %d: path %s length %d", pos, n.path.Text(16), n.plen)
		}
		seg := new(big.Int).Rsh(key, uint(height-pos-n.plen))
		seg.And(seg, new(big.Int).Sub(new(big.Int).Lsh(big.NewInt(1), uint(n.plen)), big.NewInt(1)))
		if seg.Cmp(n.path) != 0 {
			r.absent = true
			r.depth = pos
			r.elen = n.plen
			x := new(big.Int).Xor(seg, n.path)
			r.offset = n.plen - x.BitLen()
			return r, nil
		}
		cur = n.child
		pos += n.plen
	}
}

func nodeMap(ns []pnode) map[felt.Felt]pnode {
	m := make(map[felt.Felt]pnode, len(ns))
	for _, n := range ns {
		m[n.key] = n
	}
	return m
}

// ---------------------------------------------------------------------------------------------
// conversions to/from the two implementations

func fromLegacy(p *trie.ProofNodeSet) ([]pnode, error) {
	keys, list := p.Keys(), p.List()
	out := make([]pnode, 0, len(keys))
	for i, k := range keys {
		switch n := list[i].(type) {
		case *trie.Binary:
			out = append(out, pnode{key: k, binary: true, left: *n.LeftHash, right: *n.RightHash})
		case *trie.Edge:
			pf := n.Path.Felt()
			out = append(out, pnode{key: k, child: *n.Child, path: felt2big(&pf), plen: int(n.Path.Len())})
		default:
			return nil, fmt.Errorf("unknown legacy proof node %T", n)
		}
	}
	return out, nil
}

func toLegacy(ns []pnode) *trie.ProofNodeSet {
	p := trie.NewProofNodeSet()
	for _, n := range ns {
		n := n
		if n.binary {
			l, r := n.left, n.right
			p.Put(n.key, &trie.Binary{LeftHash: &l, RightHash: &r})
		} else {
			c := n.child
			pf := big2felt(n.path)
			pb := pf.Bytes()
			p.Put(n.key, &trie.Edge{Child: &c, Path: new(trie.BitArray).SetBytes(uint8(n.plen), pb[:])})
		}
	}
	return p
}

func t2child(n trienode.Node) (felt.Felt, bool, error) {
	switch c := n.(type) {
	case *trienode.HashNode:
		return felt.Felt(*c), false, nil
	case *trienode.ValueNode:
		return felt.Felt(*c), true, nil
	default:
		return felt.Zero, false, fmt.Errorf("proof node child of type %T (neither hash nor value)", n)
	}
}

func fromTrie2(p *trie2.ProofNodeSet) ([]pnode, error) {
	keys, list := p.Keys(), p.List()
	out := make([]pnode, 0, len(keys))
	for i, k := range keys {
		var pn pnode
		pn.key = k
		var err error
		switch n := list[i].(type) {
		case *trienode.BinaryNode:
			pn.binary = true
			if pn.left, pn.leftIsValue, err = t2child(n.Children[0]); err != nil {
				return nil, err
			}
			if pn.right, pn.rightIsValue, err = t2child(n.Children[1]); err != nil {
				return nil, err
			}
			if n.Flags.Hash != nil {
				c := felt.Felt(*n.Flags.Hash)
				pn.cached = &c
			}
		case *trienode.EdgeNode:
			if pn.child, pn.childIsValue, err = t2child(n.Child); err != nil {
				return nil, err
			}
			pf := n.Path.Felt()
			pn.path, pn.plen = felt2big(&pf), int(n.Path.Len())
			if n.Flags.Hash != nil {
				c := felt.Felt(*n.Flags.Hash)
				pn.cached = &c
			}
		default:
			return nil, fmt.Errorf("unknown trie2 proof node %T", n)
		}
		out = append(out, pn)
	}
	return out, nil
}

func t2mk(f felt.Felt, isValue bool) trienode.Node {
	if isValue {
		v := trienode.ValueNode(f)
		return &v
	}
	h := trienode.HashNode(f)
	return &h
}

// toTrie2 always builds fresh node objects (VerifyRangeProof links children into the proof nodes it is given).
func toTrie2(ns []pnode) *trie2.ProofNodeSet {
	p := trie2.NewProofNodeSet()
	for _, n := range ns {
		var hn *trienode.HashNode
		if n.cached != nil {
			c := trienode.HashNode(*n.cached)
			hn = &c
		}
		if n.binary {
			b := &trienode.BinaryNode{Children: [2]trienode.Node{t2mk(n.left, n.leftIsValue), t2mk(n.right, n.rightIsValue)}}
			b.Flags.Hash = hn
			p.Put(n.key, b)
		} else {
			pf := big2felt(n.path)
			pb := pf.Bytes()
			e := &trienode.EdgeNode{Child: t2mk(n.child, n.childIsValue), Path: new(trieutils.Path).SetBytes(uint8(n.plen), pb[:])}
			e.Flags.Hash = hn
			p.Put(n.key, e)
		}
	}
	return p
}

// ---------------------------------------------------------------------------------------------
// the two tries under test

type impl interface {
	name() string
	prove(k *felt.Felt) ([]pnode, error)
	proveMany(ks []felt.Felt) ([]pnode, error)                // all keys proven into ONE node set (what the RPC and GetRangeProof do)
	verify(root, k *felt.Felt, ns []pnode) (felt.Felt, error) // only meaningful for height 251
	rangeProof(l, r *felt.Felt) ([]pnode, error)
	verifyRange(root, first *felt.Felt, keys, values []*felt.Felt, ns []pnode, nilProof bool) (bool, error)
}

type legacyImpl struct {
	tr    *trie.Trie
	posei bool
}

func newLegacy(height int, posei bool, model map[felt.Felt]felt.Felt, order []felt.Felt, reopen bool) *legacyImpl {
	d := memory.New()
	txn := d.NewIndexedBatch()
	open := func() *trie.Trie {
		var tr *trie.Trie
		var err error
		if posei {
			tr, err = trie.NewTriePoseidon(txn, []byte{0x55}, uint8(height))
		} else {
			tr, err = trie.NewTriePedersen(txn, []byte{0x55}, uint8(height))
		}
		if err != nil {
			stats.HarnessError("open legacy trie: %v", err)
		}
		return tr
	}
	tr := open()
	for _, k := range order {
		k, v := k, model[k]
		if _, err := tr.Put(&k, &v); err != nil {
			stats.HarnessError("legacy Put: %v", err)
		}
	}
	if err := tr.Commit(); err != nil {
		stats.HarnessError("legacy Commit: %v", err)
	}
	if reopen {
		if err := txn.Write(); err != nil {
			stats.HarnessError("txn write: %v", err)
		}
		txn = d.NewIndexedBatch()
		tr = open()
	}
	return &legacyImpl{tr: tr, posei: posei}
}

func (l *legacyImpl) name() string { return "core/trie" }

func (l *legacyImpl) prove(k *felt.Felt) ([]pnode, error) {
	p := trie.NewProofNodeSet()
	if err := l.tr.Prove(k, p); err != nil {
		return nil, err
	}
	return fromLegacy(p)
}

func (l *legacyImpl) proveMany(ks []felt.Felt) ([]pnode, error) {
	p := trie.NewProofNodeSet()
	for i := range ks {
		if err := l.tr.Prove(&ks[i], p); err != nil {
			return nil, err
		}
	}
	return fromLegacy(p)
}

func (l *legacyImpl) verify(root, k *felt.Felt, ns []pnode) (felt.Felt, error) {
	return trie.VerifyProof(root, k, toLegacy(ns), hashFn(l.posei))
}

func (l *legacyImpl) rangeProof(a, b *felt.Felt) ([]pnode, error) {
	p := trie.NewProofNodeSet()
	if err := l.tr.GetRangeProof(a, b, p); err != nil {
		return nil, err
	}
	return fromLegacy(p)
}

func (l *legacyImpl) verifyRange(root, first *felt.Felt, keys, values []*felt.Felt, ns []pnode, nilProof bool) (bool, error) {
	if nilProof {
		return trie.VerifyRangeProof(root, first, keys, values, nil)
	}
	return trie.VerifyRangeProof(root, first, keys, values, toLegacy(ns))
}

type trie2Impl struct {
	tr    *trie2.Trie
	posei bool
	mode  string
}

var trie2Modes = []string{"fresh", "hashed", "persisted"}

func newTrie2(height int, posei bool, model map[felt.Felt]felt.Felt, order []felt.Felt, mode string) *trie2Impl {
	tr := trie2.NewEmpty(uint8(height), hashFn(posei))
	var tdb database.TrieDB
	disk := memory.New()
	if mode == "persisted" {
		tdb = triedb.New(disk, nil)
		var err error
		tr, err = trie2.New(trieutils.NewContractTrieID(felt.StateRootHash{}), uint8(height), hashFn(posei), tdb)
		if err != nil {
			stats.HarnessError("open trie2: %v", err)
		}
	}
	for _, k := range order {
		k, v := k, model[k]
		if err := tr.Update(&k, &v); err != nil {
			stats.HarnessError("trie2 Update: %v", err)
		}
	}
	switch mode {
	case "hashed":
		if _, err := tr.Hash(); err != nil {
			stats.HarnessError("trie2 Hash: %v", err)
		}
	case "persisted":
		root, nodes := tr.Commit()
		if nodes != nil {
			b := disk.NewBatch()
			var zero felt.Felt
			err := tdb.Update((*felt.StateRootHash)(&root), (*felt.StateRootHash)(&zero), 0, nil, trienode.NewMergeNodeSet(nodes), b)
			if err == nil {
				err = b.Write()
			}
			if err != nil {
				stats.HarnessError("trie2 persist: %v", err)
			}
		}
		var err error
		tr, err = trie2.New(trieutils.NewContractTrieID(felt.StateRootHash(gen.F(1))), uint8(height), hashFn(posei), tdb)
		if err != nil {
			stats.HarnessError("trie2 reopen: %v", err)
		}
	}
	return &trie2Impl{tr: tr, posei: posei, mode: mode}
}

func (t *trie2Impl) name() string { return "core/trie2" }

func (t *trie2Impl) prove(k *felt.Felt) ([]pnode, error) {
	p := trie2.NewProofNodeSet()
	if err := t.tr.Prove(k, p); err != nil {
		return nil, err
	}
	return fromTrie2(p)
}

func (t *trie2Impl) proveMany(ks []felt.Felt) ([]pnode, error) {
	p := trie2.NewProofNodeSet()
	for i := range ks {
		if err := t.tr.Prove(&ks[i], p); err != nil {
			return nil, err
		}
	}
	return fromTrie2(p)
}

func (t *trie2Impl) verify(root, k *felt.Felt, ns []pnode) (felt.Felt, error) {
	return trie2.VerifyProof(root, k, toTrie2(ns), hashFn(t.posei))
}

func (t *trie2Impl) rangeProof(a, b *felt.Felt) ([]pnode, error) {
	p := trie2.NewProofNodeSet()
	if err := t.tr.GetRangeProof(a, b, p); err != nil {
		return nil, err
	}
	return fromTrie2(p)
}

func (t *trie2Impl) verifyRange(root, first *felt.Felt, keys, values []*felt.Felt, ns []pnode, nilProof bool) (bool, error) {
	if nilProof {
		return trie2.VerifyRangeProof(root, first, keys, values, nil)
	}
	return trie2.VerifyRangeProof(root, first, keys, values, toTrie2(ns))
}

// guarded runs f and converts a panic into (panicked=true, message).
func guarded(f func()) (msg string, panicked bool) {
	defer func() {
		if r := recover(); r != nil {
			msg, panicked = fmt.Sprint(r), true
		}
	}()
	f()
	return "", false
}

// ---------------------------------------------------------------------------------------------
// key pools

var maxKey251 = new(big.Int).Sub(new(big.Int).Lsh(big.NewInt(1), 251), big.NewInt(1))

// keyPool draws the finite set of keys a case works with. Height 251: either the shared universe generator
// (few stems, low/high bit flips) or a "dense" pool: all 2^d low-bit variants of a stem (complete binary
// subtrees, sibling leaves) plus a second stem branching off at a drawn depth.
func keyPool(rt *rapid.T, height int) ([]felt.Felt, string) {
	if height < 251 {
		n := 1 << height
		out := make([]felt.Felt, n)
		for i := range out {
			out[i] = gen.F(uint64(i))
		}
		return out, "small"
	}
	if rapid.IntRange(0, 2).Draw(rt, "poolkind") == 0 {
		u := gen.NewUniverse(rt)
		return append(append([]felt.Felt{}, u.Keys...), u.Addrs...), "universe"
	}
	var stem *big.Int
	switch rapid.IntRange(0, 3).Draw(rt, "stemkind") {
	case 0:
		stem = new(big.Int)
	case 1:
		stem = new(big.Int).Set(maxKey251)
	default:
		b := rapid.SliceOfN(rapid.Byte(), 32, 32).Draw(rt, "stem")
		b[0] &= 0x07
		stem = new(big.Int).SetBytes(b)
	}
	d := rapid.IntRange(1, 4).Draw(rt, "dense-bits")
	seen := map[felt.Felt]bool{}
	var out []felt.Felt
	add := func(b *big.Int) {
		f := big2felt(b)
		if !seen[f] {
			seen[f] = true
			out = append(out, f)
		}
	}
	base := new(big.Int).Rsh(stem, uint(d))
	base.Lsh(base, uint(d))
	for i := 0; i < 1<<d; i++ {
		add(new(big.Int).Or(base, big.NewInt(int64(i))))
	}
	nb := rapid.IntRange(0, 2).Draw(rt, "nbranches")
	for j := 0; j < nb; j++ {
		bit := rapid.SampledFrom([]int{250, 249, 200, 128, 64, 9, 8, 7, 6, 5}).Draw(rt, "branchbit")
		s2 := new(big.Int).Set(base)
		s2.SetBit(s2, bit, s2.Bit(bit)^1)
		for i := 0; i < 3; i++ {
			add(new(big.Int).Xor(s2, big.NewInt(int64(i))))
		}
	}
	return out, "dense"
}

// queryKey draws a key to query: present, pool (maybe absent), a present key with one bit flipped at a drawn
// depth (absent keys with every possible divergence depth), or a boundary value.
func queryKey(rt *rapid.T, height int, pool []felt.Felt, present []felt.Felt) (felt.Felt, string) {
	kind := rapid.IntRange(0, 9).Draw(rt, "qkind")
	switch {
	case kind <= 2 && len(present) > 0:
		return rapid.SampledFrom(present).Draw(rt, "qpresent"), "present"
	case kind <= 4:
		return rapid.SampledFrom(pool).Draw(rt, "qpool"), "pool"
	case kind <= 8 && len(present) > 0:
		k := rapid.SampledFrom(present).Draw(rt, "qbase")
		var bit int
		switch rapid.IntRange(0, 2).Draw(rt, "qregion") {
		case 0:
			bit = rapid.IntRange(0, min(7, height-1)).Draw(rt, "qlow")
		case 1:
			bit = rapid.IntRange(max(0, height-8), height-1).Draw(rt, "qhigh")
		default:
			bit = rapid.IntRange(0, height-1).Draw(rt, "qbit")
		}
		return flipBit(k, bit), "flip"
	default:
		if height < 251 {
			return gen.F(uint64(rapid.IntRange(0, (1<<height)-1).Draw(rt, "qsmall"))), "boundary"
		}
		return rapid.SampledFrom([]felt.Felt{gen.F(0), gen.F(1), big2felt(maxKey251)}).Draw(rt, "qboundary"), "boundary"
	}
}

// tinyValues: a value pool with deliberate repeats (equal values are what makes two sub-tries identical).
var tinyValues = []felt.Felt{gen.F(5), gen.F(7), gen.F(9)}

// drawModel draws a key/value set over pool and an insertion order. Values come from the biased felt generator or,
// in half of the cases, from a 3-element pool. In ~40% of the cases a "copied neighbourhood" is added: 2 or 4
// adjacent keys k..k+size-1 with drawn values and the SAME values at k'..k'+size-1, where k' differs from k in one or
// two drawn bits above the neighbourhood, so that the trie holds two inner sub-tries with identical content (one
// Binary proof node hash) at different positions, usually under different edges. The extra keys are returned so
// that callers can add them to their query pool.
func drawModel(rt *rapid.T, pool []felt.Felt, maxKeys, height int) (map[felt.Felt]felt.Felt, []felt.Felt, []felt.Felt) {
	n := rapid.IntRange(0, min(maxKeys, len(pool))).Draw(rt, "nkeys")
	tiny := rapid.Bool().Draw(rt, "tinyValues")
	val := func(label string) felt.Felt {
		if tiny {
			return rapid.SampledFrom(tinyValues).Draw(rt, label)
		}
		return gen.NonZeroFelt().Draw(rt, label)
	}
	model := map[felt.Felt]felt.Felt{}
	var order []felt.Felt
	for len(order) < n {
		k := rapid.SampledFrom(pool).Draw(rt, "mkey")
		if _, ok := model[k]; ok {
			// take the next unused pool entry instead of rejecting
			for _, p := range pool {
				if _, used := model[p]; !used {
					k = p
					break
				}
			}
		}
		model[k] = val("mval")
		order = append(order, k)
	}
	var extra []felt.Felt
	if rapid.IntRange(0, 4).Draw(rt, "copiedNeighbourhood") < 2 {
		lg := rapid.IntRange(1, min(2, height-1)).Draw(rt, "nbLog")
		size := 1 << lg
		base := felt2big(ptrF(rapid.SampledFrom(pool).Draw(rt, "nbBase")))
		base.Rsh(base, uint(lg)).Lsh(base, uint(lg))
		other := new(big.Int).Set(base)
		// one flipped bit gives two sub-tries whose edges are equal as well (same remaining path); two flipped bits make the
		// edges differ in the lower of the two positions
		nflip := rapid.SampledFrom([]int{1, 2, 2, 2}).Draw(rt, "nbFlips")
		flipped := map[int]bool{}
		for i := 0; i < nflip; i++ {
			var bit int
			if rapid.Bool().Draw(rt, "nbNear") {
				bit = rapid.IntRange(lg, min(lg+4, height-1)).Draw(rt, "nbBitNear")
			} else {
				bit = rapid.IntRange(lg, height-1).Draw(rt, "nbBit")
			}
			if !flipped[bit] {
				flipped[bit] = true
				other.SetBit(other, bit, other.Bit(bit)^1)
			}
		}
		if other.Cmp(base) != 0 {
			vals := make([]felt.Felt, size)
			for i := range vals {
				vals[i] = val("nbVal")
			}
			for _, b := range []*big.Int{base, other} {
				for i := 0; i < size; i++ {
					k := big2felt(new(big.Int).Add(b, big.NewInt(int64(i))))
					if _, ok := model[k]; !ok {
						order = append(order, k)
					}
					model[k] = vals[i]
					extra = append(extra, k)
				}
			}
		}
	}
	return model, order, extra
}

// dupSubtries derives from the key/value set alone whether the trie holds two inner (binary) sub-tries with identical
// content at different positions, and whether two such sub-tries hang off different edges (edge length or path bits
// differ; "no edge" counts as an edge of length 0).
func dupSubtries(height int, model map[felt.Felt]felt.Felt) (dup, diffEdge bool) {
	type entry struct {
		k *big.Int
		v felt.Felt
	}
	var es []entry
	for _, k := range sortedKeys(model) {
		es = append(es, entry{felt2big(&k), model[k]})
	}
	seen := map[string]map[string]bool{}
	var scan func(es []entry, length int)
	scan = func(es []entry, length int) {
		if len(es) <= 1 || length == 0 {
			return
		}
		first, last := es[0].k, es[len(es)-1].k
		l := 0
		for l < length && first.Bit(length-1-l) == last.Bit(length-1-l) {
			l++
		}
		rem := length - l
		mask := new(big.Int).Sub(new(big.Int).Lsh(big.NewInt(1), uint(rem)), big.NewInt(1))
		sig := fmt.Sprintf("%d|", rem)
		for _, e := range es {
			sig += new(big.Int).And(e.k, mask).Text(16) + "=" + e.v.String() + ","
		}
		pathBits := new(big.Int).Rsh(first, uint(rem))
		pathBits.And(pathBits, new(big.Int).Sub(new(big.Int).Lsh(big.NewInt(1), uint(l)), big.NewInt(1)))
		edge := fmt.Sprintf("%d:%s", l, pathBits.Text(16))
		if seen[sig] == nil {
			seen[sig] = map[string]bool{}
		} else {
			dup = true
		}
		seen[sig][edge] = true
		if len(seen[sig]) > 1 {
			diffEdge = true
		}
		i := sort.Search(len(es), func(i int) bool { return es[i].k.Bit(rem-1) == 1 })
		scan(es[:i], rem-1)
		scan(es[i:], rem-1)
	}
	scan(es, height)
	return dup, diffEdge
}

func labelDup(c *stats.Case, height int, model map[felt.Felt]felt.Felt) (dup, diffEdge bool) {
	dup, diffEdge = dupSubtries(height, model)
	if dup {
		c.Label("duplicate-subtrie")
	}
	if diffEdge {
		c.Label("duplicate-subtrie-under-different-edges")
	}
	return dup, diffEdge
}

// ---------------------------------------------------------------------------------------------
// tampering of membership proofs

type tamperResult struct {
	nodes     []pnode
	key       felt.Felt
	root      felt.Felt
	desc      string
	hashOnly  bool // shape of the proof preserved (only a hash/value field changed)
	rootChg   bool
	changed   bool
	sanitized bool // ValueNode children of the corrupted node were turned into HashNodes (known-finding exclusion)
}

func cloneNodes(ns []pnode) []pnode {
	out := make([]pnode, len(ns))
	for i, n := range ns {
		out[i] = n
		if n.path != nil {
			out[i].path = new(big.Int).Set(n.path)
		}
		if n.cached != nil {
			c := *n.cached
			out[i].cached = &c
		}
	}
	return out
}

// tamper derives (root', key', proof') from an honest proof by ONE corruption. isTrie2 enables the
// corruptions that only exist in trie2's node representation. keepCache: leave the trie2 hash cache of the
// corrupted node in place (the in-memory object is corrupted) instead of presenting a freshly decoded node.
func tamper(rt *rapid.T, c *stats.Case, isTrie2 bool, height int, root, key felt.Felt, honest []pnode, foreign []pnode,
	otherRoot felt.Felt, pool []felt.Felt, lastNodeKey felt.Felt, noMisplacedValues bool,
) tamperResult {
	res := tamperResult{nodes: cloneNodes(honest), key: key, root: root}
	kinds := []string{"key-flip", "key-pool", "root-flip", "root-other"}
	if len(foreign) > 0 {
		kinds = append(kinds, "add-foreign")
	}
	if len(honest) > 0 {
		kinds = append(kinds, "flip-hash", "flip-hash", "flip-hash", "leaf-value", "leaf-value", "drop", "rekey", "swap-lr", "edge-path", "edge-len", "node-kind")
		if len(foreign) > 0 {
			kinds = append(kinds, "replace-foreign")
		}
		if isTrie2 {
			kinds = append(kinds, "value-hash-confusion", "value-hash-confusion")
		}
	}
	kind := rapid.SampledFrom(kinds).Draw(rt, "tamper")
	res.desc = kind
	keepCache := false
	if isTrie2 {
		keepCache = rapid.Bool().Draw(rt, "keepCache")
		if keepCache && stats.Known(kfTrie2CachedHash) {
			keepCache = false
			c.Excluded(kfTrie2CachedHash)
		}
	}
	pick := func(pred func(n pnode) bool) int {
		var idx []int
		for i, n := range res.nodes {
			if pred(n) {
				idx = append(idx, i)
			}
		}
		if len(idx) == 0 {
			return -1
		}
		return idx[rapid.IntRange(0, len(idx)-1).Draw(rt, "tnode")]
	}
	any := func(pnode) bool { return true }
	touch := func(i int) {
		res.changed = true
		if !keepCache {
			res.nodes[i].cached = nil
		} else if res.nodes[i].cached != nil {
			res.desc += "+stale-cache"
		}
	}
	hbit := func() int { return rapid.IntRange(0, 250).Draw(rt, "hbit") }
	if noMisplacedValues && (kind == "node-kind" || kind == "edge-len" || kind == "replace-foreign") {
		// depth-shifting / re-linking corruptions put honest leaf-level ValueNodes at a depth < 251 (known panic class)
		res.sanitized = true
		return res
	}
	switch kind {
	case "key-flip":
		res.key = flipBit(key, rapid.IntRange(0, height-1).Draw(rt, "kbit"))
		res.changed = true
	case "key-pool":
		res.key = rapid.SampledFrom(pool).Draw(rt, "kpool")
		res.changed = !res.key.Equal(&key)
	case "root-flip":
		res.root = flipBit(root, hbit())
		res.rootChg, res.changed = true, true
	case "root-other":
		res.root = otherRoot
		res.rootChg, res.changed = true, !otherRoot.Equal(&root)
	case "add-foreign":
		have := map[felt.Felt]bool{}
		for _, n := range res.nodes {
			have[n.key] = true
		}
		for _, f := range cloneNodes(foreign) {
			if !have[f.key] {
				res.nodes = append(res.nodes, f)
				res.changed = true
			}
		}
	case "replace-foreign":
		i := pick(any)
		f := cloneNodes(foreign)[rapid.IntRange(0, len(foreign)-1).Draw(rt, "fnode")]
		f.key = res.nodes[i].key
		if keepCache {
			f.cached = res.nodes[i].cached
		} else {
			f.cached = nil
		}
		same := f.binary == res.nodes[i].binary && f.left.Equal(&res.nodes[i].left) && f.right.Equal(&res.nodes[i].right) &&
			f.child.Equal(&res.nodes[i].child) && f.plen == res.nodes[i].plen && (f.path == nil || f.path.Cmp(res.nodes[i].path) == 0)
		res.nodes[i] = f
		if !same {
			c0 := res.nodes[i].cached
			touch(i)
			res.nodes[i].cached = c0
		}
	case "flip-hash":
		i := pick(any)
		n := &res.nodes[i]
		if n.binary {
			if rapid.Bool().Draw(rt, "side") {
				n.left = flipBit(n.left, hbit())
			} else {
				n.right = flipBit(n.right, hbit())
			}
		} else {
			n.child = flipBit(n.child, hbit())
		}
		res.hashOnly = true
		touch(i)
	case "leaf-value":
		// the claimed value: the field of the last node on the key's path that the walk would return
		i := pick(func(n pnode) bool { return n.key.Equal(&lastNodeKey) })
		if i < 0 {
			i = pick(any)
		}
		n := &res.nodes[i]
		nv := gen.NonZeroFelt().Draw(rt, "forgedValue")
		if rapid.Bool().Draw(rt, "zeroValue") {
			nv = felt.Zero
		}
		if n.binary {
			kb := felt2big(&key)
			if kb.Bit(0) == 1 {
				res.changed = !n.right.Equal(&nv)
				n.right = nv
			} else {
				res.changed = !n.left.Equal(&nv)
				n.left = nv
			}
		} else {
			res.changed = !n.child.Equal(&nv)
			n.child = nv
		}
		res.hashOnly = true
		if res.changed {
			touch(i)
		}
	case "drop":
		i := pick(any)
		res.nodes = append(res.nodes[:i], res.nodes[i+1:]...)
		res.changed = true
	case "rekey":
		i := pick(any)
		res.nodes[i].key = flipBit(res.nodes[i].key, hbit())
		touch(i)
	case "swap-lr":
		i := pick(func(n pnode) bool { return n.binary })
		if i >= 0 {
			n := &res.nodes[i]
			n.left, n.right = n.right, n.left
			n.leftIsValue, n.rightIsValue = n.rightIsValue, n.leftIsValue
			if !n.left.Equal(&n.right) {
				touch(i)
			}
		}
	case "edge-path":
		i := pick(func(n pnode) bool { return !n.binary && n.plen > 0 })
		if i >= 0 {
			n := &res.nodes[i]
			b := rapid.IntRange(0, n.plen-1).Draw(rt, "pbit")
			n.path.SetBit(n.path, b, n.path.Bit(b)^1)
			touch(i)
		}
	case "edge-len":
		i := pick(func(n pnode) bool { return !n.binary })
		if i >= 0 {
			n := &res.nodes[i]
			nl := n.plen + rapid.SampledFrom([]int{-1, 1, -8, 8}).Draw(rt, "dlen")
			if nl >= 0 && nl <= 251 && nl != n.plen {
				if nl < n.plen {
					// keep the most significant bits of the path
					n.path.Rsh(n.path, uint(n.plen-nl))
				}
				n.plen = nl
				touch(i)
			}
		}
	case "node-kind":
		// turn an edge into a binary node (child, path) or a binary node into an edge
		i := pick(any)
		n := &res.nodes[i]
		if n.binary {
			*n = pnode{key: n.key, child: n.left, childIsValue: n.leftIsValue, path: felt2big(&n.right), plen: rapid.IntRange(1, 251).Draw(rt, "klen"), cached: n.cached}
			if n.path.BitLen() > n.plen {
				n.path.Rsh(n.path, uint(n.path.BitLen()-n.plen))
			}
		} else {
			*n = pnode{key: n.key, binary: true, left: n.child, leftIsValue: n.childIsValue, right: big2felt(n.path), cached: n.cached}
		}
		touch(i)
	case "value-hash-confusion":
		i := pick(any)
		n := &res.nodes[i]
		if n.binary {
			if rapid.Bool().Draw(rt, "side") {
				n.leftIsValue = !n.leftIsValue
			} else {
				n.rightIsValue = !n.rightIsValue
			}
		} else {
			n.childIsValue = !n.childIsValue
		}
		res.hashOnly = true
		touch(i)
	}
	return res
}

// ---------------------------------------------------------------------------------------------

// classifyAbsent derives, from the key set alone, where an absent key leaves the trie:
// edge [a,b) is the diverging edge, lcp the depth of the first differing bit.
func classifyAbsent(height int, q felt.Felt, keys []felt.Felt) (a, b, lcp int) {
	cpl := func(x, y *big.Int) int {
		d := new(big.Int).Xor(x, y)
		return height - d.BitLen()
	}
	qb := felt2big(&q)
	lcp = -1
	for i := range keys {
		if l := cpl(qb, felt2big(&keys[i])); l > lcp {
			lcp = l
		}
	}
	var in, out []*big.Int
	for i := range keys {
		kb := felt2big(&keys[i])
		if cpl(qb, kb) == lcp {
			in = append(in, kb)
		} else {
			out = append(out, kb)
		}
	}
	b = height
	for _, x := range in[1:] {
		if l := cpl(in[0], x); l < b {
			b = l
		}
	}
	a = 0
	for _, x := range out {
		if l := cpl(in[0], x) + 1; l > a {
			a = l
		}
	}
	return a, b, lcp
}

func TestPropTrieProofs(t *testing.T) {
	stats.Check(t, stats.Budget{Quick: 3000, Thorough: 20000},
		"key/value sets (height 251: universe stems or dense low-bit subtrees with branches; height 8/3: exhaustive key space; Pedersen/Poseidon) on core/trie (committed, optionally reopened) and core/trie2 (fresh/hashed/persisted+reopened); queried keys present / pool / present-with-one-bit-flipped at a drawn depth / boundary; completeness vs ref.MPT root and an independent walker; then single corruptions of (root,key,proof) with the semantic oracle 'accepted => value == model[key]'; non-trivial = an absent key diverging strictly inside an edge was proven, or a shape-preserving (hash/value-only) corruption was evaluated",
		func(rt *rapid.T, c *stats.Case) {
			height := rapid.SampledFrom([]int{251, 251, 251, 251, 8, 3}).Draw(rt, "height")
			posei := rapid.Bool().Draw(rt, "poseidon")
			pool, poolKind := keyPool(rt, height)
			model, order, nbKeys := drawModel(rt, pool, 10, height)
			pool = append(pool, nbKeys...)
			_, dupDiffEdge := labelDup(c, height, model)
			c.Fp("h%d p%v %s", height, posei, renderKV(model))
			c.Labelf("height-%d", height)
			c.Label("pool-" + poolKind)
			if len(model) == 0 {
				c.Label("empty-trie")
			}
			root := ref.MPT(height, refHash(posei), model)
			present := sortedKeys(model)

			li := newLegacy(height, posei, model, order, rapid.Bool().Draw(rt, "legacyReopen"))
			ti := newTrie2(height, posei, model, order, rapid.SampledFrom(trie2Modes).Draw(rt, "trie2mode"))
			c.Label("trie2-" + ti.mode)
			impls := []impl{li, ti}

			// a "foreign" trie: same keys, one value changed / one key added (its proof nodes are real nodes of another trie)
			fmodel := map[felt.Felt]felt.Felt{}
			for k, v := range model {
				fmodel[k] = v
			}
			fk := rapid.SampledFrom(pool).Draw(rt, "foreignKey")
			fmodel[fk] = gen.F(0xf00d)
			otherRoot := ref.MPT(height, refHash(posei), fmodel)
			var forder []felt.Felt
			for _, k := range sortedKeys(fmodel) {
				forder = append(forder, k)
			}
			fimpls := []impl{newLegacy(height, posei, fmodel, forder, false), newTrie2(height, posei, fmodel, forder, "hashed")}

			var queried []felt.Felt
			nq := rapid.IntRange(1, 4).Draw(rt, "nqueries")
			for qi := 0; qi < nq; qi++ {
				q, qkind := queryKey(rt, height, pool, present)
				queried = append(queried, q)
				want := model[q]
				c.Fp("q %s", q.String())
				c.Label("q-" + qkind)
				if _, ok := model[q]; ok {
					c.Label("q:present")
				} else if len(model) > 0 {
					a, b, lcp := classifyAbsent(height, q, present)
					c.Label("q:absent")
					switch {
					case lcp == a:
						c.Label("absent:diverges-at-first-bit-of-edge")
					case lcp == b-1:
						c.Label("absent:diverges-at-last-bit-of-edge")
					default:
						c.Label("absent:diverges-strictly-inside-edge")
					}
					if lcp > a {
						c.NonTrivial("absent-inside-edge")
					}
					if a == 0 {
						c.Label("absent:root-edge")
					}
					if b == height {
						c.Label("absent:leaf-edge")
					}
					if lcp == height-1 {
						c.Label("absent:leaf-sibling")
					}
				} else {
					c.Label("q:empty-trie")
				}
				for ii, im := range impls {
					isT2 := ii == 1
					var honest []pnode
					var err error
					if msg, p := guarded(func() { honest, err = im.prove(&q) }); p {
						c.Violation("prove-panic", "%s Prove(%s) panicked: %s (model %s)", im.name(), q.String(), msg, renderKV(model))
					}
					if err != nil {
						c.Violation("prove-error", "%s Prove(%s): %v (model %s)", im.name(), q.String(), err, renderKV(model))
					}
					// independent walker on the produced proof
					wr, werr := walk(root, felt2big(&q), height, nodeMap(honest), refHash(posei))
					if werr != nil {
						c.Violation("proof-incomplete", "%s Prove(%s) (h=%d) does not lead from the reference root %s to the key: %v\nproof %v\nmodel %s",
							im.name(), q.String(), height, root.String(), werr, honest, renderKV(model))
					}
					if !wr.value.Equal(&want) || wr.absent != want.IsZero() {
						c.Violation("proof-wrong-value", "%s Prove(%s): independent walk gives %s absent=%v, model %s\nproof %v", im.name(), q.String(), wr.value.String(), wr.absent, want.String(), honest)
					}
					if wr.absent && wr.offset > 0 {
						c.Label("walk:absent-inside-edge")
					}
					// every returned node is stored under its own hash (hash -> node mapping); nodes beyond the
					// divergence point are tolerated (core/trie emits the binary half of a diverging edge+binary node)
					for _, n := range honest {
						if hv := n.hash(refHash(posei)); !hv.Equal(&n.key) {
							c.Violation("proof-node-misfiled", "%s Prove(%s): node %v is stored under %s but hashes to %s", im.name(), q.String(), n, n.key.String(), hv.String())
						}
					}
					if wr.nodes != len(honest) {
						c.Label("proof-has-nodes-beyond-path")
					}
					if height != 251 {
						continue // VerifyProof hard-codes the 251-bit key length
					}
					var got felt.Felt
					if msg, p := guarded(func() { got, err = im.verify(&root, &q, honest) }); p {
						c.Violation("verify-panic", "%s VerifyProof(honest proof of %s) panicked: %s", im.name(), q.String(), msg)
					}
					if len(model) == 0 {
						// empty trie: there is no root node; an error is tolerated, a non-zero value is not
						if err == nil && !got.IsZero() {
							c.Violation("completeness", "%s VerifyProof on the empty trie returned %s", im.name(), got.String())
						}
						c.Labelf("empty-trie-verify-err-%v", err != nil)
					} else if err != nil || !got.Equal(&want) {
						c.Violation("completeness", "%s VerifyProof(refroot %s, %s, Prove) = %s, %v; model %s\nproof %v\nmodel %s", im.name(), root.String(), q.String(), got.String(), err, want.String(), honest, renderKV(model))
					}
					// corruptions
					var foreign []pnode
					if msg, p := guarded(func() { foreign, err = fimpls[ii].prove(&fk) }); p || err != nil {
						stats.HarnessError("foreign proof: %v %s", err, msg)
					}
					nt := rapid.IntRange(1, 3).Draw(rt, "ntamper")
					for ti := 0; ti < nt; ti++ {
						tr := tamper(rt, c, isT2, height, root, q, honest, foreign, otherRoot, pool, wr.lastK, false)
						if !tr.changed {
							c.Label("tamper-noop")
							continue
						}
						if tr.desc == "value-hash-confusion" && stats.Known(kfTrie2ValueNode) {
							c.Excluded(kfTrie2ValueNode)
							continue
						}
						c.Fp("t %s", tr.desc)
						c.Label("tamper:" + tr.desc)
						var v felt.Felt
						var verr error
						if msg, p := guarded(func() { v, verr = im.verify(&tr.root, &tr.key, tr.nodes) }); p {
							c.Violation("verify-panic", "%s VerifyProof panicked on a corrupted proof (%s): %s\nkey %s root %s\nproof %v\nmodel %s",
								im.name(), tr.desc, msg, tr.key.String(), tr.root.String(), tr.nodes, renderKV(model))
						}
						if tr.hashOnly {
							c.NonTrivial("shape-preserving-corruption")
						}
						if verr != nil {
							c.Label("tamper-rejected")
							continue
						}
						c.Label("tamper-accepted-consistent")
						if tr.rootChg {
							c.Violation("forged-root-accepted", "%s VerifyProof accepted root %s (true root %s) for key %s => %s (%s)\nproof %v",
								im.name(), tr.root.String(), root.String(), tr.key.String(), v.String(), tr.desc, tr.nodes)
						}
						if mv := model[tr.key]; !v.Equal(&mv) {
							c.Violation("forged-proof-accepted", "%s VerifyProof(root %s, key %s, corrupted proof [%s]) = %s, nil but the trie holds %s\nhonest key %s\nhonest proof  %v\ncorrupt proof %v\nmodel %s",
								im.name(), root.String(), tr.key.String(), tr.desc, v.String(), mv.String(), q.String(), honest, tr.nodes, renderKV(model))
						}
					}
				}
			}
			// ---- several keys proven into ONE node set (as starknet_getStorageProof and GetRangeProof do): every key must still
			// verify against the shared set, with VerifyProof and with the independent walker
			shared := append([]felt.Felt{}, queried...)
			nmore := rapid.IntRange(1, 4).Draw(rt, "nshared")
			for i := 0; i < nmore; i++ {
				switch {
				case len(nbKeys) > 0 && rapid.Bool().Draw(rt, "sharedNb"):
					shared = append(shared, rapid.SampledFrom(nbKeys).Draw(rt, "sharedNbKey"))
				default:
					q, _ := queryKey(rt, height, pool, present)
					shared = append(shared, q)
				}
			}
			shared = rapid.Permutation(shared).Draw(rt, "sharedOrder")
			c.Fp("shared %v", hexesOf(shared))
			c.Labelf("shared-set-keys-%d", min(len(shared), 6))
			if dupDiffEdge {
				c.Label("shared-set-over-duplicate-subtries")
			}
			for _, im := range impls {
				var set []pnode
				var err error
				if msg, p := guarded(func() { set, err = im.proveMany(shared) }); p || err != nil {
					c.Violation("prove-error", "%s Prove of %v into one set: %v %s (model %s)", im.name(), hexesOf(shared), err, msg, renderKV(model))
				}
				nm := nodeMap(set)
				for _, n := range set {
					if hv := n.hash(refHash(posei)); !hv.Equal(&n.key) {
						c.Violation("proof-node-misfiled", "%s shared set: node %v is stored under %s but hashes to %s", im.name(), n, n.key.String(), hv.String())
					}
				}
				for _, k := range shared {
					want := model[k]
					wr, werr := walk(root, felt2big(&k), height, nm, refHash(posei))
					if werr != nil {
						c.Violation("shared-proof-incomplete", "%s: keys %v were proven into ONE node set; it does not lead from the reference root %s to key %s: %v\nset %v\nmodel %s",
							im.name(), hexesOf(shared), root.String(), k.String(), werr, set, renderKV(model))
					}
					if !wr.value.Equal(&want) || wr.absent != want.IsZero() {
						c.Violation("shared-proof-wrong-value", "%s shared set %v: independent walk for %s gives %s absent=%v, model %s", im.name(), hexesOf(shared), k.String(), wr.value.String(), wr.absent, want.String())
					}
					if height != 251 || len(model) == 0 {
						continue
					}
					var got felt.Felt
					var verr error
					if msg, p := guarded(func() { got, verr = im.verify(&root, &k, set) }); p {
						c.Violation("verify-panic", "%s VerifyProof(shared set, %s) panicked: %s", im.name(), k.String(), msg)
					}
					if verr != nil || !got.Equal(&want) {
						c.Violation("shared-completeness", "%s VerifyProof(refroot, %s, set proving %v) = %s, %v; model %s\nset %v\nmodel %s",
							im.name(), k.String(), hexesOf(shared), got.String(), verr, want.String(), set, renderKV(model))
					}
				}
			}
			c.Sample(func() any {
				return map[string]any{"height": height, "poseidon": posei, "pool": poolKind, "model": renderKV(model), "trie2mode": ti.mode}
			})
		})
}
