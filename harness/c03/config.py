# Driver configuration for property C03
PROP = dict(
    pkg="c03", level="exploration",
    technique="model-based stateful PBT: list of abstract-state snapshots as history oracle, both state backends on the same history",
    level_text=("Exploration: generated store/revert/restart histories; after every step every retained block (by number and hash) and the head are "
                "read exhaustively over the case's finite universe (contracts incl. 0x1/0x2, written and never-written slots, Sierra/Cairo-0 classes, "
                "CASM hashes) and compared with the reference snapshot of that block."),
    rule=("rapid state machine store/revert/restart (chains up to 9 blocks, dense reuse of 3-6 contracts and 3-7 slots sharing prefixes, zero writes, "
          "same-value rewrites, replacements, migrations); in a third of the stores readers of the current head block (by number and by hash) are "
          "opened before the store and re-read after it; non-trivial = a slot written in >= 2 retained blocks, or chain extended after a revert; "
          "distinct = SHA-256 of the rendered history (diffs included)."),
    assumptions=["the HEAD reader may answer zero for a storage read of a contract that does not exist (existing design, RPC compensates); readers of a given block (by number or hash) must report not found",
                 "reference model validated on mainnet fixtures (C01)"],
    runs=[dict(run="^Test(Prop|Known)")],
)
