# Driver configuration for property C03
PROP = dict(
    pkg="c03", level="exploration",
    technique="model-based stateful PBT: list of abstract-state snapshots as history oracle, both state backends on the same history, incl. blocks that are applied to the state but never reach the chain (dry runs, rejected stores)",
    level_text=("Exploration: generated store/revert/restart/dry-run/rejected-store histories; after every step every retained block (by number and hash) and the head are "
                "read exhaustively over the case's finite universe (contracts incl. 0x1/0x2, written and never-written slots, Sierra/Cairo-0 classes, "
                "CASM hashes) and compared with the reference snapshot of that block. A dry run (Blockchain.Simulate of a candidate for head+1) and a "
                "store that is refused do not change the model: whatever they leave behind shows up as a difference in one of these reads."),
    rule=("rapid state machine over 8 equally likely action names: store x2, revert x2, dryRun x2, storeRejected, restart (chains up to 9 blocks, dense reuse of 3-6 contracts and "
          "3-7 slots sharing prefixes, zero writes, same-value rewrites, replacements, migrations; memory or, in a third of the cases, Pebble v2). "
          "store: the next generated block or (1/3 when one fits the head) a candidate that was dry-run on this parent before - also one that first lost against another "
          "block which was then reverted; through SanityCheckNewHeight+Store or (1/4) through Finalise with or without a signer, whose computed hash/root must equal "
          "the reference; in a third of the stores readers of the current head block (by number and by hash) are opened before the store and re-read after it. "
          "dryRun: Simulate (nil signer, OldRoot = current root, as builder.Finish does) a generated candidate for head+1 drawn from the same universe "
          "(declares classes, deploys, replaces, nonces, storage, migrations), or again a candidate already tried on this parent; the candidate is dropped, the "
          "chain goes on with a different block or later with the same one. "
          "storeRejected: a self-consistent block (hash matches content, passes the sanity check) that Store must refuse: wrong new root (old root / zero / random); "
          "failure AFTER the state diff was verified and flushed (pre-0.14.1: Sierra declaration without its definition, 0.14.1: CASM migration of a class already on "
          "the blake2s hash or never declared - root sealed with the leaf juno writes, so only the CASM-hash bookkeeping of the block content fails); deploy of an "
          "already deployed contract; wrong parent hash; wrong height (valid sibling of the head); a stale dry-run candidate whose parent is no longer the head. "
          "non-trivial = a slot written in >= 2 retained blocks, or chain extended after a revert, or a block stored at a height where a different block had been "
          "dry-run/rejected; distinct = SHA-256 of the rendered history (diffs, dry runs and rejected blocks included)."),
    assumptions=["the HEAD reader may answer zero for a storage read of a contract that does not exist (existing design, RPC compensates); readers of a given block (by number or hash) must report not found",
                 "reference model validated on mainnet fixtures (C01)",
                 "dry runs are made on an existing head only (builder.InitPreconfirmedBlock needs a head header) and only for height head+1",
                 "a block that Store must refuse (explicit error paths: state-root mismatch, ErrContractAlreadyDeployed, ErrParentDoesNotMatchHead, height check, "
                 "missing class definition / ErrCannotMigrate* in the CASM-hash metadata) counts as a violation when it is accepted"],
    runs=[dict(run="^Test(Prop|Known)")],
)
