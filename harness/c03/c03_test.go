// Package c03: head and historical state reads equal the state as of the requested block (property C03).
package c03

import (
	"encoding/json"
	"errors"
	"fmt"
	"os"
	"path/filepath"
	"sort"
	"strings"
	"testing"

	"github.com/NethermindEth/juno/db/pebblev2"

	"github.com/NethermindEth/juno/core"
	"github.com/NethermindEth/juno/core/felt"
	"github.com/NethermindEth/juno/db"
	"pgregory.net/rapid"

	"verif/harness/internal/gen"
	"verif/harness/internal/node"
	"verif/harness/internal/ref"
	"verif/harness/internal/stats"
)

func TestMain(m *testing.M) { stats.Main(m) }

type checker struct {
	c      *stats.Case
	u      *gen.Universe
	n      *node.Node
	reads  int
	extraK []felt.Felt // never-written slots
}

func pebbleScratch() string {
	base := ""
	if st, err := os.Stat("/dev/shm"); err == nil && st.IsDir() {
		base = "/dev/shm"
	}
	d, err := os.MkdirTemp(base, "verif-c03-")
	if err != nil {
		stats.HarnessError("mkdtemp: %v", err)
	}
	return d
}

func notFound(err error) bool { return errors.Is(err, db.ErrKeyNotFound) }

// compare one state view with the model state `st` (the abstract state as of that block).
func (k *checker) compare(where string, r core.StateReader, st *ref.State) {
	k.compareView(where, r, st, false)
}

// compareView: historical = the reader was obtained by block number or hash (it must report a contract that did not
// exist at that block as not found, also for storage reads; only the head reader is allowed to answer zero there).
func (k *checker) compareView(where string, r core.StateReader, st *ref.State, historical bool) {
	c := k.c
	for _, a := range k.u.AllAddrs() {
		a := a
		ct, exists := st.Contracts[a]
		ch, err := r.ContractClassHash(&a)
		k.reads++
		if exists {
			if err != nil || !ch.Equal(&ct.ClassHash) {
				c.Violation("class-hash", "%s %s: ContractClassHash(%s) = %s, %v; model %s", k.n.Backend(), where, a.ShortString(), ch.ShortString(), err, ct.ClassHash.ShortString())
			}
		} else if !notFound(err) {
			c.Violation("class-hash-of-missing-contract", "%s %s: ContractClassHash(%s) = %s, %v; contract does not exist in the model (want not found)", k.n.Backend(), where, a.ShortString(), ch.ShortString(), err)
		}
		nn, err := r.ContractNonce(&a)
		k.reads++
		if exists {
			if err != nil || !nn.Equal(&ct.Nonce) {
				c.Violation("nonce", "%s %s: ContractNonce(%s) = %s, %v; model %s", k.n.Backend(), where, a.ShortString(), nn.ShortString(), err, ct.Nonce.ShortString())
			}
		} else if !notFound(err) {
			c.Violation("nonce-of-missing-contract", "%s %s: ContractNonce(%s) = %s, %v; contract does not exist in the model", k.n.Backend(), where, a.ShortString(), nn.ShortString(), err)
		}
		for _, key := range append(append([]felt.Felt{}, k.u.Keys...), k.extraK...) {
			key := key
			v, err := r.ContractStorage(&a, &key)
			k.reads++
			if exists {
				want := ct.Storage[key]
				if err != nil || !v.Equal(&want) {
					c.Violation("storage", "%s %s: ContractStorage(%s, %s) = %s, %v; model %s", k.n.Backend(), where, a.ShortString(), key.ShortString(), v.ShortString(), err, want.ShortString())
				}
			} else {
				// tolerance (DESIGN §4 C03): the HEAD reader answers zero for storage of a contract that does not exist;
				// readers of a given block report it as not found (the property's wording, and what RPC v0.10 relies on)
				if !(notFound(err) || (!historical && err == nil && v.IsZero())) {
					c.Violation("storage-of-missing-contract", "%s %s: ContractStorage(%s, %s) = %s, %v; contract does not exist in the model", k.n.Backend(), where, a.ShortString(), key.ShortString(), v.ShortString(), err)
				}
			}
		}
	}
	check := func(h felt.Felt, isSierra bool) {
		cl, declared := st.Classes[h]
		d, err := r.Class(&h)
		k.reads++
		if declared {
			if err != nil {
				c.Violation("class", "%s %s: Class(%s): %v; model: declared at %d", k.n.Backend(), where, h.ShortString(), err, cl.DeclaredAt)
			}
			if d.At != cl.DeclaredAt {
				c.Violation("class-declared-at", "%s %s: Class(%s).At = %d; model %d", k.n.Backend(), where, h.ShortString(), d.At, cl.DeclaredAt)
			}
			got, _ := json.Marshal(d.Class)
			want, _ := json.Marshal(cl.Def)
			if string(got) != string(want) {
				c.Violation("class-definition", "%s %s: Class(%s) definition differs from the declared one", k.n.Backend(), where, h.ShortString())
			}
		} else if !notFound(err) {
			c.Violation("class-not-yet-declared", "%s %s: Class(%s) = %v, %v; not declared in the model at this block", k.n.Backend(), where, h.ShortString(), d, err)
		}
		if !isSierra {
			return
		}
		sh := felt.SierraClassHash(h)
		casm, err := r.CompiledClassHash(&sh)
		k.reads++
		if declared {
			want := cl.CurrentCasm()
			if err != nil || !(*felt.Felt)(&casm).Equal(&want) {
				c.Violation("compiled-class-hash", "%s %s: CompiledClassHash(%s) = %s, %v; model %s (v1 %v migratedAt %d)", k.n.Backend(), where, h.ShortString(), (*felt.Felt)(&casm).ShortString(), err, want.ShortString(), cl.CasmV1 != nil, cl.MigratedAt)
			}
			casm2, err := r.CompiledClassHashV2(&sh)
			if err != nil || !(*felt.Felt)(&casm2).Equal(&cl.CasmV2) {
				c.Violation("compiled-class-hash-v2", "%s %s: CompiledClassHashV2(%s) = %s, %v; model %s", k.n.Backend(), where, h.ShortString(), (*felt.Felt)(&casm2).ShortString(), err, cl.CasmV2.ShortString())
			}
		} else if err == nil {
			c.Violation("compiled-class-hash-of-undeclared", "%s %s: CompiledClassHash(%s) = %s for a class not declared at this block", k.n.Backend(), where, h.ShortString(), (*felt.Felt)(&casm).ShortString())
		}
	}
	for _, s := range k.u.Sierra {
		check(s.Hash, true)
	}
	for _, s := range k.u.Cairo0 {
		check(s.Hash, false)
	}
}

func (k *checker) sweep(ch *gen.Chain, step string) {
	c := k.c
	bc := k.n.BC
	if ch.Height() == 0 {
		if _, err := bc.Height(); err == nil {
			c.Violation("height", "%s %s: Height() succeeds on an empty chain", k.n.Backend(), step)
		}
		return
	}
	h, err := bc.Height()
	if err != nil || h != uint64(ch.Height()-1) {
		c.Violation("height", "%s %s: Height() = %d, %v; model %d", k.n.Backend(), step, h, err, ch.Height()-1)
	}
	sr, closer, err := bc.HeadState()
	if err != nil {
		c.Violation("head-state", "%s %s: HeadState: %v", k.n.Backend(), step, err)
	}
	k.compare(step+" head", sr, ch.TipState())
	_ = closer()
	for _, b := range ch.Blocks {
		sr, closer, err := bc.StateAtBlockNumber(b.Num())
		if err != nil {
			c.Violation("state-at-number", "%s %s: StateAtBlockNumber(%d): %v", k.n.Backend(), step, b.Num(), err)
		}
		k.compareView(fmt.Sprintf("%s @%d", step, b.Num()), sr, b.Post, true)
		_ = closer()
		sr, closer, err = bc.StateAtBlockHash(b.B.Hash)
		if err != nil {
			c.Violation("state-at-hash", "%s %s: StateAtBlockHash(block %d): %v", k.n.Backend(), step, b.Num(), err)
		}
		k.compareView(fmt.Sprintf("%s @hash(%d)", step, b.Num()), sr, b.Post, true)
		_ = closer()
	}
	if _, _, err := bc.StateAtBlockNumber(uint64(ch.Height())); err == nil {
		c.Violation("state-beyond-head", "%s %s: StateAtBlockNumber(head+1) succeeded", k.n.Backend(), step)
	}
}


// ---------------------------------------------------------------------------------------------
// Blocks that are applied to the state WITHOUT the chain receiving them.
//
// Real callers: the block builder / consensus validator dry-run every candidate block with Blockchain.Simulate
// (builder/executor.go Finish) and the candidate may then be dropped (proposal rejected, another proposal decided for
// that height); the synchroniser offers blocks to Store that are rejected while - or after - the state diff was applied
// (new-root mismatch, a failure while the rest of the block is written), the batch is dropped. Neither may leave a trace:
// the model does not change on such a step and the ordinary oracle (every retained block + head equal the model) runs.

// forSequencer is a deep copy of b in the shape the builder hands to Simulate/Finalise: block hash, state root, new root are
// left for juno to fill in; OldRoot is the current root (the builder copies it from the head header; trie2 opens the state there).
func forSequencer(b *gen.Block) *gen.Block {
	nb := gen.CloneBlock(b)
	nb.B.Hash, nb.B.GlobalStateRoot = nil, nil
	nb.SU.NewRoot, nb.SU.BlockHash = nil, nil
	return nb
}

func sortedKeys[V any](m map[felt.Felt]V) []felt.Felt {
	out := make([]felt.Felt, 0, len(m))
	for k := range m {
		out = append(out, k)
	}
	sort.Slice(out, func(i, j int) bool { return out[i].Cmp(&out[j]) < 0 })
	return out
}

func setRoot(b *gen.Block, root felt.Felt, u *gen.Universe) {
	r := root
	b.SU.NewRoot, b.B.GlobalStateRoot = &r, &r
	gen.Rehash(b, u.Net)
}

// diffClasses labels what a not-stored block would have changed (what could leak).
func diffClasses(c *stats.Case, prefix string, d *core.StateDiff) {
	if len(d.DeclaredV1Classes)+len(d.DeclaredV0Classes) > 0 {
		c.Label(prefix + ":declares-class")
	}
	if len(d.DeployedContracts) > 0 {
		c.Label(prefix + ":deploys")
	}
	if len(d.StorageDiffs) > 0 {
		c.Label(prefix + ":writes-storage")
	}
	if len(d.Nonces) > 0 {
		c.Label(prefix + ":nonces")
	}
	if len(d.ReplacedClasses) > 0 {
		c.Label(prefix + ":replaces-class")
	}
	if len(d.MigratedClasses) > 0 {
		c.Label(prefix + ":migrates")
	}
}

var rejectKinds = []string{"wrong-new-root", "wrong-new-root", "late", "late", "late", "double-deploy", "wrong-parent", "wrong-height"}

// drawRejected builds a self-consistent block (hash matches content, passes the sanity check of the synchroniser) that
// Store must refuse. Returns the block, the kind and the reason. The "late" kinds pass the state-root verification, so the
// whole state diff is applied and flushed before the failure (CASM-hash bookkeeping of the block content) drops the batch.
func drawRejected(t *rapid.T, ch *gen.Chain) (*gen.Block, string, string) {
	u := ch.U
	h := ch.Height()
	kind := rapid.SampledFrom(rejectKinds).Draw(t, "rejectKind")
	if h == 0 && (kind == "wrong-parent" || kind == "wrong-height") {
		kind = "wrong-new-root"
	}
	if kind == "wrong-height" {
		// a valid sibling of the head block: the block another fork has at the height the node already filled
		b := ch.Fork(h - 1).Draw(t)
		return b, kind, fmt.Sprintf("block for height %d offered while the head is %d", b.Num(), h-1)
	}
	b := ch.Fork(h).Draw(t)
	d := b.SU.StateDiff
	num, version := b.Num(), b.B.ProtocolVersion
	correct := *b.SU.NewRoot
	wrongRoot := func() (*gen.Block, string, string) {
		var w felt.Felt
		switch rapid.IntRange(0, 2).Draw(t, "wrongRootKind") {
		case 0:
			w = *b.SU.OldRoot // "nothing changed"
		case 1:
			w = felt.Zero
		default:
			w = gen.NonZeroFelt().Draw(t, "wrongRoot")
		}
		if w.Equal(&correct) {
			w.Add(&correct, gen.FP(1))
		}
		setRoot(b, w, u)
		return b, "wrong-new-root", "declared new root " + w.ShortString() + " instead of " + correct.ShortString()
	}
	switch kind {
	case "wrong-parent":
		p := gen.NonZeroFelt().Draw(t, "wrongParent")
		if h >= 2 && rapid.Bool().Draw(t, "grandparent") {
			p = *ch.Blocks[h-2].B.Hash
		}
		if p.Equal(b.B.ParentHash) {
			p.Add(&p, gen.FP(1))
		}
		b.B.ParentHash = &p
		gen.Rehash(b, u.Net)
		return b, kind, "parent hash is not the head's hash"
	case "double-deploy":
		var addrs []felt.Felt
		for _, a := range b.Pre.SortedContracts() {
			if !b.Pre.Contracts[a].System {
				addrs = append(addrs, a)
			}
		}
		if len(addrs) == 0 {
			return wrongRoot()
		}
		a := rapid.SampledFrom(addrs).Draw(t, "redeployed")
		cls := b.Pre.Contracts[a].ClassHash
		if others := b.Pre.SortedClasses(); len(others) > 0 && rapid.Bool().Draw(t, "otherClass") {
			cls = rapid.SampledFrom(others).Draw(t, "redeployClass")
		}
		d.DeployedContracts[a] = &cls
		delete(d.ReplacedClasses, a)
		gen.Rehash(b, u.Net)
		return b, kind, "deploys the already deployed contract " + a.ShortString()
	case "late":
		if version != "0.14.1" {
			// a Sierra declaration whose definition is not delivered: both backends skip the class-trie leaf of such a class, the
			// root of the remaining diff verifies, the state is flushed; recording the class's CASM hashes then fails
			xs := sortedKeys(d.DeclaredV1Classes)
			if len(xs) == 0 {
				for _, s := range u.Sierra {
					if _, ok := b.Pre.Classes[s.Hash]; !ok {
						xs = append(xs, s.Hash)
					}
				}
			}
			if len(xs) == 0 {
				return wrongRoot()
			}
			x := rapid.SampledFrom(xs).Draw(t, "classWithoutDefinition")
			casm := u.SierraByHash(x).CasmV1
			d.DeclaredV1Classes[x] = &casm
			delete(b.Classes, x)
			rest := gen.CloneDiff(d)
			delete(rest.DeclaredV1Classes, x)
			post := b.Pre.Clone()
			if err := post.Apply(num, version, rest, b.Classes, u.CasmV2Of); err != nil {
				stats.HarnessError("model cannot apply the diff without class %s: %v", x.ShortString(), err)
			}
			setRoot(b, post.Commitment(version), u)
			return b, "late:class-without-definition", "declares Sierra class " + x.ShortString() + " without delivering its definition (v" + version + ")"
		}
		// 0.14.1: a CASM-hash migration the class cannot undergo. The class-trie leaf it writes is well defined (the blake2s hash),
		// the root verifies, the state is flushed; updating the class's CASM-hash record then fails.
		var again, undeclared []felt.Felt
		for _, x := range b.Pre.SortedClasses() {
			cl := b.Pre.Classes[x]
			if _, dup := d.MigratedClasses[felt.SierraClassHash(x)]; cl.Sierra && !dup && (cl.CasmV1 == nil || cl.MigratedAt > 0) {
				again = append(again, x)
			}
		}
		for _, s := range u.Sierra {
			_, declared := b.Pre.Classes[s.Hash]
			_, declaring := d.DeclaredV1Classes[s.Hash]
			if !declared && !declaring {
				undeclared = append(undeclared, s.Hash)
			}
		}
		if len(again) > 0 && (len(undeclared) == 0 || rapid.Bool().Draw(t, "migrateAgain")) {
			x := rapid.SampledFrom(again).Draw(t, "migratedAgain")
			d.MigratedClasses[felt.SierraClassHash(x)] = felt.CasmClassHash(b.Pre.Classes[x].CasmV2)
			gen.Rehash(b, u.Net) // the leaf keeps its value: the root of the block is unchanged
			return b, "late:migrates-class-already-on-v2-hash", "migrates class " + x.ShortString() + " whose compiled class hash is already the blake2s one"
		}
		if len(undeclared) == 0 {
			return wrongRoot()
		}
		x := rapid.SampledFrom(undeclared).Draw(t, "migratedUndeclared")
		v2 := u.CasmV2Of(x)
		d.MigratedClasses[felt.SierraClassHash(x)] = felt.CasmClassHash(v2)
		post := b.Post.Clone()
		post.Classes[x] = &ref.Class{Sierra: true, CasmV2: v2} // only to compute the root with the leaf the migration writes
		setRoot(b, post.Commitment(version), u)
		return b, "late:migrates-undeclared-class", "migrates class " + x.ShortString() + " that was never declared"
	}
	return wrongRoot()
}

func TestPropHistoricalReads(t *testing.T) {
	stats.Check(t, stats.Budget{Quick: 60, Thorough: 1200},
		"rapid state machine store(next generated block | a candidate that was dry-run before; through Store or through Finalise)/revertHead/restart/dryRun(Simulate a generated candidate for head+1 that is then dropped)/storeRejected(a block Store must refuse: wrong new root, failure after the state diff was flushed, double deploy, wrong parent/height) on a legacy and a trie2 node fed the same history (reverts followed by different blocks = forks), memory or Pebble; after every step EVERY retained block (by number and by hash) and the head are read for every contract, slot (plus never-written slots), class and compiled class hash of the universe and compared with the abstract-state snapshot of that block (which a dry run / rejected store does not change); non-trivial = some slot is written in >= 2 retained blocks with a query between them, or the chain was extended after a revert, or a block was stored at a height for which a different block had been dry-run/rejected",
		func(rt *rapid.T, c *stats.Case) {
			u := gen.NewUniverse(rt)
			ch := gen.NewChain(u, gen.Opts{MaxTxs: 2, MinVersionIdx: rapid.IntRange(0, 3).Draw(rt, "minver")})
			// a third of the cases run on the production store (pebble v2): its prefix iterators honour the upper-bound flag
			// that the memory store ignores, and the history readers are built on them
			var nodes []*node.Node
			if rapid.IntRange(0, 2).Draw(rt, "pebble") == 0 {
				c.Label("pebble")
				for _, ns := range []bool{false, true} {
					d := pebbleScratch()
					pdb, err := pebblev2.New(filepath.Join(d, "db"))
					if err != nil {
						stats.HarnessError("pebble open: %v", err)
					}
					defer func() { _ = pdb.Close(); os.RemoveAll(d) }()
					nodes = append(nodes, node.New(ns, pdb, u.Net))
				}
			} else {
				nodes = []*node.Node{node.New(false, nil, u.Net), node.New(true, nil, u.Net)}
			}
			extra := []felt.Felt{gen.F(0xdead0001), gen.F(0)}
			cks := []*checker{{c: c, u: u, n: nodes[0], extraK: extra}, {c: c, u: u, n: nodes[1], extraK: extra}}
			reverted := false

			// candidates that were dry-run and not (yet) stored; ghosts = hashes of the blocks that were applied but not stored, per
			// height; ghostDecl = lowest height at which a not-stored block declared a class
			var cands []*gen.Block
			ghosts := map[uint64][]felt.Felt{}
			ghostDecl := map[felt.Felt]uint64{}
			remember := func(b *gen.Block) {
				ghosts[b.Num()] = append(ghosts[b.Num()], *b.B.Hash)
				for h := range b.Classes {
					if at, ok := ghostDecl[h]; !ok || b.Num() < at {
						ghostDecl[h] = b.Num()
					}
				}
			}
			fitsHead := func(b *gen.Block) bool {
				h := ch.Height()
				if b.Num() != uint64(h) {
					return false
				}
				if h == 0 {
					return b.B.ParentHash.IsZero()
				}
				return b.B.ParentHash.Equal(ch.Blocks[h-1].B.Hash)
			}
			sweepAll := func(step string) {
				for _, k := range cks {
					k.sweep(ch, step)
				}
			}

			store := func(t *rapid.T) {
				if ch.Height() >= 9 {
					t.Skip()
				}
				// readers of the current head block (by number and by hash) are opened BEFORE the store and must keep
				// answering as of that block afterwards (they are views of a block, not of the moving head)
				type held struct {
					k      *checker
					r      core.StateReader
					closer func() error
					how    string
				}
				var helds []held
				var prev *gen.Block
				if ch.Height() > 0 && rapid.IntRange(0, 2).Draw(t, "holdReaders") == 0 {
					prev = ch.Blocks[ch.Height()-1]
					for _, k := range cks {
						if r, cl, err := k.n.BC.StateAtBlockNumber(prev.Num()); err == nil {
							helds = append(helds, held{k, r, cl, "by number"})
						}
						if r, cl, err := k.n.BC.StateAtBlockHash(prev.B.Hash); err == nil {
							helds = append(helds, held{k, r, cl, "by hash"})
						}
					}
					c.Label("reader-held-across-store")
				}
				// the block: freshly generated, or one of the candidates that were dry-run on this very parent (the builder's
				// Simulate-then-Finalise flow; after a revert also a candidate that had lost against another block first)
				var fitting []*gen.Block
				for _, cand := range cands {
					if fitsHead(cand) {
						fitting = append(fitting, cand)
					}
				}
				var b *gen.Block
				if len(fitting) > 0 && rapid.IntRange(0, 2).Draw(t, "storeCandidate") == 0 {
					b = rapid.SampledFrom(fitting).Draw(t, "candidate")
					ch.Blocks = append(ch.Blocks, b)
					ch = ch.Fork(ch.Height()) // continue with the candidate's protocol version / a fresh nonce space
					c.Label("stored-a-dry-run-candidate")
					c.Fp("store-candidate %s", b.B.Hash.ShortString())
				} else {
					b = ch.Next(t)
				}
				viaFinalise := rapid.IntRange(0, 3).Draw(t, "viaFinalise") == 0
				var sign core.BlockSignFunc
				if viaFinalise && rapid.Bool().Draw(t, "signed") {
					sign = func(blockHash, _ *felt.Felt) ([]*felt.Felt, error) { return []*felt.Felt{gen.FP(1), blockHash}, nil }
				}
				c.Fp("store %d %v %s", b.Num(), viaFinalise, gen.DiffString(b.SU.StateDiff))
				defer func() {
					for _, h := range helds {
						h.k.compareView(fmt.Sprintf("reader of block %d opened %s while it was the head, read after block %d was stored", prev.Num(), h.how, b.Num()), h.r, prev.Post, true)
						_ = h.closer()
					}
				}()
				for tag := range b.Tags {
					c.Label("blk:" + tag)
				}
				for _, g := range ghosts[b.Num()] {
					if !g.Equal(b.B.Hash) {
						c.NonTrivial("different-block-stored-where-one-was-dry-run-or-rejected")
					}
				}
				for h := range b.Classes {
					if at, ok := ghostDecl[h]; ok && at < b.Num() {
						c.Label("class-declared-later-than-a-dropped-block-declared-it")
					}
				}
				for _, n := range nodes {
					if viaFinalise {
						// the sequencer's path: juno computes roots and hash itself
						c.Label("store-via-finalise")
						fb := forSequencer(b)
						if err := n.BC.Finalise(fb.B, fb.SU, fb.Classes, sign); err != nil {
							c.Violation("valid-block-rejected", "%s: Finalise of valid block %d: %v", n.Backend(), b.Num(), err)
						}
						if !fb.B.Hash.Equal(b.B.Hash) || !fb.B.GlobalStateRoot.Equal(b.B.GlobalStateRoot) {
							c.Violation("finalise-differs-from-reference", "%s: Finalise of block %d produced root %s hash %s; reference root %s hash %s",
								n.Backend(), b.Num(), fb.B.GlobalStateRoot.ShortString(), fb.B.Hash.ShortString(), b.B.GlobalStateRoot.ShortString(), b.B.Hash.ShortString())
						}
					} else if err := n.Store(b); err != nil {
						c.Violation("valid-block-rejected", "%s rejected valid block %d: %v", n.Backend(), b.Num(), err)
					}
				}
				if reverted {
					c.NonTrivial("extended-after-revert")
				}
				sweepAll(fmt.Sprintf("after store %d", b.Num()))
			}
			revert := func(t *rapid.T) {
				if ch.Height() == 0 {
					t.Skip()
				}
				c.Fp("revert %d", ch.Height()-1)
				for _, n := range nodes {
					if err := n.BC.RevertHead(); err != nil {
						c.Violation("revert-failed", "%s RevertHead(%d): %v", n.Backend(), ch.Height()-1, err)
					}
				}
				ch = ch.Fork(ch.Height() - 1)
				reverted = true
				c.Label("revert")
				sweepAll("after revert")
			}
			dryRun := func(t *rapid.T) {
				// real callers (builder.InitPreconfirmedBlock) build on an existing head
				if ch.Height() == 0 || ch.Height() >= 9 {
					t.Skip()
				}
				// a fresh candidate for head+1, or once more one of the candidates already tried on this parent (next round)
				var b *gen.Block
				var fitting []*gen.Block
				for _, cand := range cands {
					if fitsHead(cand) {
						fitting = append(fitting, cand)
					}
				}
				if len(fitting) > 0 && rapid.IntRange(0, 4).Draw(t, "simulateAgain") == 0 {
					b = rapid.SampledFrom(fitting).Draw(t, "candidate")
					c.Label("dry-run:same-candidate-again")
				} else {
					b = ch.Fork(ch.Height()).Draw(t)
					cands = append(cands, b)
					if len(cands) > 6 {
						cands = cands[1:]
					}
					if len(fitting) > 0 {
						c.Label("dry-run:several-candidates-for-one-height")
					}
				}
				c.Fp("dry-run %d %s", b.Num(), gen.DiffString(b.SU.StateDiff))
				c.Label("dry-run")
				diffClasses(c, "dry-run", b.SU.StateDiff)
				remember(b)
				for _, n := range nodes {
					sb := forSequencer(b)
					if _, err := n.BC.Simulate(sb.B, sb.SU, sb.Classes, nil); err != nil {
						c.Violation("simulate-failed", "%s: Simulate of a valid candidate for block %d: %v", n.Backend(), b.Num(), err)
					}
					// "returns what the new completed header and state update would be if the provided block was added to the chain"
					if !sb.B.GlobalStateRoot.Equal(b.B.GlobalStateRoot) {
						c.Violation("simulate-root", "%s: Simulate of candidate %d computed state root %s; reference %s (diff %s)", n.Backend(), b.Num(),
							sb.B.GlobalStateRoot.ShortString(), b.B.GlobalStateRoot.ShortString(), gen.DiffString(b.SU.StateDiff))
					}
				}
				sweepAll(fmt.Sprintf("after the dry run of a candidate for block %d (%s)", b.Num(), gen.DiffString(b.SU.StateDiff)))
			}
			storeRejected := func(t *rapid.T) {
				if ch.Height() >= 9 {
					t.Skip()
				}
				var b *gen.Block
				var kind, why string
				// a candidate that was dry-run on a parent that is no longer the head (stale proposal), else a generated invalid block
				var stale []*gen.Block
				for _, cand := range cands {
					if !fitsHead(cand) {
						stale = append(stale, cand)
					}
				}
				if len(stale) > 0 && rapid.IntRange(0, 5).Draw(t, "offerStale") == 0 {
					b = rapid.SampledFrom(stale).Draw(t, "stale")
					kind, why = "stale-candidate", fmt.Sprintf("candidate for height %d built on a block that is not the head", b.Num())
				} else {
					b, kind, why = drawRejected(t, ch)
				}
				c.Fp("rejected %s %d %s", kind, b.Num(), gen.DiffString(b.SU.StateDiff))
				c.Label("store-rejected")
				c.Label("store-rejected:" + kind)
				if strings.HasPrefix(kind, "late:") || kind == "wrong-new-root" {
					diffClasses(c, "store-rejected", b.SU.StateDiff)
				}
				remember(b)
				for _, n := range nodes {
					if err := n.Store(gen.CloneBlock(b)); err == nil {
						c.Violation("invalid-block-accepted", "%s accepted block %d that %s (diff %s)", n.Backend(), b.Num(), why, gen.DiffString(b.SU.StateDiff))
					}
				}
				sweepAll(fmt.Sprintf("after the rejected store of block %d that %s (diff %s)", b.Num(), why, gen.DiffString(b.SU.StateDiff)))
			}
			restart := func(t *rapid.T) {
				c.Fp("restart")
				for _, n := range nodes {
					n.Reopen()
				}
				sweepAll("after restart")
			}
			// rapid picks the action uniformly by name: store and revert keep their weight against each other (the chain is a random
			// walk over 0..9 blocks), a quarter of the steps are dry runs, an eighth rejected stores
			rt.Repeat(map[string]func(*rapid.T){
				"store": store, "store.": store,
				"revert": revert, "revert.": revert,
				"dryRun": dryRun, "dryRun.": dryRun,
				"storeRejected": storeRejected,
				"restart":       restart,
			})
			// slot rewritten in >= 2 retained blocks?
			writes := map[string]int{}
			for _, b := range ch.Blocks {
				for a, kv := range b.SU.StateDiff.StorageDiffs {
					for key := range kv {
						writes[a.String()+"/"+key.String()]++
					}
				}
			}
			for _, n := range writes {
				if n >= 2 && ch.Height() >= 3 {
					c.NonTrivial("slot-written-in-several-blocks")
					break
				}
			}
			c.Info("state-reads")
			c.Sample(func() any {
				var bl []string
				for _, b := range ch.Blocks {
					bl = append(bl, fmt.Sprintf("#%d v%s %s", b.Num(), b.B.ProtocolVersion, gen.DiffString(b.SU.StateDiff)))
				}
				return map[string]any{"final_chain": bl, "reads_legacy": cks[0].reads, "reads_trie2": cks[1].reads}
			})
		})
}
