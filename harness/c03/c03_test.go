// Package c03: head and historical state reads equal the state as of the requested block (property C03).
package c03

import (
	"os"
	"path/filepath"

	"encoding/json"
	"errors"
	"fmt"
	"github.com/NethermindEth/juno/db/pebblev2"
	"testing"

	"github.com/NethermindEth/juno/core"
	"github.com/NethermindEth/juno/core/felt"
	"github.com/NethermindEth/juno/db"
	"pgregory.net/rapid"

	"verif/harness/internal/gen"
	"verif/harness/internal/node"
	"verif/harness/internal/ref"
	"verif/harness/internal/stats"
)

func TestMain(m *testing.M) { stats.Main(m) }

type checker struct {
	c      *stats.Case
	u      *gen.Universe
	n      *node.Node
	reads  int
	extraK []felt.Felt // never-written slots
}

func pebbleScratch() string {
	base := ""
	if st, err := os.Stat("/dev/shm"); err == nil && st.IsDir() {
		base = "/dev/shm"
	}
	d, err := os.MkdirTemp(base, "verif-c03-")
	if err != nil {
		stats.HarnessError("mkdtemp: %v", err)
	}
	return d
}

func notFound(err error) bool { return errors.Is(err, db.ErrKeyNotFound) }

// compare one state view with the model state `st` (the abstract state as of that block).
func (k *checker) compare(where string, r core.StateReader, st *ref.State) {
	k.compareView(where, r, st, false)
}

// compareView: historical = the reader was obtained by block number or hash (it must report a contract that did not
// exist at that block as not found, also for storage reads; only the head reader is allowed to answer zero there).
func (k *checker) compareView(where string, r core.StateReader, st *ref.State, historical bool) {
	c := k.c
	for _, a := range k.u.AllAddrs() {
		a := a
		ct, exists := st.Contracts[a]
		ch, err := r.ContractClassHash(&a)
		k.reads++
		if exists {
			if err != nil || !ch.Equal(&ct.ClassHash) {
				c.Violation("class-hash", "%s %s: ContractClassHash(%s) = %s, %v; model %s", k.n.Backend(), where, a.ShortString(), ch.ShortString(), err, ct.ClassHash.ShortString())
			}
		} else if !notFound(err) {
			c.Violation("class-hash-of-missing-contract", "%s %s: ContractClassHash(%s) = %s, %v; contract does not exist in the model (want not found)", k.n.Backend(), where, a.ShortString(), ch.ShortString(), err)
		}
		nn, err := r.ContractNonce(&a)
		k.reads++
		if exists {
			if err != nil || !nn.Equal(&ct.Nonce) {
				c.Violation("nonce", "%s %s: ContractNonce(%s) = %s, %v; model %s", k.n.Backend(), where, a.ShortString(), nn.ShortString(), err, ct.Nonce.ShortString())
			}
		} else if !notFound(err) {
			c.Violation("nonce-of-missing-contract", "%s %s: ContractNonce(%s) = %s, %v; contract does not exist in the model", k.n.Backend(), where, a.ShortString(), nn.ShortString(), err)
		}
		for _, key := range append(append([]felt.Felt{}, k.u.Keys...), k.extraK...) {
			key := key
			v, err := r.ContractStorage(&a, &key)
			k.reads++
			if exists {
				want := ct.Storage[key]
				if err != nil || !v.Equal(&want) {
					c.Violation("storage", "%s %s: ContractStorage(%s, %s) = %s, %v; model %s", k.n.Backend(), where, a.ShortString(), key.ShortString(), v.ShortString(), err, want.ShortString())
				}
			} else {
				// tolerance (DESIGN §4 C03): the HEAD reader answers zero for storage of a contract that does not exist;
				// readers of a given block report it as not found (the property's wording, and what RPC v0.10 relies on)
				if !(notFound(err) || (!historical && err == nil && v.IsZero())) {
					c.Violation("storage-of-missing-contract", "%s %s: ContractStorage(%s, %s) = %s, %v; contract does not exist in the model", k.n.Backend(), where, a.ShortString(), key.ShortString(), v.ShortString(), err)
				}
			}
		}
	}
	check := func(h felt.Felt, isSierra bool) {
		cl, declared := st.Classes[h]
		d, err := r.Class(&h)
		k.reads++
		if declared {
			if err != nil {
				c.Violation("class", "%s %s: Class(%s): %v; model: declared at %d", k.n.Backend(), where, h.ShortString(), err, cl.DeclaredAt)
			}
			if d.At != cl.DeclaredAt {
				c.Violation("class-declared-at", "%s %s: Class(%s).At = %d; model %d", k.n.Backend(), where, h.ShortString(), d.At, cl.DeclaredAt)
			}
			got, _ := json.Marshal(d.Class)
			want, _ := json.Marshal(cl.Def)
			if string(got) != string(want) {
				c.Violation("class-definition", "%s %s: Class(%s) definition differs from the declared one", k.n.Backend(), where, h.ShortString())
			}
		} else if !notFound(err) {
			c.Violation("class-not-yet-declared", "%s %s: Class(%s) = %v, %v; not declared in the model at this block", k.n.Backend(), where, h.ShortString(), d, err)
		}
		if !isSierra {
			return
		}
		sh := felt.SierraClassHash(h)
		casm, err := r.CompiledClassHash(&sh)
		k.reads++
		if declared {
			want := cl.CurrentCasm()
			if err != nil || !(*felt.Felt)(&casm).Equal(&want) {
				c.Violation("compiled-class-hash", "%s %s: CompiledClassHash(%s) = %s, %v; model %s (v1 %v migratedAt %d)", k.n.Backend(), where, h.ShortString(), (*felt.Felt)(&casm).ShortString(), err, want.ShortString(), cl.CasmV1 != nil, cl.MigratedAt)
			}
			casm2, err := r.CompiledClassHashV2(&sh)
			if err != nil || !(*felt.Felt)(&casm2).Equal(&cl.CasmV2) {
				c.Violation("compiled-class-hash-v2", "%s %s: CompiledClassHashV2(%s) = %s, %v; model %s", k.n.Backend(), where, h.ShortString(), (*felt.Felt)(&casm2).ShortString(), err, cl.CasmV2.ShortString())
			}
		} else if err == nil {
			c.Violation("compiled-class-hash-of-undeclared", "%s %s: CompiledClassHash(%s) = %s for a class not declared at this block", k.n.Backend(), where, h.ShortString(), (*felt.Felt)(&casm).ShortString())
		}
	}
	for _, s := range k.u.Sierra {
		check(s.Hash, true)
	}
	for _, s := range k.u.Cairo0 {
		check(s.Hash, false)
	}
}

func (k *checker) sweep(ch *gen.Chain, step string) {
	c := k.c
	bc := k.n.BC
	if ch.Height() == 0 {
		if _, err := bc.Height(); err == nil {
			c.Violation("height", "%s %s: Height() succeeds on an empty chain", k.n.Backend(), step)
		}
		return
	}
	h, err := bc.Height()
	if err != nil || h != uint64(ch.Height()-1) {
		c.Violation("height", "%s %s: Height() = %d, %v; model %d", k.n.Backend(), step, h, err, ch.Height()-1)
	}
	sr, closer, err := bc.HeadState()
	if err != nil {
		c.Violation("head-state", "%s %s: HeadState: %v", k.n.Backend(), step, err)
	}
	k.compare(step+" head", sr, ch.TipState())
	_ = closer()
	for _, b := range ch.Blocks {
		sr, closer, err := bc.StateAtBlockNumber(b.Num())
		if err != nil {
			c.Violation("state-at-number", "%s %s: StateAtBlockNumber(%d): %v", k.n.Backend(), step, b.Num(), err)
		}
		k.compareView(fmt.Sprintf("%s @%d", step, b.Num()), sr, b.Post, true)
		_ = closer()
		sr, closer, err = bc.StateAtBlockHash(b.B.Hash)
		if err != nil {
			c.Violation("state-at-hash", "%s %s: StateAtBlockHash(block %d): %v", k.n.Backend(), step, b.Num(), err)
		}
		k.compareView(fmt.Sprintf("%s @hash(%d)", step, b.Num()), sr, b.Post, true)
		_ = closer()
	}
	if _, _, err := bc.StateAtBlockNumber(uint64(ch.Height())); err == nil {
		c.Violation("state-beyond-head", "%s %s: StateAtBlockNumber(head+1) succeeded", k.n.Backend(), step)
	}
}

func TestPropHistoricalReads(t *testing.T) {
	stats.Check(t, stats.Budget{Quick: 45, Thorough: 1200},
		"rapid state machine store(next generated block)/revertHead/queryAll on a legacy and a trie2 node fed the same history (reverts followed by different blocks = forks); after every step EVERY retained block (by number and by hash) and the head are read for every contract, slot (plus never-written slots), class and compiled class hash of the universe and compared with the abstract-state snapshot of that block; non-trivial = some slot is written in >= 2 retained blocks with a query between them, or the chain was extended after a revert",
		func(rt *rapid.T, c *stats.Case) {
			u := gen.NewUniverse(rt)
			ch := gen.NewChain(u, gen.Opts{MaxTxs: 2, MinVersionIdx: rapid.IntRange(0, 3).Draw(rt, "minver")})
			// a third of the cases run on the production store (pebble v2): its prefix iterators honour the upper-bound flag
			// that the memory store ignores, and the history readers are built on them
			var nodes []*node.Node
			if rapid.IntRange(0, 2).Draw(rt, "pebble") == 0 {
				c.Label("pebble")
				for _, ns := range []bool{false, true} {
					d := pebbleScratch()
					pdb, err := pebblev2.New(filepath.Join(d, "db"))
					if err != nil {
						stats.HarnessError("pebble open: %v", err)
					}
					defer func() { _ = pdb.Close(); os.RemoveAll(d) }()
					nodes = append(nodes, node.New(ns, pdb, u.Net))
				}
			} else {
				nodes = []*node.Node{node.New(false, nil, u.Net), node.New(true, nil, u.Net)}
			}
			extra := []felt.Felt{gen.F(0xdead0001), gen.F(0)}
			cks := []*checker{{c: c, u: u, n: nodes[0], extraK: extra}, {c: c, u: u, n: nodes[1], extraK: extra}}
			reverted := false
			rt.Repeat(map[string]func(*rapid.T){
				"store": func(t *rapid.T) {
					if ch.Height() >= 9 {
						t.Skip()
					}
					// readers of the current head block (by number and by hash) are opened BEFORE the store and must keep
					// answering as of that block afterwards (they are views of a block, not of the moving head)
					type held struct {
						k      *checker
						r      core.StateReader
						closer func() error
						how    string
					}
					var helds []held
					var prev *gen.Block
					if ch.Height() > 0 && rapid.IntRange(0, 2).Draw(t, "holdReaders") == 0 {
						prev = ch.Blocks[ch.Height()-1]
						for _, k := range cks {
							if r, cl, err := k.n.BC.StateAtBlockNumber(prev.Num()); err == nil {
								helds = append(helds, held{k, r, cl, "by number"})
							}
							if r, cl, err := k.n.BC.StateAtBlockHash(prev.B.Hash); err == nil {
								helds = append(helds, held{k, r, cl, "by hash"})
							}
						}
						c.Label("reader-held-across-store")
					}
					b := ch.Next(t)
					c.Fp("store %d %s", b.Num(), gen.DiffString(b.SU.StateDiff))
					defer func() {
						for _, h := range helds {
							h.k.compareView(fmt.Sprintf("reader of block %d opened %s while it was the head, read after block %d was stored", prev.Num(), h.how, b.Num()), h.r, prev.Post, true)
							_ = h.closer()
						}
					}()
					for tag := range b.Tags {
						c.Label("blk:" + tag)
					}
					for _, n := range nodes {
						if err := n.Store(b); err != nil {
							c.Violation("valid-block-rejected", "%s rejected valid block %d: %v", n.Backend(), b.Num(), err)
						}
					}
					if reverted {
						c.NonTrivial("extended-after-revert")
					}
					for _, k := range cks {
						k.sweep(ch, fmt.Sprintf("after store %d", b.Num()))
					}
				},
				"revert": func(t *rapid.T) {
					if ch.Height() == 0 {
						t.Skip()
					}
					c.Fp("revert %d", ch.Height()-1)
					for _, n := range nodes {
						if err := n.BC.RevertHead(); err != nil {
							c.Violation("revert-failed", "%s RevertHead(%d): %v", n.Backend(), ch.Height()-1, err)
						}
					}
					ch = ch.Fork(ch.Height() - 1)
					reverted = true
					c.Label("revert")
					for _, k := range cks {
						k.sweep(ch, "after revert")
					}
				},
				"restart": func(t *rapid.T) {
					c.Fp("restart")
					for _, n := range nodes {
						n.Reopen()
					}
					for _, k := range cks {
						k.sweep(ch, "after restart")
					}
				},
			})
			// slot rewritten in >= 2 retained blocks?
			writes := map[string]int{}
			for _, b := range ch.Blocks {
				for a, kv := range b.SU.StateDiff.StorageDiffs {
					for key := range kv {
						writes[a.String()+"/"+key.String()]++
					}
				}
			}
			for _, n := range writes {
				if n >= 2 && ch.Height() >= 3 {
					c.NonTrivial("slot-written-in-several-blocks")
					break
				}
			}
			c.Info("state-reads")
			c.Sample(func() any {
				var bl []string
				for _, b := range ch.Blocks {
					bl = append(bl, fmt.Sprintf("#%d v%s %s", b.Num(), b.B.ProtocolVersion, gen.DiffString(b.SU.StateDiff)))
				}
				return map[string]any{"final_chain": bl, "reads_legacy": cks[0].reads, "reads_trie2": cks[1].reads}
			})
		})
}
