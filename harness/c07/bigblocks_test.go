package c07

import (
	"fmt"
	"os"
	"path/filepath"
	"reflect"
	"testing"

	"github.com/NethermindEth/juno/core"
	"github.com/NethermindEth/juno/core/felt"
	"github.com/NethermindEth/juno/db"
	"github.com/NethermindEth/juno/db/memory"
	"github.com/NethermindEth/juno/db/pebblev2"
	"pgregory.net/rapid"

	"verif/harness/internal/gen"
	"verif/harness/internal/stats"
)

// Blocks with MANY transactions (added after seed C07-g: every other test of this package stores at most 40, thorough 257,
// transactions per block - a size range the code does not impose; mainnet blocks carry thousands). The combined
// transactions+receipts entry of a block is one lazily decoded indexed blob: any size-switched path of its encoder, of the
// bulk decoders (LazySlice.All, iterators) or of the offset table only runs on blocks of this size.

// bigCounts: transaction counts around powers of two, chunking thresholds and the CBOR array / byte-string header widths.
func bigCounts() []int {
	base := []int{255, 256, 257, 511, 512, 513, 1000, 1001, 1023, 1024, 1025, 1207, 2047, 2048, 2049}
	if stats.Thorough() {
		base = append(base, 4095, 4096, 4097, 8191, 8193, 10007)
	}
	return base
}

// withHash returns a shallow copy of tx carrying the given hash (accessor level: hashes are identifiers, nothing recomputes them).
func withHash(tx core.Transaction, h *felt.Felt) core.Transaction {
	switch t := tx.(type) {
	case *core.InvokeTransaction:
		c := *t
		c.TransactionHash = h
		return &c
	case *core.DeclareTransaction:
		c := *t
		c.TransactionHash = h
		return &c
	case *core.DeployAccountTransaction:
		c := *t
		d := c.DeployTransaction
		d.TransactionHash = h
		c.DeployTransaction = d
		return &c
	case *core.DeployTransaction:
		c := *t
		c.TransactionHash = h
		return &c
	case *core.L1HandlerTransaction:
		c := *t
		c.TransactionHash = h
		return &c
	}
	stats.HarnessError("withHash: unknown transaction type %T", tx)
	return nil
}

func TestPropBigBlocksRoundTrip(t *testing.T) {
	stats.Check(t, stats.Budget{Quick: 8, Thorough: 250},
		"blocks of 255..2049 (thorough ..10007) transactions: counts around powers of two, plus a drawn offset 0..9 and drawn free counts, tiled from a drawn pool of 3-12 (transaction, receipt) pairs of all kinds with per-index unique hashes; 1-2 such blocks and a small neighbour block written with core.Write* on memory / Pebble v2 (flushed to a table and reopened in half of those), read through every bulk accessor (transactions, receipts, combined, block, hash / events / status projections, iterator) with EVERY element compared, by (block, index) and by hash at the first, last and chunk-boundary indexes, one past the end = not found; non-trivial = a block of >= 512 transactions whose count is not a multiple of 8",
		func(rt *rapid.T, c *stats.Case) {
			u := gen.NewUniverse(rt)
			ch := gen.NewChain(u, gen.Opts{MaxTxs: 12})
			var database db.KeyValueStore = memory.New()
			dir := ""
			if rapid.IntRange(0, 2).Draw(rt, "pebble") == 0 {
				dir = scratch()
				defer os.RemoveAll(dir)
				p, err := pebblev2.New(filepath.Join(dir, "db"))
				if err != nil {
					stats.HarnessError("pebble: %v", err)
				}
				database = p
				c.Label("pebble")
			}
			defer func() { database.Close() }()

			type big struct {
				num  uint64
				txs  []core.Transaction
				rcs  []*core.TransactionReceipt
				pool int
				ctx  []any // canonical rendering of pool transactions (hash blanked)
				crc  []any
				h    *core.Header
			}
			zero := felt.Zero
			drawBig := func(num uint64, n int) *big {
				k := rapid.IntRange(3, 12).Draw(rt, "pool")
				b := &big{num: num, pool: k}
				var ptx []core.Transaction
				var prc []*core.TransactionReceipt
				ver := rapid.SampledFrom(gen.Versions).Draw(rt, "txver")
				for j := 0; j < k; j++ {
					tx := ch.DrawTx(rt, ver)
					rc := ch.DrawReceipt(rt, tx)
					if rapid.IntRange(0, 5).Draw(rt, "nilres") == 0 {
						rc.ExecutionResources = nil
					}
					ptx, prc = append(ptx, tx), append(prc, rc)
					r0 := *rc
					r0.TransactionHash = &zero
					b.ctx, b.crc = append(b.ctx, canon(withHash(tx, &zero))), append(b.crc, canon(&r0))
				}
				evs := uint64(0)
				for i := 0; i < n; i++ {
					h := uniqueHash(num, gen.F(uint64(i+1)))
					tx := withHash(ptx[i%k], &h)
					rc := *prc[i%k]
					rc.TransactionHash = &h
					evs += uint64(len(rc.Events))
					b.txs, b.rcs = append(b.txs, tx), append(b.rcs, &rc)
				}
				b.h = arbitraryHeader(rt, num, uint64(n), evs)
				return b
			}
			nbig := rapid.IntRange(1, 2).Draw(rt, "nbig")
			var bigs []*big
			nontrivial := false
			for i := 0; i < nbig; i++ {
				cs := bigCounts()
				n := cs[gen.Uniform(rt, len(cs), "count")]
				switch rapid.IntRange(0, 3).Draw(rt, "countMode") {
				case 0:
					n += rapid.IntRange(0, 9).Draw(rt, "offset")
				case 1:
					n = rapid.IntRange(258, cs[len(cs)-1]).Draw(rt, "free")
				}
				if n >= 512 && n%8 != 0 {
					nontrivial = true
				}
				c.Labelf("txs:%s", bucketBig(n))
				bigs = append(bigs, drawBig(uint64(1000+i*3), n))
				c.Fp("big %d pool %d", n, bigs[i].pool)
			}
			if nontrivial {
				c.NonTrivial("block-of->=512-transactions-not-multiple-of-8")
			}
			small := drawRec(rt, c, u, ch, 1001, []int{0, 1, 3, 12}, false)
			order := rapid.Permutation([]int{0, 1, 2}[:nbig+1]).Draw(rt, "writeOrder")
			for _, o := range order {
				var err error
				if o == nbig {
					err = database.Write(func(w db.Batch) error { return writeRec(w, small) })
				} else {
					b := bigs[o]
					err = database.Write(func(w db.Batch) error {
						if err := core.WriteBlockHeader(w, b.h); err != nil {
							return err
						}
						return core.WriteTransactionsAndReceipts(w, b.num, b.txs, b.rcs)
					})
				}
				if err != nil {
					c.Violation("write-failed", "writing block: %v", err)
				}
			}
			if dir != "" && rapid.Bool().Draw(rt, "reopen") {
				if err := database.Close(); err != nil {
					c.Violation("close", "close: %v", err)
				}
				p, err := pebblev2.New(filepath.Join(dir, "db"))
				if err != nil {
					c.Violation("reopen", "reopen: %v", err)
				}
				database = p
				c.Label("reopened")
			}

			for _, b := range bigs {
				n := len(b.txs)
				okTx := func(got core.Transaction, i int) bool {
					if got == nil || reflect.ValueOf(got).IsNil() || got.Hash() == nil || !got.Hash().Equal(b.txs[i].Hash()) {
						return false
					}
					return reflect.DeepEqual(canon(withHash(got, &zero)), b.ctx[i%b.pool])
				}
				okRc := func(got *core.TransactionReceipt, i int) bool {
					if got == nil || got.TransactionHash == nil || !got.TransactionHash.Equal(b.rcs[i].TransactionHash) {
						return false
					}
					g := *got
					g.TransactionHash = &zero
					return reflect.DeepEqual(canon(&g), b.crc[i%b.pool])
				}
				allTx := func(how string, got []core.Transaction, err error) {
					if err != nil || len(got) != n {
						c.Violation("big-"+how, "block of %d transactions: %s returned %d transactions (%v)", n, how, len(got), err)
					}
					for i := range got {
						if !okTx(got[i], i) {
							c.Violation("big-"+how, "block of %d transactions: %s: transaction %d differs from the stored one: %s vs %s", n, how, i, show(got[i]), show(b.txs[i]))
						}
					}
				}
				allRc := func(how string, got []*core.TransactionReceipt, err error) {
					if err != nil || len(got) != n {
						c.Violation("big-"+how, "block of %d transactions: %s returned %d receipts (%v)", n, how, len(got), err)
					}
					for i := range got {
						if !okRc(got[i], i) {
							c.Violation("big-"+how, "block of %d transactions: %s: receipt %d differs from the stored one: %s vs %s", n, how, i, show(got[i]), show(b.rcs[i]))
						}
					}
				}
				txs, err := core.GetTransactionsByBlockNumber(database, b.num)
				allTx("txs-by-block", txs, err)
				rcs, err := core.GetReceiptsByBlockNumber(database, b.num)
				allRc("receipts-by-block", rcs, err)
				t2, r2, err := core.GetTransactionsAndReceiptsByBlockNumber(database, b.num)
				allTx("txs+receipts-by-block", t2, err)
				allRc("txs+receipts-by-block", r2, err)
				blk, err := core.GetBlockByNumber(database, b.num)
				if err != nil {
					c.Violation("big-block-by-number", "block of %d transactions: GetBlockByNumber: %v", n, err)
				}
				allTx("block-by-number", blk.Transactions, nil)
				allRc("block-by-number", blk.Receipts, nil)
				hs, err := core.GetTransactionHashesByBlockNumber(database, b.num)
				if err != nil || len(hs) != n {
					c.Violation("big-tx-hashes", "block of %d transactions: %d hashes (%v)", n, len(hs), err)
				}
				evs, err := core.GetTransactionEventsByBlockNumber(database, b.num)
				if err != nil || len(evs) != n {
					c.Violation("big-tx-events", "block of %d transactions: %d event projections (%v)", n, len(evs), err)
				}
				for i := 0; i < n; i++ {
					if !hs[i].Equal(b.txs[i].Hash()) {
						c.Violation("big-tx-hashes", "block of %d transactions: hash projection %d = %s, stored %s", n, i, hs[i].String(), b.txs[i].Hash().String())
					}
					if evs[i].TransactionHash == nil || !evs[i].TransactionHash.Equal(b.txs[i].Hash()) || len(evs[i].Events) != len(b.rcs[i].Events) {
						c.Violation("big-tx-events", "block of %d transactions: events projection %d = %s, receipt has %d events", n, i, show(evs[i]), len(b.rcs[i].Events))
					}
				}
				i := 0
				for tx, err := range core.GetTransactionsByBlockNumberIter(database, b.num) {
					if err != nil || i >= n || !okTx(tx, i) {
						c.Violation("big-txs-iter", "block of %d transactions: iterator item %d differs (%v)", n, i, err)
					}
					i++
				}
				if i != n {
					c.Violation("big-txs-iter", "block of %d transactions: iterator yielded %d", n, i)
				}
				// by index / by hash at the edges and at the boundaries of every plausible chunking
				idx := map[int]bool{0: true, 1: true, n - 1: true, n - 2: true, n / 2: true}
				for _, parts := range []int{2, 4, 8, 16, 32, 64} {
					for j := 1; j <= parts; j++ {
						for _, d := range []int{-1, 0} {
							if k := n/parts*j + d; k >= 0 && k < n {
								idx[k] = true
							}
						}
					}
				}
				for _, p := range []int{255, 256, 511, 512, 1023, 1024, 2047, 2048, 4095, 4096, 8191, 8192} {
					if p < n {
						idx[p] = true
					}
				}
				for j := 0; j < 8; j++ {
					idx[rapid.IntRange(0, n-1).Draw(rt, "idx")] = true
				}
				for k := range idx {
					g, err := core.GetTransactionByBlockAndIndex(database, b.num, uint64(k))
					if err != nil || !okTx(g, k) {
						c.Violation("big-tx-by-index", "block of %d transactions: transaction at index %d: %s (%v)", n, k, show(g), err)
					}
					g2, err := core.GetTransactionByHash(database, (*felt.TransactionHash)(b.txs[k].Hash()))
					if err != nil || !okTx(g2, k) {
						c.Violation("big-tx-by-hash", "block of %d transactions: transaction %d by hash: %s (%v)", n, k, show(g2), err)
					}
					rc, err := core.GetReceiptByBlockAndIndex(database, b.num, uint64(k))
					if err != nil || !okRc(rc, k) {
						c.Violation("big-receipt-by-index", "block of %d transactions: receipt at index %d: %s (%v)", n, k, show(rc), err)
					}
					st, err := core.GetTransactionExecutionStatusByBlockAndIndex(database, b.num, uint64(k))
					if err != nil || st.Reverted != b.rcs[k].Reverted || st.RevertReason != b.rcs[k].RevertReason {
						c.Violation("big-execution-status", "block of %d transactions: status at index %d: %+v (%v)", n, k, st, err)
					}
				}
				if _, err := core.GetTransactionByBlockAndIndex(database, b.num, uint64(n)); err == nil {
					c.Violation("big-index-out-of-range", "block of %d transactions: index %d (one past the end) found", n, n)
				}
				if cnt, err := core.GetBlockTransactionCountByNumber(database, b.num); err != nil || cnt != uint64(n) {
					c.Violation("big-tx-count", "block of %d transactions: count %d (%v)", n, cnt, err)
				}
			}
			checkRec(database, small, u.Net).report(c)
			c.Sample(func() any {
				var s []string
				for _, b := range bigs {
					s = append(s, fmt.Sprintf("block %d: %d transactions tiled from a pool of %d", b.num, len(b.txs), b.pool))
				}
				return s
			})
		})
}

func bucketBig(n int) string {
	switch {
	case n < 512:
		return "255-511"
	case n < 1024:
		return "512-1023"
	case n < 2048:
		return "1024-2047"
	case n < 4096:
		return "2048-4095"
	}
	return ">=4096"
}
