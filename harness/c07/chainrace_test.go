package c07

import (
	"fmt"
	"os"
	"path/filepath"
	"runtime"
	"sync"
	"testing"

	"github.com/NethermindEth/juno/core/felt"
	"github.com/NethermindEth/juno/db"
	"github.com/NethermindEth/juno/db/pebblev2"
	"pgregory.net/rapid"

	"verif/harness/internal/gen"
	"verif/harness/internal/node"
	"verif/harness/internal/stats"
)

// TestRaceStoreWhileReading: ONE Blockchain on one store. A writer goroutine stores a generated valid chain block by block
// (SanityCheckNewHeight + Store, as the synchroniser does) while 1-3 reader goroutines read the blocks already stored
// through the blockchain.Reader accessors (as the RPC handlers do), compare every result with the generated originals and
// KEEP it; kept results are re-verified after later stores (by the reader itself) and after the join. The oracle does not
// depend on the schedule: a reader only asks for a block after the writer has announced it.
func TestRaceStoreWhileReading(t *testing.T) {
	defer runtime.GOMAXPROCS(runtime.GOMAXPROCS(2))
	stats.Check(t, stats.Budget{Quick: 20, Thorough: 800},
		"one Blockchain (drawn state backend; memory, 40% Pebble v2): a writer goroutine stores a generated valid chain of 3-6 (thorough 3-10) blocks while 1-3 reader goroutines "+
			"(2 Ps, -race) read already announced blocks in a drawn order through BlockByNumber/ByHash, BlockHeaderByNumber/ByHash, TransactionByHash, Receipt, "+
			"BlockNumberAndIndexByTxHash, StateUpdateByNumber/ByHash, BlockCommitmentsByNumber, L1HandlerTxnHash; every result equals the generated original, is kept, and still "+
			"equals it after every later read of the same reader and after all goroutines have finished; non-trivial = a reader kept a result across a later Store",
		func(rt *rapid.T, c *stats.Case) {
			u := gen.NewUniverse(rt)
			ch := gen.NewChain(u, gen.Opts{MaxTxs: 5})
			var database db.KeyValueStore
			if gen.Uniform(rt, 100, "pebble") < 40 {
				dir := scratch()
				defer os.RemoveAll(dir)
				p, err := pebblev2.New(filepath.Join(dir, "db"), pebblev2.WithLogger(quietPebble{}))
				if err != nil {
					stats.HarnessError("pebble: %v", err)
				}
				database = p
				c.Label("pebble")
			}
			nd := node.New(rapid.Bool().Draw(rt, "newState"), database, u.Net)
			defer nd.DB.Close()
			c.Label("backend:" + nd.Backend())
			n := rapid.IntRange(3, stats.Pick(6, 10)).Draw(rt, "n")
			for i := 0; i < n; i++ {
				b := ch.Next(rt)
				c.Fp("%s", b.B.Hash.String())
			}
			blocks := ch.Blocks
			// originals rendered before anything is stored
			type want struct {
				block, header, su any
				txs, rcs          []any
			}
			wants := make([]want, n)
			for i, b := range blocks {
				wants[i] = want{block: canon(b.B), header: canon(b.B.Header), su: canon(b.SU)}
				for j := range b.B.Transactions {
					wants[i].txs = append(wants[i].txs, canon(b.B.Transactions[j]))
					wants[i].rcs = append(wants[i].rcs, canon(b.B.Receipts[j]))
				}
			}
			stored := make([]chan struct{}, n)
			for i := range stored {
				stored[i] = make(chan struct{})
			}
			nR := rapid.IntRange(1, 3).Draw(rt, "readers")
			c.Labelf("readers=%d", nR)
			type readOp struct {
				blk, tx int
				yield   bool
			}
			plans := make([][]readOp, nR)
			for g := range plans {
				k := rapid.IntRange(n, 2*n).Draw(rt, "reads")
				for j := 0; j < k; j++ {
					// mostly ascending (following the writer closely), sometimes an old block again
					i := min(j, n-1)
					if rapid.IntRange(0, 2).Draw(rt, "old") == 0 {
						i = rapid.IntRange(0, i).Draw(rt, "which")
					}
					plans[g] = append(plans[g], readOp{i, rapid.IntRange(0, 1000).Draw(rt, "tx"), rapid.Bool().Draw(rt, "yield")})
					c.Fp("r%d:%d", g, i)
				}
			}
			writerYield := make([]bool, n)
			for i := range writerYield {
				writerYield[i] = rapid.Bool().Draw(rt, "writerYield")
			}

			bc := nd.BC
			var wg sync.WaitGroup
			var writerFail *vio
			wg.Add(1)
			go func() {
				defer wg.Done()
				failed := false
				for i, b := range blocks {
					if !failed {
						cm, err := bc.SanityCheckNewHeight(b.B, b.SU, b.Classes)
						if err == nil {
							err = bc.Store(b.B, cm, b.SU, b.Classes)
						}
						if err != nil {
							writerFail = &vio{"valid-block-rejected", fmt.Sprintf("block %d: %v", i, err)}
							failed = true
						}
					}
					close(stored[i]) // readers never block for ever; after a failed store they fail on their own and are ignored
					if writerYield[i] {
						runtime.Gosched()
					}
				}
			}()
			type heldR struct {
				what string
				v    any
				was  string
				at   int // number of blocks announced when it was obtained (lower bound)
			}
			helds := make([][]heldR, nR)
			fails := make([]*vio, nR)
			acrossStore := make([]bool, nR)
			for g := range plans {
				wg.Add(1)
				go func() {
					defer wg.Done()
					fails[g] = catchVio(func(bad func(key, format string, args ...any)) {
						got := func(i int, key, what string, v any, err error, want any) {
							if err != nil || !eq(v, want) {
								bad("reader-"+key, "reader %d, block %d %s: %s (%v), stored %s", g, i, what, show(v), err, show(want))
							}
							helds[g] = append(helds[g], heldR{fmt.Sprintf("block %d %s", i, what), v, render(v), i})
						}
						for step, o := range plans[g] {
							<-stored[o.blk]
							b := blocks[o.blk]
							w := wants[o.blk]
							num := b.Num()
							blk, err := bc.BlockByNumber(num)
							got(o.blk, "BlockByNumber", "BlockByNumber", blk, err, w.block)
							blk2, err := bc.BlockByHash(b.B.Hash)
							got(o.blk, "BlockByHash", "BlockByHash", blk2, err, w.block)
							h, err := bc.BlockHeaderByNumber(num)
							got(o.blk, "BlockHeaderByNumber", "BlockHeaderByNumber", h, err, w.header)
							h2, err := bc.BlockHeaderByHash(b.B.Hash)
							got(o.blk, "BlockHeaderByHash", "BlockHeaderByHash", h2, err, w.header)
							su, err := bc.StateUpdateByNumber(num)
							got(o.blk, "StateUpdateByNumber", "StateUpdateByNumber", su, err, w.su)
							su2, err := bc.StateUpdateByHash(b.B.Hash)
							got(o.blk, "StateUpdateByHash", "StateUpdateByHash", su2, err, w.su)
							if _, err := bc.BlockCommitmentsByNumber(num); err != nil {
								bad("commitments", "reader %d, block %d: commitments: %v", g, o.blk, err)
							}
							if len(b.B.Transactions) > 0 {
								i := o.tx % len(b.B.Transactions)
								tx := b.B.Transactions[i]
								gtx, err := bc.TransactionByHash(tx.Hash())
								got(o.blk, "TransactionByHash", fmt.Sprintf("TransactionByHash(#%d)", i), gtx, err, w.txs[i])
								rc, bh, bn, err := bc.Receipt(tx.Hash())
								if err == nil && (!bh.Equal(b.B.Hash) || bn != num) {
									bad("reader-Receipt", "reader %d, block %d tx %d: receipt located in block %v/%d", g, o.blk, i, bh, bn)
								}
								got(o.blk, "Receipt", fmt.Sprintf("Receipt(#%d)", i), rc, err, w.rcs[i])
								bn2, idx, err := bc.BlockNumberAndIndexByTxHash((*felt.TransactionHash)(tx.Hash()))
								if err != nil || bn2 != num || idx != uint64(i) {
									bad("reader-BlockNumberAndIndexByTxHash", "reader %d, block %d tx %d: located at %d/%d (%v)", g, o.blk, i, bn2, idx, err)
								}
							}
							if o.yield {
								runtime.Gosched()
							}
							// everything this reader still holds is what was stored
							for _, hv := range helds[g] {
								if now := render(hv.v); now != hv.was {
									bad("held-result-changed", "reader %d after its read %d: kept result of %s changed: now %s, was %s", g, step+1, hv.what, now, hv.was)
								}
								if hv.at < o.blk {
									acrossStore[g] = true
								}
							}
						}
					})
				}()
			}
			wg.Wait()
			writerFail.report(c)
			nHeld := 0
			for g := range plans {
				if v := fails[g]; v != nil {
					v.report(c)
				}
				for _, hv := range helds[g] {
					if now := render(hv.v); now != hv.was {
						c.Violation("held-result-changed", "reader %d after the join: kept result of %s changed: now %s, was %s", g, hv.what, now, hv.was)
					}
				}
				nHeld += len(helds[g])
				if acrossStore[g] {
					c.NonTrivial("reader-kept-results-across-a-later-store")
				}
			}
			// the sequential sweep of the whole chain after the concurrent phase
			for i, b := range blocks {
				g, err := bc.BlockByNumber(b.Num())
				if err != nil || !eq(g, wants[i].block) {
					c.Violation("reader-BlockByNumber", "after the join, block %d: %s (%v)", i, show(g), err)
				}
				if !eq(b.B, wants[i].block) || !eq(b.SU, wants[i].su) {
					c.Violation("input-changed", "block %d: the block / state update passed to Store was modified", i)
				}
			}
			c.Label("kept-results=" + bucketN(nHeld))
			c.Sample(func() any {
				var sizes []int
				for _, b := range blocks {
					sizes = append(sizes, len(b.B.Transactions))
				}
				var reads [][]int
				for _, p := range plans {
					var r []int
					for _, o := range p {
						r = append(r, o.blk)
					}
					reads = append(reads, r)
				}
				return map[string]any{"backend": nd.Backend(), "txs_per_block": sizes, "blocks_read_by_each_reader": reads}
			})
		})
}
