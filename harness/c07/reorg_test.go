package c07

import (
	"fmt"
	"testing"

	"pgregory.net/rapid"

	"verif/harness/internal/gen"
	"verif/harness/internal/node"
	"verif/harness/internal/stats"
)

// Read accessors across REORGS on one long-lived Blockchain (added after seed C07-i: every other test of this package reads a
// chain that only ever grew). A case stores a prefix and a first fork, reads everything through the Reader (block / header by
// number and hash, transactions and receipts by hash and by (block, index), tx location, L1-message lookup, state updates),
// reverts the fork and stores a second one that RE-INCLUDES some of the abandoned transactions (same hash, other block or
// index, new receipt) - what a mempool does after a reorg -, reads everything again, optionally reorgs once more. Oracle: after
// every phase the same object answers exactly like a fresh node that stored only the current chain; ids range over every block
// and transaction hash ever seen, so abandoned items must be not-found and re-included ones must be found at their new place.
func TestPropReorgReadBack(t *testing.T) {
	stats.Check(t, stats.Budget{Quick: 120, Thorough: 2000},
		"prefix 1-3 blocks + fork of 1-3 blocks stored on a drawn state backend (memory / a quarter Pebble v2), whole Reader API read, fork reverted (all or part), second fork of 1-3 blocks re-including a third of the abandoned transactions at other heights / indexes, read again, in half of the cases a third fork likewise; after each phase the long-lived object's answers (ids = every block hash, tx hash and L1 message hash ever generated) equal those of a fresh node holding only the current chain; non-trivial = a re-included transaction was read by hash before the reorg and after it",
		func(rt *rapid.T, c *stats.Case) {
			u := gen.NewUniverse(rt)
			newState := rapid.Bool().Draw(rt, "newState")
			ch := gen.NewChain(u, gen.Opts{MaxTxs: 5, ReincludeOrphans: true, MinVersionIdx: rapid.IntRange(0, 3).Draw(rt, "minver")})
			var nd *node.Node
			if rapid.IntRange(0, 3).Draw(rt, "pebble") == 0 {
				p, cleanup, err := node.NewPebble(newState, u.Net)
				if err != nil {
					stats.HarnessError("pebble: %v", err)
				}
				defer cleanup()
				nd = p
				c.Label("pebble")
			} else {
				nd = node.New(newState, nil, u.Net)
			}
			ids := &node.Ids{Addrs: u.AllAddrs()[:2], Keys: u.Keys[:min(2, len(u.Keys))], NoState: true}
			store := func(b *gen.Block) {
				ids.AddBlock(b)
				if err := nd.Store(b); err != nil {
					c.Violation("valid-block-rejected", "block %d: %v", b.Num(), err)
				}
			}
			check := func(when string, cur *gen.Chain) {
				fresh := node.New(newState, nil, u.Net)
				for _, b := range cur.Blocks {
					if err := fresh.Store(gen.CloneBlock(b)); err != nil {
						stats.HarnessError("reference node: %v", err)
					}
				}
				if d := node.Diff(nd.Observe(ids), fresh.Observe(ids), 6); len(d) > 0 {
					c.Violation("reader-after-reorg", "%s (%s backend): the long-lived node answers differently from a fresh node holding the same chain:\n%v", when, nd.Backend(), d)
				}
			}
			np := rapid.IntRange(1, 3).Draw(rt, "prefix")
			for i := 0; i < np; i++ {
				store(ch.Next(rt))
			}
			cur := ch
			phases := 2
			if rapid.Bool().Draw(rt, "thirdFork") {
				phases = 3
			}
			reincluded := false
			desc := []string{}
			for ph := 0; ph < phases; ph++ {
				n := rapid.IntRange(1, 3).Draw(rt, "forkLen")
				for i := 0; i < n; i++ {
					b := cur.Next(rt)
					if b.Tags["reincluded-orphan"] {
						reincluded = true
						c.Label("block-with-re-included-transaction")
					}
					store(b)
				}
				c.Fp("phase %d: %d blocks, head %s", ph, n, cur.Blocks[len(cur.Blocks)-1].B.Hash.String())
				desc = append(desc, fmt.Sprintf("fork %d: +%d blocks", ph, n))
				check(fmt.Sprintf("after storing fork %d", ph), cur)
				if ph == phases-1 {
					break
				}
				// revert down to a drawn height >= 1 (at least one block goes)
				keep := rapid.IntRange(max(1, np-1), cur.Height()-1).Draw(rt, "keep")
				for cur.Height() > keep {
					if err := nd.BC.RevertHead(); err != nil {
						c.Violation("revert-failed", "RevertHead at height %d: %v", cur.Height()-1, err)
					}
					cur = cur.Fork(cur.Height() - 1)
				}
				desc = append(desc, fmt.Sprintf("revert to %d blocks", keep))
				if rapid.Bool().Draw(rt, "readBetween") {
					check(fmt.Sprintf("after reverting fork %d down to %d blocks", ph, keep), cur)
				}
			}
			if reincluded {
				c.NonTrivial("re-included-transaction-read-before-and-after-the-reorg")
			}
			c.Sample(func() any { return map[string]any{"backend": nd.Backend(), "history": desc, "re_included": reincluded} })
		})
}
