// Package c07: everything stored for a block is returned unchanged by every accessor (property C07).
package c07

import (
	"encoding/json"
	"errors"
	"fmt"
	"os"
	"path/filepath"
	"reflect"
	"testing"

	"github.com/NethermindEth/juno/core"
	"github.com/NethermindEth/juno/core/crypto"
	"github.com/NethermindEth/juno/core/felt"
	"github.com/NethermindEth/juno/db"
	"github.com/NethermindEth/juno/db/memory"
	"github.com/NethermindEth/juno/db/pebblev2"
	"github.com/NethermindEth/juno/encoder"
	_ "github.com/NethermindEth/juno/encoder/registry"
	"github.com/NethermindEth/juno/l1/eth"
	"pgregory.net/rapid"

	"verif/harness/internal/gen"
	"verif/harness/internal/node"
	"verif/harness/internal/stats"
)

func TestMain(m *testing.M) { stats.Main(m) }

// canon renders v as JSON and normalises null / [] / {} to nil, so that only the nil-vs-empty
// distinction of slices and maps is ignored (everything the hashes depend on is checked separately
// by recomputing hashes from the read-back values).
func canon(v any) any {
	b, err := json.Marshal(v)
	if err != nil {
		return "!json:" + err.Error()
	}
	var x any
	if err := json.Unmarshal(b, &x); err != nil {
		return "!json:" + err.Error()
	}
	return norm(x)
}

func norm(x any) any {
	switch t := x.(type) {
	case []any:
		if len(t) == 0 {
			return nil
		}
		for i := range t {
			t[i] = norm(t[i])
		}
		return t
	case map[string]any:
		if len(t) == 0 {
			return nil
		}
		for k, v := range t {
			nv := norm(v)
			if nv == nil {
				delete(t, k) // absent ≡ null ≡ empty
			} else {
				t[k] = nv
			}
		}
		if len(t) == 0 {
			return nil
		}
		return t
	case string:
		if t == "" {
			return nil
		}
	}
	return x
}

func same(a, b any) bool { return reflect.DeepEqual(canon(a), canon(b)) }

func show(v any) string {
	b, _ := json.Marshal(v)
	if len(b) > 400 {
		return string(b[:400]) + "…"
	}
	return string(b)
}

var sparseNumbers = []uint64{0, 1, 23, 24, 255, 256, 65535, 65536, 1<<32 - 1, 1 << 32, 1<<63 + 5, 8191, 8192}

func scratch() string {
	base := ""
	if st, err := os.Stat("/dev/shm"); err == nil && st.IsDir() {
		base = "/dev/shm"
	}
	d, err := os.MkdirTemp(base, "verif-c07-")
	if err != nil {
		stats.HarnessError("mkdtemp: %v", err)
	}
	return d
}

// arbitraryHeader draws a header with optional pointer fields nil or set.
func arbitraryHeader(t *rapid.T, num uint64, txs, evs uint64) *core.Header {
	opt := func(l string) *felt.Felt {
		if rapid.IntRange(0, 3).Draw(t, l+"-nil") == 0 {
			return nil
		}
		f := gen.Felt().Draw(t, l)
		return &f
	}
	h := &core.Header{
		Hash:             ptr(uniqueHash(num, gen.Felt().Draw(t, "hash"))), // block hashes are unique in any real chain
		ParentHash:       ptr(gen.Felt().Draw(t, "parent")),
		Number:           num,
		GlobalStateRoot:  ptr(gen.Felt().Draw(t, "root")),
		SequencerAddress: opt("seq"),
		TransactionCount: txs,
		EventCount:       evs,
		Timestamp:        rapid.Uint64().Draw(t, "ts"),
		ProtocolVersion:  rapid.SampledFrom([]string{"", "0.11.0", "0.13.2", "0.13.4", "0.14.0", "0.14.1"}).Draw(t, "ver"),
		L1GasPriceETH:    opt("gp1"),
		L1GasPriceSTRK:   opt("gp2"),
		L1DAMode:         core.L1DAMode(rapid.IntRange(0, 1).Draw(t, "da")),
	}
	if rapid.Bool().Draw(t, "hasDataGas") {
		h.L1DataGasPrice = &core.GasPrice{PriceInWei: opt("gp3"), PriceInFri: opt("gp4")}
	}
	if rapid.Bool().Draw(t, "hasL2Gas") {
		h.L2GasPrice = &core.GasPrice{PriceInWei: opt("gp5"), PriceInFri: opt("gp6")}
	}
	nsig := rapid.IntRange(0, 2).Draw(t, "nsig")
	for i := 0; i < nsig; i++ {
		fs := gen.Felts(2).Draw(t, "sig")
		var ps []*felt.Felt
		for j := range fs {
			ps = append(ps, &fs[j])
		}
		h.Signatures = append(h.Signatures, ps)
	}
	return h
}

func ptr[T any](v T) *T { return &v }

func uniqueHash(num uint64, salt felt.Felt) felt.Felt {
	return crypto.PoseidonElems(gen.FP(num), &salt, gen.FP(0xb10c))
}

func errIsNotFound(err error) bool { return errors.Is(err, db.ErrKeyNotFound) }

// TestPropAccessorRoundTrip: arbitrary records written with the core.Write* accessors at sparse block
// numbers are returned unchanged by every read accessor; partial decoders agree with the full one.
func TestPropAccessorRoundTrip(t *testing.T) {
	stats.Check(t, stats.Budget{Quick: 1200, Thorough: 10000},
		"arbitrary headers (optional fields nil/set), 0-12 transactions of all kinds/versions with receipts (events, messages, resources, revert reasons), state updates, classes and CASM metadata written with the core.Write* accessors at sparse block numbers (CBOR width boundaries) on memory or Pebble, read back through every accessor of core/accessors.go incl. partial decoders; hashes recomputed from read-back transactions must equal the stored hashes; non-trivial = block with >= 2 transactions of different kinds, an empty block, or a header with a nil optional field",
		func(rt *rapid.T, c *stats.Case) {
			u := gen.NewUniverse(rt)
			ch := gen.NewChain(u, gen.Opts{MaxTxs: 12})
			var database db.KeyValueStore = memory.New()
			if rapid.IntRange(0, 5).Draw(rt, "pebble") == 0 {
				dir := scratch()
				defer os.RemoveAll(dir)
				p, err := pebblev2.New(filepath.Join(dir, "db"))
				if err != nil {
					stats.HarnessError("pebble: %v", err)
				}
				database = p
				c.Label("pebble")
			}
			defer database.Close()
			nblocks := rapid.IntRange(1, 3).Draw(rt, "nblocks")
			used := map[uint64]bool{}
			var recs []rec
			for i := 0; i < nblocks; i++ {
				num := rapid.SampledFrom(sparseNumbers).Draw(rt, "num")
				if used[num] {
					num = uint64(rapid.IntRange(100, 100000).Draw(rt, "num2"))
					if used[num] {
						continue
					}
				}
				used[num] = true
				r := drawRec(rt, c, u, ch, num, accessorSizes, true)
				err := database.Write(func(w db.Batch) error { return writeRec(w, r) })
				if err != nil {
					c.Violation("write-failed", "writing block %d: %v", num, err)
				}
				recs = append(recs, r)
			}
			for _, r := range recs {
				checkRec(database, r, u.Net).report(c)
			}
			// a block number never written is not found through every accessor
			if _, err := core.GetBlockHeaderByNumber(database, 77777777); !errIsNotFound(err) {
				c.Violation("missing-block", "header of a never-written block: %v", err)
			}
			if _, err := core.GetTransactionsByBlockNumber(database, 77777777); !errIsNotFound(err) {
				c.Violation("missing-block", "transactions of a never-written block: %v", err)
			}
			c.Sample(func() any {
				var s []string
				for _, r := range recs {
					s = append(s, fmt.Sprintf("block %d: %d txs, header optional nils seq=%v l2=%v", r.h.Number, len(r.txs), r.h.SequencerAddress == nil, r.h.L2GasPrice == nil))
				}
				return s
			})
		})
}

// TestPropEncoderRoundTrip: encoder.Marshal∘Unmarshal is the identity on storable values, and classes / CASM
// metadata round-trip through their accessors.
func TestPropEncoderRoundTrip(t *testing.T) {
	stats.Check(t, stats.Budget{Quick: 1500, Thorough: 12000},
		"transactions (as interface values), receipts, headers, state updates, Sierra/Cairo-0 classes and CASM metadata through encoder.Marshal/Unmarshal and WriteClass/GetClass; non-trivial = value has a nil-able field set to nil or an empty slice",
		func(rt *rapid.T, c *stats.Case) {
			u := gen.NewUniverse(rt)
			ch := gen.NewChain(u, gen.Opts{})
			tx := ch.DrawTx(rt, rapid.SampledFrom(gen.Versions).Draw(rt, "ver"))
			c.Fp("%T %s", tx, tx.Hash().String())
			c.Labelf("%T", tx)
			enc, err := encoder.Marshal(tx)
			if err != nil {
				c.Violation("marshal", "Marshal(%T): %v", tx, err)
			}
			var back core.Transaction
			if err := encoder.Unmarshal(enc, &back); err != nil {
				c.Violation("unmarshal", "Unmarshal(%T): %v", tx, err)
			}
			if !same(back, tx) || reflect.TypeOf(back) != reflect.TypeOf(tx) {
				c.Violation("tx-roundtrip", "%T round trip: %s != %s", tx, show(back), show(tx))
			}
			if h, err := core.TransactionHash(back, u.Net); err == nil && !h.IsZero() && !h.Equal(tx.Hash()) {
				c.Violation("hash-of-decoded-tx", "%T v%s: hash of decoded value %s != %s", tx, tx.TxVersion().String(), h.String(), tx.Hash().String())
			}
			r := ch.DrawReceipt(rt, tx)
			if len(r.Events) == 0 || len(r.L2ToL1Message) == 0 {
				c.NonTrivial("empty-slice-field")
			}
			enc, err = encoder.Marshal(r)
			if err != nil {
				c.Violation("marshal", "Marshal(receipt): %v", err)
			}
			var rb *core.TransactionReceipt
			if err := encoder.Unmarshal(enc, &rb); err != nil || !same(rb, r) {
				c.Violation("receipt-roundtrip", "receipt round trip: %s (%v) != %s", show(rb), err, show(r))
			}
			h := arbitraryHeader(rt, rapid.SampledFrom(sparseNumbers).Draw(rt, "num"), 3, 4)
			if h.SequencerAddress == nil || h.L2GasPrice == nil {
				c.NonTrivial("nil-optional-field")
			}
			enc, err = encoder.Marshal(h)
			if err != nil {
				c.Violation("marshal", "Marshal(header): %v", err)
			}
			var hb *core.Header
			if err := encoder.Unmarshal(enc, &hb); err != nil || !same(hb, h) {
				c.Violation("header-roundtrip", "header round trip: %s (%v) != %s", show(hb), err, show(h))
			}
			// classes
			database := memory.New()
			var def core.ClassDefinition
			var ch2 felt.Felt
			if rapid.Bool().Draw(rt, "sierra") {
				s := gen.MakeSierra(uint64(rapid.IntRange(1, 1000).Draw(rt, "seed")))
				def, ch2 = s.Def, s.Hash
			} else {
				s := gen.MakeCairo0(uint64(rapid.IntRange(1, 1000).Draw(rt, "seed")))
				def, ch2 = s.Def, s.Hash
			}
			at := rapid.SampledFrom(sparseNumbers).Draw(rt, "at")
			if err := core.WriteClass(database, &ch2, &core.DeclaredClassDefinition{At: at, Class: def}); err != nil {
				c.Violation("write-class", "%v", err)
			}
			got, err := core.GetClass(database, &ch2)
			if err != nil || got.At != at || !same(got.Class, def) || reflect.TypeOf(got.Class) != reflect.TypeOf(def) {
				c.Violation("class-roundtrip", "class round trip (%T at %d): %v %s", def, at, err, show(got))
			}
			if sc, ok := got.Class.(*core.SierraClass); ok {
				h1, _ := sc.Hash()
				if !h1.Equal(&ch2) {
					c.Violation("class-hash-of-read-back", "hash of read-back Sierra class %s != %s", h1.String(), ch2.String())
				}
				a, b := sc.Compiled.Hash(core.HashVersionV2), def.(*core.SierraClass).Compiled.Hash(core.HashVersionV2)
				if !a.Equal(&b) {
					c.Violation("casm-hash-of-read-back", "CASM hash of read-back class differs")
				}
			}
		})
}

// TestPropStoredChainReadBack: blocks stored through Blockchain.Store are returned unchanged by every
// blockchain.Reader accessor (compared with the ORIGINAL generated values, on both state backends).
func TestPropStoredChainReadBack(t *testing.T) {
	stats.Check(t, stats.Budget{Quick: 250, Thorough: 2500},
		"generated valid chains (1-5 blocks) stored through SanityCheckNewHeight+Store on a drawn backend; every Reader accessor (block/header by number & hash, tx by hash / (block,index), receipts, status, hashes, counts, state update by number & hash, commitments, L1-message lookup, declared classes) compared with the originals; non-trivial = chain contains a block with >= 2 transactions and one empty block or L1 handler",
		func(rt *rapid.T, c *stats.Case) {
			u := gen.NewUniverse(rt)
			ch := gen.NewChain(u, gen.Opts{MaxTxs: 6})
			nd := node.New(rapid.Bool().Draw(rt, "newState"), nil, u.Net)
			n := rapid.IntRange(1, 5).Draw(rt, "n")
			multi, special := false, false
			for i := 0; i < n; i++ {
				b := ch.Next(rt)
				c.Fp("%s", b.B.Hash.String())
				if len(b.B.Transactions) >= 2 {
					multi = true
				}
				if b.Tags["empty-block"] || b.Tags["l1handler"] {
					special = true
				}
				cm, err := nd.BC.SanityCheckNewHeight(b.B, b.SU, b.Classes)
				if err != nil {
					c.Violation("valid-block-rejected", "%v", err)
				}
				if err := nd.BC.Store(b.B, cm, b.SU, b.Classes); err != nil {
					c.Violation("valid-block-rejected", "%v", err)
				}
				got, err := nd.BC.BlockCommitmentsByNumber(b.Num())
				if err != nil || !same(got, cm) {
					c.Violation("commitments", "block %d commitments %s (%v) != verified %s", b.Num(), show(got), err, show(cm))
				}
			}
			if multi && special {
				c.NonTrivial("multi-tx+special-block")
			}
			bc := nd.BC
			for _, b := range ch.Blocks {
				for name, f := range map[string]func() (any, error){
					"BlockByNumber":       func() (any, error) { return bc.BlockByNumber(b.Num()) },
					"BlockByHash":         func() (any, error) { return bc.BlockByHash(b.B.Hash) },
				} {
					g, err := f()
					if err != nil || !same(g, b.B) {
						c.Violation("reader-"+name, "block %d %s: %s (%v) != %s", b.Num(), name, show(g), err, show(b.B))
					}
				}
				for name, f := range map[string]func() (any, error){
					"BlockHeaderByNumber": func() (any, error) { return bc.BlockHeaderByNumber(b.Num()) },
					"BlockHeaderByHash":   func() (any, error) { return bc.BlockHeaderByHash(b.B.Hash) },
				} {
					g, err := f()
					if err != nil || !same(g, b.B.Header) {
						c.Violation("reader-"+name, "block %d %s differs (%v)", b.Num(), name, err)
					}
				}
				for name, f := range map[string]func() (any, error){
					"StateUpdateByNumber": func() (any, error) { return bc.StateUpdateByNumber(b.Num()) },
					"StateUpdateByHash":   func() (any, error) { return bc.StateUpdateByHash(b.B.Hash) },
				} {
					g, err := f()
					if err != nil || !same(g, b.SU) {
						c.Violation("reader-"+name, "block %d %s: %s (%v) != %s", b.Num(), name, show(g), err, show(b.SU))
					}
				}
				for i, tx := range b.B.Transactions {
					g, err := bc.TransactionByHash(tx.Hash())
					if err != nil || !same(g, tx) {
						c.Violation("reader-TransactionByHash", "block %d tx %d: %s (%v)", b.Num(), i, show(g), err)
					}
					rc, bh, bn, err := bc.Receipt(tx.Hash())
					if err != nil || !same(rc, b.B.Receipts[i]) || !bh.Equal(b.B.Hash) || bn != b.Num() {
						c.Violation("reader-Receipt", "block %d tx %d: receipt %s block %v/%d (%v)", b.Num(), i, show(rc), bh, bn, err)
					}
					bn2, idx, err := bc.BlockNumberAndIndexByTxHash((*felt.TransactionHash)(tx.Hash()))
					if err != nil || bn2 != b.Num() || idx != uint64(i) {
						c.Violation("reader-BlockNumberAndIndexByTxHash", "block %d tx %d: located at %d/%d (%v)", b.Num(), i, bn2, idx, err)
					}
					if l1, ok := tx.(*core.L1HandlerTransaction); ok {
						var eh eth.Hash
						eh.SetBytes(l1.MessageHash())
						th, err := bc.L1HandlerTxnHash(&eh)
						if err != nil || !th.Equal(tx.Hash()) {
							c.Violation("reader-L1HandlerTxnHash", "block %d tx %d: %s (%v)", b.Num(), i, th.String(), err)
						}
					}
				}
				for h, def := range b.Classes {
					h := h
					sr, closer, err := bc.HeadState()
					if err != nil {
						c.Violation("head-state", "%v", err)
					}
					d, err := sr.Class(&h)
					if err != nil || d.At != b.Num() || !same(d.Class, def) {
						c.Violation("declared-class", "class %s declared in block %d: read back at=%v (%v)", h.ShortString(), b.Num(), d, err)
					}
					_ = closer()
				}
			}
		})
}
