package c07

import (
	"fmt"
	"testing"

	"github.com/NethermindEth/juno/core"
	"github.com/NethermindEth/juno/core/felt"
	"github.com/NethermindEth/juno/core/state"
	"github.com/NethermindEth/juno/db/memory"
	"github.com/NethermindEth/juno/encoder"
	"pgregory.net/rapid"

	"verif/harness/internal/gen"
	"verif/harness/internal/stats"
)

// limb draws one 64-bit limb from every CBOR width class the felt codec distinguishes.
func limb(t *rapid.T, top bool) uint64 {
	var v uint64
	switch gen.Uniform(t, 7, "limbClass") {
	case 0:
		v = 0
	case 1:
		v = uint64(rapid.IntRange(0, 23).Draw(t, "l"))
	case 2:
		v = uint64(rapid.IntRange(24, 255).Draw(t, "l"))
	case 3:
		v = uint64(rapid.IntRange(256, 65535).Draw(t, "l"))
	case 4:
		v = rapid.Uint64Range(65536, 1<<32-1).Draw(t, "l")
	case 5:
		v = rapid.Uint64Range(1<<32, 1<<33).Draw(t, "l")
	default:
		v = rapid.Uint64().Draw(t, "l")
	}
	if top {
		// keep the element reduced: the top limb of the modulus is 0x0800000000000011
		v %= 0x0800000000000011
	}
	return v
}

// classSizes are element counts around every width of the CBOR array header and around the limits a decoder may
// impose (fxamacker's defaults: 131072 array elements), up to what the 4 MB class-size limit of the protocol allows.
var classSizes = []int{0, 1, 2, 23, 24, 25, 255, 256, 257, 4000, 65535, 65536, 65537, 131071, 131072, 131073, 131074, 200000, 262144, 300001}

func drawFelts(t *rapid.T, label string) (s []felt.Felt, shape string) {
	var n int
	switch gen.Uniform(t, 4, label+"SizeClass") {
	case 0:
		n = rapid.IntRange(0, 40).Draw(t, label+"N")
	case 1:
		n = rapid.IntRange(41, 5000).Draw(t, label+"N")
	default:
		n = classSizes[gen.Uniform(t, len(classSizes), label+"Size")]
	}
	// the pattern is drawn, the slice is the pattern tiled: keeps the draw count (and shrinking) small for 300k felts
	pn := rapid.IntRange(1, 12).Draw(t, label+"PatternLen")
	pat := make([]felt.Felt, pn)
	small := false
	for i := range pat {
		switch gen.Uniform(t, 4, label+"FeltClass") {
		case 0: // zero: the shortest encoding (5 bytes)
			small = true
		case 1: // ordinary small integer (Montgomery form: all limbs large)
			pat[i] = gen.F(rapid.Uint64().Draw(t, "u"))
		default:
			raw := [4]uint64{limb(t, false), limb(t, false), limb(t, false), limb(t, true)}
			for _, l := range raw {
				if l <= 1<<32-1 {
					small = true
				}
			}
			pat[i] = felt.Felt(raw)
		}
	}
	s = make([]felt.Felt, n)
	for i := range s {
		s[i] = pat[i%pn]
	}
	shape = fmt.Sprintf("n=%d", n)
	if small {
		shape += ",short-limbs"
	}
	return s, shape
}

func sizeBucket(n int) string {
	switch {
	case n == 0:
		return "0"
	case n < 24:
		return "<24"
	case n < 256:
		return "<2^8"
	case n < 65536:
		return "<2^16"
	case n <= 131072:
		return "<=2^17"
	default:
		return ">2^17"
	}
}

func sameFeltSlice(a, b []felt.Felt) (int, bool) {
	if len(a) != len(b) {
		return -1, false
	}
	for i := range a {
		if a[i] != b[i] {
			return i, false
		}
	}
	return 0, true
}

// TestPropClassSizesRoundTrip: declared classes of every legal size (Sierra program / CASM bytecode element counts
// around all CBOR header widths and well beyond 2^17) and every limb shape of the felt codec are returned unchanged by
// the class accessors of both state implementations and by the encoder.
func TestPropClassSizesRoundTrip(t *testing.T) {
	stats.Check(t, stats.Budget{Quick: 30, Thorough: 600},
		"Sierra classes whose Program and CASM Bytecode are felt slices of drawn size (0..40, 41..5000, or one of 20 boundary sizes up to 300001: CBOR header widths, 2^16, 2^17 +-1) tiled from a drawn pattern of felts whose 4 Montgomery limbs are drawn per CBOR integer width class (0, <24, <2^8, <2^16, <2^32, >=2^32); written with core.WriteClass and state.WriteClass, read with core.GetClass / state.GetClass, plus encoder.Marshal/Unmarshal of the bare felt.Slice; oracle: element-wise equality with the original; non-trivial = more than 2^16 elements or a felt with a limb below 2^32 (a non-fixed-width encoding)",
		func(rt *rapid.T, c *stats.Case) {
			prog, ps := drawFelts(rt, "prog")
			code, cs := drawFelts(rt, "code")
			c.Fp("%s|%s|%v|%v", ps, cs, head(prog), head(code))
			c.Label("program:" + sizeBucket(len(prog)))
			c.Label("bytecode:" + sizeBucket(len(code)))
			if len(prog) > 65536 || len(code) > 65536 {
				c.NonTrivial("more-than-2^16-elements")
			}
			if len(ps) > 10 && ps[len(ps)-11:] == "short-limbs" || len(cs) > 10 && cs[len(cs)-11:] == "short-limbs" {
				c.NonTrivial("short-limb-felt")
			}
			s := gen.MakeSierra(uint64(rapid.IntRange(1, 1000).Draw(rt, "seed")))
			def := *s.Def
			casm := *s.Def.Compiled
			def.Program = prog
			casm.Bytecode = code
			def.Compiled = &casm
			key := gen.F(rapid.Uint64Range(1, 1<<40).Draw(rt, "classHash"))
			at := rapid.SampledFrom(sparseNumbers).Draw(rt, "at")
			decl := &core.DeclaredClassDefinition{At: at, Class: &def}

			check := func(how string, got *core.DeclaredClassDefinition, err error) {
				if err != nil {
					c.Violation("class-unreadable", "%s: class with %d-felt program and %d-felt bytecode was stored but cannot be read: %v", how, len(prog), len(code), err)
				}
				sc, ok := got.Class.(*core.SierraClass)
				if !ok || got.At != at {
					c.Violation("class-roundtrip", "%s: read back %T at %d, stored *core.SierraClass at %d", how, got.Class, got.At, at)
				}
				if i, ok := sameFeltSlice(sc.Program, prog); !ok {
					c.Violation("class-program", "%s: program differs (len %d vs %d, first difference at %d)", how, len(sc.Program), len(prog), i)
				}
				if sc.Compiled == nil {
					c.Violation("class-roundtrip", "%s: compiled class lost", how)
				}
				if i, ok := sameFeltSlice(sc.Compiled.Bytecode, code); !ok {
					c.Violation("class-bytecode", "%s: bytecode differs (len %d vs %d, first difference at %d)", how, len(sc.Compiled.Bytecode), len(code), i)
				}
				// everything else (small) structurally
				a, b := *sc, def
				ac, bc := *sc.Compiled, casm
				a.Program, b.Program, ac.Bytecode, bc.Bytecode = nil, nil, nil, nil
				a.Compiled, b.Compiled = &ac, &bc
				if !same(&a, &b) {
					c.Violation("class-roundtrip", "%s: class differs outside program/bytecode: %s != %s", how, show(&a), show(&b))
				}
			}
			d := memory.New()
			if err := core.WriteClass(d, &key, decl); err != nil {
				c.Violation("write-class", "core.WriteClass: %v", err)
			}
			got, err := core.GetClass(d, &key)
			check("core accessors", got, err)
			d2 := memory.New()
			if err := state.WriteClass(d2, &key, decl); err != nil {
				c.Violation("write-class", "state.WriteClass: %v", err)
			}
			got, err = state.GetClass(d2, &key)
			check("state accessors", got, err)

			for _, sl := range [][]felt.Felt{prog, code} {
				enc, err := encoder.Marshal(felt.Slice[felt.Felt](sl))
				if err != nil {
					c.Violation("marshal", "Marshal(felt.Slice of %d): %v", len(sl), err)
				}
				var back felt.Slice[felt.Felt]
				if err := encoder.Unmarshal(enc, &back); err != nil {
					c.Violation("slice-roundtrip", "Unmarshal(felt.Slice of %d): %v", len(sl), err)
				}
				if i, ok := sameFeltSlice(back, sl); !ok {
					c.Violation("slice-roundtrip", "felt.Slice of %d decodes to %d elements (first difference at %d)", len(sl), len(back), i)
				}
			}
			c.Info("class-size-roundtrips")
			c.Sample(func() any {
				return map[string]any{"program": ps, "bytecode": cs, "program_head": head(prog), "bytecode_head": head(code), "at": at}
			})
		})
}

func head(s []felt.Felt) []string {
	var o []string
	for i := 0; i < len(s) && i < 4; i++ {
		o = append(o, s[i].String())
	}
	return o
}
