package c07

import (
	"fmt"
	"math/big"
	"reflect"

	"github.com/NethermindEth/juno/blockchain/networks"
	"github.com/NethermindEth/juno/core"
	"github.com/NethermindEth/juno/core/felt"
	"github.com/NethermindEth/juno/db"
	"github.com/NethermindEth/juno/l1/eth"
	"pgregory.net/rapid"

	"verif/harness/internal/gen"
	"verif/harness/internal/stats"
)

// rec is everything generated for one block at accessor level.
type rec struct {
	h   *core.Header
	txs []core.Transaction
	rcs []*core.TransactionReceipt
	su  *core.StateUpdate
	cm  *core.BlockCommitments
	mem *canonMemo // renderings of the originals above
}

// canonMemo caches the canonical rendering of ORIGINAL values (by address), which checkRec compares many read-back
// values with. Only pointers and non-empty slices are cached; anything else is rendered each time.
type canonMemo struct{ m map[memoKey]any }

type memoKey struct {
	p uintptr
	n int
	t reflect.Type
}

func (m *canonMemo) canon(v any) any {
	rv := reflect.ValueOf(v)
	var k memoKey
	switch rv.Kind() {
	case reflect.Pointer:
		if rv.IsNil() {
			return canon(v)
		}
		k = memoKey{rv.Pointer(), -1, rv.Type()}
	case reflect.Slice:
		if rv.Len() == 0 {
			return canon(v)
		}
		k = memoKey{rv.Pointer(), rv.Len(), rv.Type()}
	default:
		return canon(v)
	}
	if c, ok := m.m[k]; ok {
		return c
	}
	c := canon(v)
	m.m[k] = c
	return c
}

// same: got (rendered now) equals the original (rendered once).
func (m *canonMemo) same(got, original any) bool {
	return reflect.DeepEqual(canon(got), m.canon(original))
}

// vio is a failed oracle (key + rendering). The read-back checks return it instead of failing the case directly so that
// they can also run on goroutines other than the one owning the rapid.T.
type vio struct{ key, msg string }

func (v *vio) report(c *stats.Case) {
	if v != nil {
		c.Violation(v.key, "%s", v.msg)
	}
}

// catchVio runs f and returns the first oracle failure raised inside it through bad().
func catchVio(f func(bad func(key, format string, args ...any))) (v *vio) {
	defer func() {
		if x := recover(); x != nil {
			vv, ok := x.(*vio)
			if !ok {
				panic(x)
			}
			v = vv
		}
	}()
	f(func(key, format string, args ...any) { panic(&vio{key, fmt.Sprintf(format, args...)}) })
	return nil
}

// accessorSizes are the transaction counts of TestPropAccessorRoundTrip (around the CBOR array-header widths).
var accessorSizes = []int{0, 0, 1, 2, 3, 5, 12, 40, 0, 1, 2, 3, 5, 12, 23, 24, 25, 256, 257}

// drawRec draws the records of one block at height num (header, ntx drawn from sizes transactions of all kinds with
// receipts, state update, commitments). classify = the accessor round trip: its labels / non-trivial marks and its wide
// (23..257) event lists.
func drawRec(rt *rapid.T, c *stats.Case, u *gen.Universe, ch *gen.Chain, num uint64, sizes []int, classify bool) rec {
	ntx := rapid.SampledFrom(sizes).Draw(rt, "ntx")
	if (ntx == 40 || ntx >= 256) && !stats.Thorough() && rapid.IntRange(0, 3).Draw(rt, "keepWide") != 0 {
		ntx = 12
	}
	if ntx >= 23 && classify {
		c.Labelf("block-with-%d-transactions", ntx)
	}
	var txs []core.Transaction
	var rcs []*core.TransactionReceipt
	kinds := map[string]bool{}
	evCount := uint64(0)
	ver := rapid.SampledFrom(gen.Versions).Draw(rt, "txver")
	for j := 0; j < ntx; j++ {
		tx := ch.DrawTx(rt, ver)
		if rapid.IntRange(0, 11).Draw(rt, "queryBit") == 0 && withQueryBit(tx) {
			// a version carrying the query bit (2^128 + v) is a value of the stored type like any other
			gen.SetTxHash(tx, u.Net)
			if classify {
				c.Label("transaction-version-with-query-bit")
			}
		}
		kinds[fmt.Sprintf("%T/%s", tx, tx.TxVersion().String())] = true
		r := ch.DrawReceipt(rt, tx)
		if rapid.IntRange(0, 5).Draw(rt, "nilres") == 0 {
			r.ExecutionResources = nil
		}
		if classify && len(r.Events) > 0 && rapid.IntRange(0, 39).Draw(rt, "wideEvents") == 0 {
			// event counts around the CBOR array-header widths
			for want := rapid.SampledFrom([]int{23, 24, 25, 255, 256, 257}).Draw(rt, "nevWide"); len(r.Events) < want; {
				e := *r.Events[len(r.Events)%3%len(r.Events)]
				r.Events = append(r.Events, &e)
			}
			c.Label("receipt-with-wide-event-list")
		}
		evCount += uint64(len(r.Events))
		txs, rcs = append(txs, tx), append(rcs, r)
	}
	// the counts in a header are redundant copies: a header decoded from an old record (field absent = 0) or taken from a
	// peer need not agree with the stored transaction list, and no accessor may answer from the copy instead of the record
	hdrTxs, hdrEvs := uint64(ntx), evCount
	if classify && rapid.IntRange(0, 7).Draw(rt, "staleCounts") == 0 {
		hdrTxs = uint64(rapid.SampledFrom([]int{0, 0, ntx + 1, max(ntx-1, 0), 1000}).Draw(rt, "hdrTxs"))
		hdrEvs = uint64(rapid.SampledFrom([]int{0, int(evCount) + 1, 7}).Draw(rt, "hdrEvs"))
		c.Label("header-counts-differ-from-the-stored-lists")
	}
	h := arbitraryHeader(rt, num, hdrTxs, hdrEvs)
	h.EventsBloom = core.EventsBloom(rcs)
	b := ch.Draw(rt) // for a state diff with every section possibly populated
	// the feeder adapter stores a contract listed with no changed slot as an entry with an empty slot map, and the
	// state-diff hash / commitment count such entries: they must come back too
	if rapid.IntRange(0, 2).Draw(rt, "emptySlotMaps") == 0 {
		if b.SU.StateDiff.StorageDiffs == nil {
			b.SU.StateDiff.StorageDiffs = map[felt.Felt]map[felt.Felt]*felt.Felt{}
		}
		for j := rapid.IntRange(1, 2).Draw(rt, "nEmpty"); j > 0; j-- {
			a := rapid.SampledFrom(u.AllAddrs()).Draw(rt, "emptyAddr")
			if _, has := b.SU.StateDiff.StorageDiffs[a]; !has {
				b.SU.StateDiff.StorageDiffs[a] = map[felt.Felt]*felt.Felt{}
				if classify {
					c.Label("storage-diff-entry-without-slots")
				}
			}
		}
	}
	su := &core.StateUpdate{BlockHash: h.Hash, NewRoot: ptr(gen.Felt().Draw(rt, "nr")), OldRoot: ptr(gen.Felt().Draw(rt, "or")), StateDiff: b.SU.StateDiff}
	cm := &core.BlockCommitments{TransactionCommitment: ptr(gen.Felt().Draw(rt, "c1")), EventCommitment: ptr(gen.Felt().Draw(rt, "c2")),
		ReceiptCommitment: ptr(gen.Felt().Draw(rt, "c3")), StateDiffCommitment: ptr(gen.Felt().Draw(rt, "c4")), StateDiffLength: su.StateDiff.Length()}
	c.Fp("blk %d %s ntx%d %v", num, h.Hash.String(), ntx, len(kinds))
	if classify {
		if len(kinds) >= 2 {
			c.NonTrivial("mixed-kinds")
		}
		if ntx == 0 {
			c.NonTrivial("empty-block")
		}
		if h.SequencerAddress == nil || h.L1DataGasPrice == nil || h.L2GasPrice == nil || h.L1GasPriceSTRK == nil {
			c.NonTrivial("nil-optional-field")
		}
	}
	return rec{h, txs, rcs, su, cm, &canonMemo{map[memoKey]any{}}}
}

// writeRec stores the records of one block the ordinary way: one core.Write* call per record family.
func writeRec(w db.KeyValueWriter, r rec) error {
	if err := core.WriteBlockHeader(w, r.h); err != nil {
		return err
	}
	if err := core.WriteTransactionsAndReceipts(w, r.h.Number, r.txs, r.rcs); err != nil {
		return err
	}
	if err := core.WriteStateUpdateByBlockNum(w, r.h.Number, r.su); err != nil {
		return err
	}
	if err := core.WriteBlockCommitment(w, r.h.Number, r.cm); err != nil {
		return err
	}
	return core.WriteL1HandlerMsgHashes(w, r.txs)
}

// checkRec reads block r back through every accessor of core/accessors.go (incl. the partial decoders) and compares
// with the written records. It returns the first failed oracle.
func checkRec(rd db.KeyValueReader, r rec, net *networks.Network) *vio {
	return checkRecProbing(rd, r, net, true)
}

// checkRecProbing is checkRec; outOfRange = also probe indexes past the end (reads whose decoder fails inside the
// store's Get callback).
func checkRecProbing(rd db.KeyValueReader, r rec, net *networks.Network, outOfRange bool) *vio {
	return catchVio(func(bad func(key, format string, args ...any)) {
		num := r.h.Number
		// headers
		gh, err := core.GetBlockHeaderByNumber(rd, num)
		if err != nil || !r.mem.same(gh, r.h) {
			bad("header-by-number", "block %d: header read back %s (%v) != written %s", num, show(gh), err, show(r.h))
		}
		gh2, err := core.GetBlockHeaderByHash(rd, r.h.Hash)
		if err != nil || !r.mem.same(gh2, r.h) {
			bad("header-by-hash", "block %d: header by hash %s (%v)", num, show(gh2), err)
		}
		n2, err := core.GetBlockHeaderNumberByHash(rd, r.h.Hash)
		if err != nil || n2 != num {
			bad("number-by-hash", "block %d: number by hash = %d, %v", num, n2, err)
		}
		// partial decoders of the header
		if hh, err := core.GetBlockHeaderHashByNumber(rd, num); err != nil || !hh.Equal(r.h.Hash) {
			bad("partial-header-hash", "block %d: partial hash %v, %v != %s", num, hh, err, r.h.Hash.String())
		}
		if rt2, err := core.GetGlobalStateRootByBlockNumber(rd, num); err != nil || !rt2.Equal(r.h.GlobalStateRoot) {
			bad("partial-header-root", "block %d: partial state root %v, %v", num, rt2, err)
		}
		if cnt, err := core.GetBlockTransactionCountByNumber(rd, num); err != nil || cnt != r.h.TransactionCount {
			bad("partial-header-txcount", "block %d: partial tx count %d, %v != %d", num, cnt, err, r.h.TransactionCount)
		}
		if ts, err := core.GetBlockHeaderTimestampByNumber(rd, num); err != nil || ts != r.h.Timestamp {
			bad("partial-header-timestamp", "block %d: partial timestamp %d, %v != %d", num, ts, err, r.h.Timestamp)
		}
		if bl, err := core.GetBlockHeaderEventsBloomByNumber(rd, num); err != nil || !r.mem.same(bl, r.h.EventsBloom) {
			bad("partial-header-bloom", "block %d: partial bloom differs (%v)", num, err)
		}
		if hh, rr, err := core.GetBlockHeaderHashAndStateRootByNumber(rd, num); err != nil || !r.mem.same(hh, r.h.Hash) || !r.mem.same(rr, r.h.GlobalStateRoot) {
			bad("partial-header-hash+root", "block %d: partial hash+root %v %v %v", num, hh, rr, err)
		}
		// transactions / receipts
		txs, err := core.GetTransactionsByBlockNumber(rd, num)
		if err != nil || !r.mem.same(txs, r.txs) {
			bad("txs-by-block", "block %d: transactions read back differ (%v): %s vs %s", num, err, show(txs), show(r.txs))
		}
		rcs, err := core.GetReceiptsByBlockNumber(rd, num)
		if err != nil || !r.mem.same(rcs, r.rcs) {
			bad("receipts-by-block", "block %d: receipts read back differ (%v): %s vs %s", num, err, show(rcs), show(r.rcs))
		}
		t2, r2, err := core.GetTransactionsAndReceiptsByBlockNumber(rd, num)
		if err != nil || !r.mem.same(t2, r.txs) || !r.mem.same(r2, r.rcs) {
			bad("txs+receipts-by-block", "block %d: combined read differs (%v)", num, err)
		}
		blk, err := core.GetBlockByNumber(rd, num)
		if err != nil || !r.mem.same(blk.Transactions, r.txs) || !r.mem.same(blk.Receipts, r.rcs) || !r.mem.same(blk.Header, r.h) {
			bad("block-by-number", "block %d: GetBlockByNumber differs (%v)", num, err)
		}
		hs, err := core.GetTransactionHashesByBlockNumber(rd, num)
		if err != nil || len(hs) != len(r.txs) {
			bad("tx-hashes", "block %d: %d tx hashes (%v), want %d", num, len(hs), err, len(r.txs))
		}
		evs, err := core.GetTransactionEventsByBlockNumber(rd, num)
		if err != nil || len(evs) != len(r.rcs) {
			bad("tx-events", "block %d: %d event projections (%v), want %d", num, len(evs), err, len(r.rcs))
		}
		i := 0
		for tx, err := range core.GetTransactionsByBlockNumberIter(rd, num) {
			if err != nil || i >= len(r.txs) || !r.mem.same(tx, r.txs[i]) {
				bad("txs-iter", "block %d: iterator item %d differs (%v)", num, i, err)
			}
			i++
		}
		if i != len(r.txs) {
			bad("txs-iter", "block %d: iterator yielded %d of %d", num, i, len(r.txs))
		}
		for i, tx := range r.txs {
			if !hs[i].Equal(tx.Hash()) {
				bad("tx-hashes", "block %d tx %d: hash projection %s != %s", num, i, hs[i].String(), tx.Hash().String())
			}
			if !r.mem.same(evs[i], core.TransactionEvents{Events: r.rcs[i].Events, TransactionHash: r.rcs[i].TransactionHash}) {
				bad("tx-events", "block %d tx %d: events projection %s != receipt's %s", num, i, show(evs[i]), show(r.rcs[i].Events))
			}
			g, err := core.GetTransactionByBlockAndIndex(rd, num, uint64(i))
			if err != nil || !r.mem.same(g, tx) {
				bad("tx-by-index", "block %d tx %d: %s (%v) != %s", num, i, show(g), err, show(tx))
			}
			g2, err := core.GetTransactionByHash(rd, (*felt.TransactionHash)(tx.Hash()))
			if err != nil || !r.mem.same(g2, tx) {
				bad("tx-by-hash", "block %d tx %d by hash: %s (%v)", num, i, show(g2), err)
			}
			rc, err := core.GetReceiptByBlockAndIndex(rd, num, uint64(i))
			if err != nil || !r.mem.same(rc, r.rcs[i]) {
				bad("receipt-by-index", "block %d receipt %d: %s (%v) != %s", num, i, show(rc), err, show(r.rcs[i]))
			}
			g3, rc3, err := core.GetTransactionAndReceiptByBlockAndIndex(rd, num, uint64(i))
			if err != nil || !r.mem.same(g3, tx) || !r.mem.same(rc3, r.rcs[i]) {
				bad("tx+receipt-by-index", "block %d index %d differs (%v)", num, i, err)
			}
			st, err := core.GetTransactionExecutionStatusByBlockAndIndex(rd, num, uint64(i))
			if err != nil || st.Reverted != r.rcs[i].Reverted || st.RevertReason != r.rcs[i].RevertReason {
				bad("execution-status", "block %d index %d: status %+v (%v) != receipt's (%v,%q)", num, i, st, err, r.rcs[i].Reverted, r.rcs[i].RevertReason)
			}
			// the hash recomputed from the READ-BACK value equals the stored hash (decides nil/empty distinctions the hash depends on)
			if h, err := core.TransactionHash(g, net); err == nil && !h.IsZero() && !h.Equal(tx.Hash()) {
				bad("hash-of-read-back-tx", "block %d tx %d (%T v%s): hash recomputed from the read-back value %s != stored %s", num, i, tx, tx.TxVersion().String(), h.String(), tx.Hash().String())
			}
			if l1, ok := tx.(*core.L1HandlerTransaction); ok {
				th, err := core.GetL1HandlerTxnHashByMsgHash(rd, l1.MessageHash())
				if err != nil || !th.Equal(tx.Hash()) {
					bad("l1-message-lookup", "block %d: L1 handler lookup by message hash = %s, %v", num, th.String(), err)
				}
				var eh eth.Hash
				eh.SetBytes(l1.MessageHash())
				_ = eh
			}
		}
		// out of range ⇒ not found, never a panic
		if n := uint64(len(r.txs)); outOfRange {
			if _, err := core.GetTransactionByBlockAndIndex(rd, num, n); err == nil {
				bad("index-out-of-range", "block %d: transaction at index %d (one past the end) found", num, n)
			}
			if _, err := core.GetReceiptByBlockAndIndex(rd, num, n+3); err == nil {
				bad("index-out-of-range", "block %d: receipt at index %d found", num, n+3)
			}
			if _, err := core.GetTransactionExecutionStatusByBlockAndIndex(rd, num, n); err == nil {
				bad("index-out-of-range", "block %d: status at index %d found", num, n)
			}
		}
		// state update, commitments
		su, err := core.GetStateUpdateByBlockNum(rd, num)
		if err != nil || !r.mem.same(su, r.su) {
			bad("state-update-by-number", "block %d: state update %s (%v) != %s", num, show(su), err, show(r.su))
		}
		if err == nil {
			if a, b := su.StateDiff.Hash(), r.su.StateDiff.Hash(); !a.Equal(&b) {
				bad("state-diff-hash", "block %d: hash of read-back state diff %s != written %s", num, a.String(), b.String())
			}
			if su.StateDiff.Length() != r.su.StateDiff.Length() {
				bad("state-diff-length", "block %d: length %d != %d", num, su.StateDiff.Length(), r.su.StateDiff.Length())
			}
		}
		su2, err := core.GetStateUpdateByHash(rd, r.h.Hash)
		if err != nil || !r.mem.same(su2, r.su) {
			bad("state-update-by-hash", "block %d: state update by hash differs (%v)", num, err)
		}
		cm, err := core.GetBlockCommitmentByBlockNum(rd, num)
		if err != nil || !r.mem.same(cm, r.cm) {
			bad("commitments", "block %d: commitments %s (%v) != %s", num, show(cm), err, show(r.cm))
		}
	})
}


// withQueryBit adds 2^128 to the transaction's version (false: the transaction has no version field to change).
func withQueryBit(tx core.Transaction) bool {
	var v **core.TransactionVersion
	switch x := tx.(type) {
	case *core.InvokeTransaction:
		v = &x.Version
	case *core.DeclareTransaction:
		v = &x.Version
	case *core.DeployAccountTransaction:
		v = &x.Version
	case *core.L1HandlerTransaction:
		v = &x.Version
	case *core.DeployTransaction:
		v = &x.Version
	}
	if v == nil || *v == nil || (*v).HasQueryBit() {
		return false
	}
	q := new(felt.Felt).Exp(new(felt.Felt).SetUint64(2), big.NewInt(128))
	var nv core.TransactionVersion
	nv.AsFelt().Add((*v).AsFelt(), q)
	*v = &nv
	return true
}
