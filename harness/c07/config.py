# Driver configuration for property C07
PROP = dict(
    pkg="c07", level="exploration",
    technique=("round-trip PBT: write with core.Write*/Blockchain.Store, read through every accessor, structural equality + hash of read-back value; "
               "partial decoder vs full decoder differential; lifetime oracle over scripts of several blocks on one store: values built ahead of their write, "
               "values passed in and every kept read result are re-verified against snapshots of the originals after all later builds / writes / reads "
               "(sequential, and 2-4 concurrent writers+readers under -race)"),
    level_text=("Exploration: generated headers/transactions/receipts/state updates/classes are stored (accessor level at sparse block numbers, and through "
                "Blockchain.Store for valid chains) and read back through every accessor; equality is structural with nil == empty only for slices/maps, "
                "and the hashes recomputed from the read-back values must equal the stored ones. Values overlap in lifetime: several blocks are encoded before the "
                "first of them is written, results of reads are held across later writes, batch/snapshot closes, Pebble flushes and reopenings, and several "
                "goroutines use one store at once."),
    rule=("arbitrary headers with nil/non-nil optional fields (in 1/8 of the accessor-level blocks the header's transaction / event counts differ from the stored lists: redundant copies no accessor may answer from), 0-12 (thorough 40) transactions of all 5 kinds x versions (1/12 with the query bit 2^128 set in the version), receipts with events/messages/"
          "resources/revert reasons, state updates with every section populated or empty, Sierra and Cairo-0 classes; block numbers around CBOR width "
          "boundaries; memory and Pebble; Sierra program / CASM bytecode sizes around every CBOR header width, 2^16, 2^17 and up to 300001 felts "
          "with every limb width class of the felt codec (TestPropClassSizesRoundTrip); blocks of 255..2049 (thorough ..10007) transactions around powers of two, not multiples of 8, with every element of every bulk accessor compared (TestPropBigBlocksRoundTrip). Non-trivial = mixed-kind block, empty block, or nil optional header field; distinct = SHA-256 of block ids and shapes. "
          "Reorgs (TestPropReorgReadBack): prefix + fork stored on one long-lived Blockchain, whole Reader API read, fork reverted, another fork re-including a third of the abandoned transactions (same hash, other block / index, new receipt) stored, read again (2-3 forks); the object must answer like a fresh node holding only the current chain for every block / tx / L1-message hash ever seen. "
          "Overlapping lifetimes (TestPropOverlappingLifetimes, TestRaceConcurrentBlocks): a case is a script over 2-6 (thorough 2-10) blocks of 0-20 (thorough 0-257) "
          "transactions on ONE store (memory, 35% Pebble v2): groups of 1-4 blocks whose encodable forms (NewBlockTransactions / NewBlockTransactionsFromIterators / "
          "BlockTransactionsSerializer.Marshal, encoder.Marshal of header, state update, commitments and of the class declaration a third of the blocks carries (Sierra / Cairo-0) - "
          "drawn per record family, or none = the accessor encodes at write time) "
          "are ALL built before the first is written, then written in a drawn order through a drawn writer (one batch, one batch per block committed later in reverse order, "
          "the store itself, an indexed batch read through before its commit, Helper.Write), with ordinary one-call writes of other blocks, reads and throw-away encodes "
          "between build and write; reads through the store / a snapshot closed afterwards / an uncommitted indexed batch, prefix scans of the transactions bucket whose "
          "entries are decoded after the iterator is closed, Pebble flushes and close+reopen, blocks replaced at the same height (reorg); EVERY result of a read (decoded "
          "values, lazily decoded slices, unconsumed iterators, raw blobs) is kept and re-verified at drawn checkpoints and at the end of the case; at the end every live block "
          "is swept through every accessor again, built values must equal the copies taken when they were built and the inputs must equal their snapshots. "
          "Concurrent variant under -race: 2-4 goroutines on 2 Ps run one such script each (2-3, thorough 2-4 blocks; disjoint block numbers, drawn yield points between "
          "build and write) on one store; each verifies its own round trips and kept results (schedule-independent), everything is verified again after the join. "
          "Non-trivial there = a form was built while another built form was still waiting for its write, or a kept result was re-verified after a later write. "
          "Blockchain level under -race (TestRaceStoreWhileReading): one Blockchain (drawn state backend, memory / 40% Pebble), a writer goroutine stores a generated valid "
          "chain of 3-6 (thorough 3-10) blocks through SanityCheckNewHeight+Store while 1-3 reader goroutines read the blocks already announced through the Reader accessors "
          "in a drawn order, compare with the originals, keep every result and re-verify all kept results after each later read and after the join. "
          "Excluded while the tree has it (probed at run time, TestKnownPebbleSnapshotGetLeak): decoders failing inside a Pebble snapshot's Get callback (out-of-range index "
          "probes through a snapshot), because pebblev2 snapshot.Get then leaks a reference and DB.Close panics."),
    assumptions=["encoding/json rendering is used as the canonical form for structural comparison", "fxamacker/cbor trusted",
                 "a value returned by a constructor/encoder/accessor belongs to the caller: nothing documents that it is invalidated by a later call"],
    runs=[dict(run="^Test(Prop|Known)"), dict(run="^TestRace", race=True)],
)
