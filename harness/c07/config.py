# Driver configuration for property C07
PROP = dict(
    pkg="c07", level="exploration",
    technique="round-trip PBT: write with core.Write*/Blockchain.Store, read through every accessor, structural equality + hash of read-back value; partial decoder vs full decoder differential",
    level_text=("Exploration: generated headers/transactions/receipts/state updates/classes are stored (accessor level at sparse block numbers, and through "
                "Blockchain.Store for valid chains) and read back through every accessor; equality is structural with nil == empty only for slices/maps, "
                "and the hashes recomputed from the read-back values must equal the stored ones."),
    rule=("arbitrary headers with nil/non-nil optional fields, 0-12 (thorough 40) transactions of all 5 kinds x versions, receipts with events/messages/"
          "resources/revert reasons, state updates with every section populated or empty, Sierra and Cairo-0 classes; block numbers around CBOR width "
          "boundaries; memory and Pebble; Sierra program / CASM bytecode sizes around every CBOR header width, 2^16, 2^17 and up to 300001 felts "
          "with every limb width class of the felt codec (TestPropClassSizesRoundTrip). Non-trivial = mixed-kind block, empty block, or nil optional header field; distinct = SHA-256 of block ids and shapes."),
    assumptions=["encoding/json rendering is used as the canonical form for structural comparison", "fxamacker/cbor trusted"],
    runs=[dict(run="^Test(Prop|Known)")],
)
