package c07

import (
	"errors"
	"os"
	"path/filepath"
	"sync"
	"testing"

	"github.com/NethermindEth/juno/db/pebblev2"
	"github.com/cockroachdb/pebble/v2"

	"verif/harness/internal/stats"
)

// Finding (outside C07's statement, a C15 matter, met while widening C07): pebblev2 snapshot.Get does not release the
// value's closer when the caller's callback returns an error (db/pebblev2/snapshot.go: `if err := cb(data); err != nil
// { return err }`). Every accessor whose decoder legitimately fails inside the callback - e.g.
// core.GetTransactionByBlockAndIndex with an index one past the end, which returns db.ErrKeyNotFound from the partial
// decoder - leaks a file-cache reference when it reads a flushed value through a snapshot, and the next DB.Close panics with
// "element has outstanding references". DB.Get and batch.Get close the closer on both paths.
const kfSnapshotGetLeak = "c15-pebblev2-snapshot-get-leaks-closer-on-callback-error"

var snapshotGetLeak struct {
	once sync.Once
	yes  bool
}

// snapshotGetLeaks probes once per process whether the defect above is present in the tree under test (deterministic witness). Only while the finding is LISTED as known do the
// generators do not send failing callbacks through a Pebble snapshot (counted with c.Excluded).
func snapshotGetLeaks() bool {
	snapshotGetLeak.once.Do(func() {
		dir := scratch()
		defer os.RemoveAll(dir)
		d, err := pebblev2.New(filepath.Join(dir, "db"))
		if err != nil {
			stats.HarnessError("pebble: %v", err)
		}
		if err := d.Put([]byte("k"), []byte("v")); err != nil {
			stats.HarnessError("pebble put: %v", err)
		}
		if p, ok := d.Impl().(*pebble.DB); !ok {
			stats.HarnessError("pebblev2 Impl() is not a *pebble.DB")
		} else if err := p.Flush(); err != nil { // the value must come from a table, not from the memtable
			stats.HarnessError("pebble flush: %v", err)
		}
		sn := d.NewSnapshot()
		_ = sn.Get([]byte("k"), func([]byte) error { return errors.New("decoder says no") })
		if err := sn.Close(); err != nil {
			stats.HarnessError("snapshot close: %v", err)
		}
		func() {
			defer func() {
				if recover() != nil {
					snapshotGetLeak.yes = true
				}
			}()
			_ = d.Close()
		}()
	})
	return snapshotGetLeak.yes
}

// TestKnownPebbleSnapshotGetLeak is the deterministic witness of the finding above.
func TestKnownPebbleSnapshotGetLeak(t *testing.T) {
	reproduced := snapshotGetLeaks()
	t.Logf("pebblev2 snapshot.Get leaks the closer when the callback fails (DB.Close panics afterwards): %v", reproduced)
	stats.KnownFindingWitness(t, kfSnapshotGetLeak, reproduced)
}
