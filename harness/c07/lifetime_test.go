package c07

// Overlapping lifetimes (added after seed C07-f).
//
// The accessor round trip writes every value right after building it and reads it back before the next one is built, so a
// value that silently shares memory with a LATER value (a pooled / reused encode buffer, a decoded value that still points
// into the store's read buffer) is never observed. Here a case is a SCRIPT over several blocks of one store in which
//   - the encodable forms of several blocks are built first (core.NewBlockTransactions, NewBlockTransactionsFromIterators,
//     BlockTransactionsSerializer.Marshal, encoder.Marshal of header / state update / commitments / declared class) and written later, in a
//     drawn order, through drawn kinds of writers (one batch for all, one batch each filled first and committed later,
//     straight to the store, an indexed batch that is read through before its commit, Helper.Write), with ordinary
//     one-call writes of other blocks, reads and throw-away encodes in between;
//   - every result of a read (decoded values, lazily decoded slices, iterators, raw blobs) is KEPT and re-verified at the
//     end of the case (and at drawn checkpoints) after all the later writes, reads, flushes, snapshot / batch closes and
//     database reopenings;
//   - blocks may be replaced (reorg) while results of the old block are still held.
// The same scripts run concurrently (TestRaceConcurrentBlocks, under -race): 2..4 goroutines on ONE store, disjoint blocks;
// chainrace_test.go does the same one level up (one Blockchain: a storing goroutine and reading goroutines).
//
// Oracles: the round trip of the property (checkRec, against the originals), "a value handed out does not change"
// (held-result-changed, built-value-changed) and "a value passed in is not changed" (input-changed). All comparisons go
// against JSON snapshots of the originals taken at generation time, before anything was written.

import (
	"bytes"
	"encoding/hex"
	"encoding/json"
	"fmt"
	"iter"
	"os"
	"path/filepath"
	"reflect"
	"runtime"
	"slices"
	"sort"
	"sync"
	"testing"

	"github.com/NethermindEth/juno/blockchain/networks"
	"github.com/NethermindEth/juno/core"
	"github.com/NethermindEth/juno/core/felt"
	"github.com/NethermindEth/juno/db"
	"github.com/NethermindEth/juno/db/memory"
	"github.com/NethermindEth/juno/db/pebblev2"
	"github.com/NethermindEth/juno/encoder"
	"github.com/cockroachdb/pebble/v2"
	"pgregory.net/rapid"

	"verif/harness/internal/gen"
	"verif/harness/internal/stats"
)

// ---------------------------------------------------------------------------------------------------------------------
// blocks, snapshots of the originals, built forms, held results

// snap holds independent renderings of the originals of one block, taken before anything was written.
type snap struct {
	txs, rcs       []any // per item
	txsAll, rcsAll any
	block          any // {h, t, r}
	h, su, cm      any
	hashes         any
	events         any
	hash, root     any
	bloom          any
}

func blockView(h *core.Header, txs []core.Transaction, rcs []*core.TransactionReceipt) map[string]any {
	return map[string]any{"h": h, "t": txs, "r": rcs}
}

func eventsOf(rcs []*core.TransactionReceipt) []core.TransactionEvents {
	out := make([]core.TransactionEvents, len(rcs))
	for i, r := range rcs {
		out[i] = core.TransactionEvents{Events: r.Events, TransactionHash: r.TransactionHash}
	}
	return out
}

func hashesOf(txs []core.Transaction) []felt.Felt {
	out := make([]felt.Felt, len(txs))
	for i, tx := range txs {
		out[i] = *tx.Hash()
	}
	return out
}

func takeSnap(r rec) *snap {
	s := &snap{txsAll: canon(r.txs), rcsAll: canon(r.rcs), block: canon(blockView(r.h, r.txs, r.rcs)), h: canon(r.h), su: canon(r.su), cm: canon(r.cm),
		hashes: canon(hashesOf(r.txs)), events: canon(eventsOf(r.rcs)), hash: canon(r.h.Hash), root: canon(r.h.GlobalStateRoot), bloom: canon(r.h.EventsBloom)}
	for i := range r.txs {
		s.txs = append(s.txs, canon(r.txs[i]))
		s.rcs = append(s.rcs, canon(r.rcs[i]))
	}
	return s
}

func eq(got, want any) bool { return reflect.DeepEqual(canon(got), want) }

// render is the JSON text of v (map keys sorted): enough to see that a value did not change.
func render(v any) string {
	b, err := json.Marshal(v)
	if err != nil {
		return "!json:" + err.Error()
	}
	return string(b)
}

// forms says how the records of a block reach the writer: built ahead of the write, or encoded by the accessor itself.
type forms struct {
	txs         int  // formDirect, formBlob, formBlobIter, formBytes
	hdr, su, cm bool // pre-encoded with encoder.Marshal
	cls         bool // declared class pre-encoded with encoder.Marshal (as core.WriteClass does)
}

// clsDecl is a class declared by a block (stored under its class hash with the declaring height).
type clsDecl struct {
	hash felt.Felt
	def  core.ClassDefinition
	want any
}

func classView(at uint64, def core.ClassDefinition) map[string]any {
	return map[string]any{"at": at, "type": fmt.Sprintf("%T", def), "class": def}
}

// classPool: the class definitions a case may declare (each at most once: the class hash is the key).
func classPool(rt *rapid.T, u *gen.Universe) *[]*clsDecl {
	var all []*clsDecl
	for _, s := range u.Sierra {
		all = append(all, &clsDecl{hash: s.Hash, def: s.Def})
	}
	for _, s := range u.Cairo0 {
		all = append(all, &clsDecl{hash: s.Hash, def: s.Def})
	}
	all = rapid.Permutation(all).Draw(rt, "classOrder")
	return &all
}

const (
	formDirect   = iota // core.WriteTransactionsAndReceipts at write time
	formBlob            // core.NewBlockTransactions ahead, BlockTransactionsBucket.Put later
	formBlobIter        // core.NewBlockTransactionsFromIterators ahead (as the block-transactions migration does)
	formBytes           // … and BlockTransactionsSerializer.Marshal ahead, RawValue().Put later
)

var formNames = []string{"direct", "blob", "blob-from-iterators", "serialized-bytes"}

func (f forms) prebuilt() bool { return f.txs != formDirect || f.hdr || f.su || f.cm || f.cls }

// built is what a build step produced, with copies taken at hand-out time.
type built struct {
	f                       forms
	bt                      core.BlockTransactions
	btData                  []byte
	btTx, btRc              []int
	raw, rawCopy            []byte
	hdr, su, cm             []byte
	hdrCopy, suCopy, cmCopy []byte
	cls, clsCopy            []byte
}

type blk struct {
	rec
	cls      *clsDecl // nil = the block declares no class
	s        *snap
	b        *built // nil until built; nil = everything direct
	written  bool
	dead     bool // replaced by another block at the same height
	replaces *blk
}

// held is one kept result of a read.
type held struct {
	key  string // oracle key of the accessor (as in checkRec)
	what string
	want any
	get  func() (any, error)
	lazy bool // decoded only when the kept results are verified
	w    int  // number of writes of the runner when the result was obtained
}

func seqOf[T any](items []T) iter.Seq2[T, error] {
	return func(yield func(T, error) bool) {
		for _, it := range items {
			if !yield(it, nil) {
				return
			}
		}
	}
}

// build produces the encodable forms of block b that f asks for. Every form must decode to the originals right away.
func build(b *blk, f forms) *vio {
	return catchVio(func(bad func(key, format string, args ...any)) {
		bl := &built{f: f}
		num := b.h.Number
		var err error
		switch f.txs {
		case formBlob, formBytes:
			bl.bt, err = core.NewBlockTransactions(b.txs, b.rcs)
		case formBlobIter:
			bl.bt, err = core.NewBlockTransactionsFromIterators(seqOf(b.txs), seqOf(b.rcs))
		}
		if err != nil {
			bad("build-failed", "block %d: building the transactions blob (%s): %v", num, formNames[f.txs], err)
		}
		if f.txs != formDirect {
			if f.txs == formBytes {
				if bl.raw, err = (core.BlockTransactionsSerializer{}).Marshal(&bl.bt); err != nil {
					bad("build-failed", "block %d: serializing the transactions blob: %v", num, err)
				}
				bl.rawCopy = slices.Clone(bl.raw)
			}
			bl.btData, bl.btTx, bl.btRc = slices.Clone(bl.bt.Data), slices.Clone(bl.bt.Indexes.Transactions), slices.Clone(bl.bt.Indexes.Receipts)
			if txs, err := bl.bt.Transactions().All(); err != nil || !eq(txs, b.s.txsAll) {
				bad("built-blob-decodes", "block %d: fresh blob (%s) decodes to transactions %s (%v), built from %s", num, formNames[f.txs], show(txs), err, show(b.txs))
			}
			if rcs, err := bl.bt.Receipts().All(); err != nil || !eq(rcs, b.s.rcsAll) {
				bad("built-blob-decodes", "block %d: fresh blob (%s) decodes to receipts %s (%v), built from %s", num, formNames[f.txs], show(rcs), err, show(b.rcs))
			}
		}
		enc := func(v any, what string) ([]byte, []byte) {
			data, err := encoder.Marshal(v)
			if err != nil {
				bad("build-failed", "block %d: encoder.Marshal(%s): %v", num, what, err)
			}
			return data, slices.Clone(data)
		}
		if f.hdr {
			bl.hdr, bl.hdrCopy = enc(b.h, "header")
		}
		if f.su {
			bl.su, bl.suCopy = enc(b.su, "state update")
		}
		if f.cm {
			bl.cm, bl.cmCopy = enc(b.cm, "commitments")
		}
		if f.cls && b.cls != nil {
			// as core.WriteClass encodes it
			bl.cls, bl.clsCopy = enc(&core.DeclaredClassDefinition{At: num, Class: b.cls.def}, "class declaration")
		}
		b.b = bl
	})
}

// unchanged: the values a build step handed out still equal the copies taken when they were handed out.
func (bl *built) unchanged(num uint64, when string) *vio {
	pairs := []struct {
		what     string
		now, was []byte
	}{{"BlockTransactions.Data", bl.bt.Data, bl.btData}, {"serialized blob", bl.raw, bl.rawCopy}, {"encoded header", bl.hdr, bl.hdrCopy},
		{"encoded state update", bl.su, bl.suCopy}, {"encoded commitments", bl.cm, bl.cmCopy}, {"encoded class declaration", bl.cls, bl.clsCopy}}
	for _, p := range pairs {
		if !bytes.Equal(p.now, p.was) {
			return &vio{"built-value-changed", fmt.Sprintf("block %d (%s): the %s built ahead of its write changed while it was held (%s): %d bytes, first difference at %d",
				num, formNames[bl.f.txs], p.what, when, len(p.now), firstDiff(p.now, p.was))}
		}
	}
	if !slices.Equal(bl.bt.Indexes.Transactions, bl.btTx) || !slices.Equal(bl.bt.Indexes.Receipts, bl.btRc) {
		return &vio{"built-value-changed", fmt.Sprintf("block %d: the indexes of the blob built ahead of its write changed while it was held (%s)", num, when)}
	}
	return nil
}

func firstDiff(a, b []byte) int {
	for i := 0; i < len(a) && i < len(b); i++ {
		if a[i] != b[i] {
			return i
		}
	}
	return min(len(a), len(b))
}

// writeBlk writes block b to w: record families built ahead are written from their built form, exactly as the accessor
// would (same keys, same buckets), the others through the accessor.
func writeBlk(w db.KeyValueWriter, b *blk) error {
	num := b.h.Number
	f := forms{}
	if b.b != nil {
		f = b.b.f
	}
	if err := core.WriteBlockHeaderNumberByHash(w, b.h.Hash, num); err != nil {
		return err
	}
	if f.hdr {
		if err := w.Put(db.BlockHeaderByNumberKey(num), b.b.hdr); err != nil {
			return err
		}
	} else if err := core.WriteBlockHeaderByNumber(w, b.h); err != nil {
		return err
	}
	if f.txs == formDirect {
		if err := core.WriteTransactionsAndReceipts(w, num, b.txs, b.rcs); err != nil {
			return err
		}
	} else {
		for i, tx := range b.txs {
			key := db.BlockNumIndexKey{Number: num, Index: uint64(i)}
			if err := core.TransactionBlockNumbersAndIndicesByHashBucket.Put(w, (*felt.TransactionHash)(tx.Hash()), &key); err != nil {
				return err
			}
		}
		if f.txs == formBytes {
			if err := core.BlockTransactionsBucket.RawValue().Put(w, num, &b.b.raw); err != nil {
				return err
			}
		} else if err := core.BlockTransactionsBucket.Put(w, num, &b.b.bt); err != nil {
			return err
		}
	}
	if f.su {
		if err := w.Put(db.StateUpdateByBlockNumKey(num), b.b.su); err != nil {
			return err
		}
	} else if err := core.WriteStateUpdateByBlockNum(w, num, b.su); err != nil {
		return err
	}
	if f.cm {
		if err := w.Put(db.BlockCommitmentsKey(num), b.b.cm); err != nil {
			return err
		}
	} else if err := core.WriteBlockCommitment(w, num, b.cm); err != nil {
		return err
	}
	if b.cls != nil {
		if f.cls {
			if err := w.Put(db.ClassKey(&b.cls.hash), b.b.cls); err != nil {
				return err
			}
		} else if err := core.WriteClass(w, &b.cls.hash, &core.DeclaredClassDefinition{At: num, Class: b.cls.def}); err != nil {
			return err
		}
	}
	return core.WriteL1HandlerMsgHashes(w, b.txs)
}

// unwriteBlk removes block b (reorg): what RevertHead does at accessor level.
func unwriteBlk(rd db.KeyValueReader, w db.Batch, b *blk) error {
	num := b.h.Number
	if err := core.DeleteTransactionsAndReceipts(rd, w, num); err != nil {
		return err
	}
	if err := core.DeleteBlockHeaderNumberByHash(w, b.h.Hash); err != nil {
		return err
	}
	if err := core.DeleteBlockHeaderByNumber(w, num); err != nil {
		return err
	}
	if err := core.DeleteStateUpdateByBlockNum(w, num); err != nil {
		return err
	}
	if b.cls != nil {
		if err := core.DeleteClass(w, &b.cls.hash); err != nil {
			return err
		}
	}
	return core.DeleteBlockCommitment(w, num)
}

// keep reads block b through rd and returns the results to hold on to. at = drawn transaction index for the single-item reads.
func keep(rd db.KeyValueReader, b *blk, at int, via string) ([]held, *vio) {
	var hs []held
	v := catchVio(func(bad func(key, format string, args ...any)) {
		num := b.h.Number
		s := b.s
		pre := fmt.Sprintf("block %d via %s: ", num, via)
		val := func(key, what string, want any, v any, err error) {
			if err != nil || !eq(v, want) {
				bad(key, "%s%s returned %s (%v), stored %s", pre, what, show(v), err, show(want))
			}
			// a decoded value is re-verified by its rendering (taken now that it is known to equal the original)
			was := render(v)
			hs = append(hs, held{key, pre + what, was, func() (any, error) { return render(v), nil }, false, 0})
		}
		lazy := func(key, what string, want any, get func() (any, error)) {
			hs = append(hs, held{key, pre + what, want, get, true, 0})
		}
		txs, err := core.GetTransactionsByBlockNumber(rd, num)
		val("txs-by-block", "GetTransactionsByBlockNumber", s.txsAll, txs, err)
		rcs, err := core.GetReceiptsByBlockNumber(rd, num)
		val("receipts-by-block", "GetReceiptsByBlockNumber", s.rcsAll, rcs, err)
		blk, err := core.GetBlockByNumber(rd, num)
		if err != nil {
			bad("block-by-number", "%sGetBlockByNumber: %v", pre, err)
		}
		val("block-by-number", "GetBlockByNumber", s.block, blockView(blk.Header, blk.Transactions, blk.Receipts), nil)
		hashes, err := core.GetTransactionHashesByBlockNumber(rd, num)
		val("tx-hashes", "GetTransactionHashesByBlockNumber", s.hashes, hashes, err)
		evs, err := core.GetTransactionEventsByBlockNumber(rd, num)
		val("tx-events", "GetTransactionEventsByBlockNumber", s.events, evs, err)
		// an iterator obtained now and consumed only when the held results are verified
		it := core.GetTransactionsByBlockNumberIter(rd, num)
		lazy("txs-iter", "GetTransactionsByBlockNumberIter (consumed later)", s.txsAll, func() (any, error) {
			var out []core.Transaction
			for tx, err := range it {
				if err != nil {
					return nil, err
				}
				out = append(out, tx)
			}
			return out, nil
		})
		// the whole blob and its lazily decoded slices
		bt, err := core.BlockTransactionsBucket.Get(rd, num)
		if err != nil {
			bad("blob-get", "%sBlockTransactionsBucket.Get: %v", pre, err)
		}
		dataWas := hex.EncodeToString(bt.Data)
		lazy("blob-get", "BlockTransactionsBucket.Get → Data", canon(dataWas), func() (any, error) { return hex.EncodeToString(bt.Data), nil })
		ltx, lrc := bt.Transactions(), bt.Receipts()
		lazy("blob-get", "BlockTransactionsBucket.Get → Transactions().All()", s.txsAll, func() (any, error) { return ltx.All() })
		lazy("blob-get", "BlockTransactionsBucket.Get → Receipts().Iter()", s.rcsAll, func() (any, error) {
			var out []*core.TransactionReceipt
			for r, err := range lrc.Iter() {
				if err != nil {
					return nil, err
				}
				out = append(out, r)
			}
			return out, nil
		})
		if len(b.txs) > 0 {
			i := at % len(b.txs)
			tx, err := core.GetTransactionByBlockAndIndex(rd, num, uint64(i))
			val("tx-by-index", fmt.Sprintf("GetTransactionByBlockAndIndex(%d)", i), s.txs[i], tx, err)
			rc, err := core.GetReceiptByBlockAndIndex(rd, num, uint64(i))
			val("receipt-by-index", fmt.Sprintf("GetReceiptByBlockAndIndex(%d)", i), s.rcs[i], rc, err)
			tx2, rc2, err := core.GetTransactionAndReceiptByBlockAndIndex(rd, num, uint64(i))
			val("tx+receipt-by-index", fmt.Sprintf("GetTransactionAndReceiptByBlockAndIndex(%d) tx", i), s.txs[i], tx2, err)
			val("tx+receipt-by-index", fmt.Sprintf("GetTransactionAndReceiptByBlockAndIndex(%d) receipt", i), s.rcs[i], rc2, err)
			tx3, err := core.GetTransactionByHash(rd, (*felt.TransactionHash)(b.txs[i].Hash()))
			val("tx-by-hash", fmt.Sprintf("GetTransactionByHash(#%d)", i), s.txs[i], tx3, err)
			ltxi, err := ltx.Get(i)
			val("blob-get", fmt.Sprintf("BlockTransactionsBucket.Get → Transactions().Get(%d)", i), s.txs[i], ltxi, err)
		}
		h, err := core.GetBlockHeaderByNumber(rd, num)
		val("header-by-number", "GetBlockHeaderByNumber", s.h, h, err)
		h2, err := core.GetBlockHeaderByHash(rd, b.h.Hash)
		val("header-by-hash", "GetBlockHeaderByHash", s.h, h2, err)
		hh, err := core.GetBlockHeaderHashByNumber(rd, num)
		val("partial-header-hash", "GetBlockHeaderHashByNumber", s.hash, hh, err)
		root, err := core.GetGlobalStateRootByBlockNumber(rd, num)
		val("partial-header-root", "GetGlobalStateRootByBlockNumber", s.root, root, err)
		bloom, err := core.GetBlockHeaderEventsBloomByNumber(rd, num)
		val("partial-header-bloom", "GetBlockHeaderEventsBloomByNumber", s.bloom, bloom, err)
		su, err := core.GetStateUpdateByBlockNum(rd, num)
		val("state-update-by-number", "GetStateUpdateByBlockNum", s.su, su, err)
		cm, err := core.GetBlockCommitmentByBlockNum(rd, num)
		val("commitments", "GetBlockCommitmentByBlockNum", s.cm, cm, err)
		if b.cls != nil {
			d, err := core.GetClass(rd, &b.cls.hash)
			if err != nil {
				bad("class-roundtrip", "%sGetClass(%s): %v", pre, b.cls.hash.ShortString(), err)
			}
			val("class-roundtrip", "GetClass", b.cls.want, classView(d.At, d.Class), nil)
		}
	})
	return hs, v
}

// ---------------------------------------------------------------------------------------------------------------------
// scripts

type opKind int

const (
	opBuild   opKind = iota // build the forms of blocks[0]
	opWrite                 // write blocks (in this order) through writer `mode`
	opReplace               // replace the block blocks[0].replaces by blocks[0] in one batch
	opRead                  // full read-back of blocks[0] through reader `mode`, results kept
	opScan                  // prefix scan over the transactions bucket, entries collected and then verified
	opChurn                 // build a blob of blocks[0] and drop it
	opVerify                // re-verify every kept result
	opYield                 // runtime.Gosched()
	opFlush                 // Pebble: flush the memtable
	opReopen                // Pebble: close and reopen the database (sequential scripts only)
)

const (
	wOneBatch     = iota // one batch for the whole group
	wBatchEach           // one batch per block: all filled first, committed afterwards in reverse order
	wStore               // straight to the store
	wIndexedBatch        // one indexed batch, read through (results kept) before its commit
	wHelperWrite         // KeyValueStore.Write(func(batch))
	nWriteModes
)

var writeModeNames = []string{"one-batch", "batch-each-commit-later", "store", "indexed-batch-read-through", "helper-write"}

const (
	rStore = iota
	rSnapshot
	nReadModes
)

type op struct {
	kind   opKind
	blocks []*blk
	f      forms
	mode   int
	at     int
	full   bool
}

// store is the one database all runners of a case share; reopen replaces the handle (sequential scripts only).
type store struct {
	kv     db.KeyValueStore
	path   string // "" = memory
	closed bool
}

// quietPebble drops Pebble's informational log lines (WAL replay reports on every reopen).
type quietPebble struct{}

func (quietPebble) Infof(string, ...any)  {}
func (quietPebble) Errorf(string, ...any) {}
func (quietPebble) Fatalf(format string, args ...any) {
	stats.HarnessError("pebble: "+format, args...)
}

func openStore(rt *rapid.T, c *stats.Case, pebbleShare int) (*store, func()) {
	if gen.Uniform(rt, 100, "pebble") >= pebbleShare {
		s := &store{kv: memory.New()}
		return s, func() { _ = s.kv.Close() }
	}
	dir := scratch()
	s := &store{path: filepath.Join(dir, "db")}
	p, err := pebblev2.New(s.path, pebblev2.WithLogger(quietPebble{}))
	if err != nil {
		stats.HarnessError("pebble: %v", err)
	}
	s.kv = p
	c.Label("pebble")
	return s, func() {
		if !s.closed {
			_ = s.kv.Close()
		}
		_ = os.RemoveAll(dir)
	}
}

func (s *store) flush() {
	if p, ok := s.kv.Impl().(*pebble.DB); ok {
		if err := p.Flush(); err != nil {
			stats.HarnessError("pebble flush: %v", err)
		}
	}
}

func (s *store) reopen() {
	if s.path == "" {
		return
	}
	if err := s.kv.Close(); err != nil {
		stats.HarnessError("pebble close: %v", err)
	}
	p, err := pebblev2.New(s.path, pebblev2.WithLogger(quietPebble{}))
	if err != nil {
		stats.HarnessError("pebble reopen: %v", err)
	}
	s.kv = p
}

// runner executes one script; it never touches the rapid.T (so that it can run on its own goroutine).
type runner struct {
	st     *store
	net    *networks.Network
	blocks []*blk
	ops    []op
	held   []held
	builts []*blk
	// statistics
	overlapBuilt  bool // a form was built while another block's built form was still waiting for its write
	heldOverWrite bool // a kept result was re-verified after a later write
	writes        int
	step          int
}

func (r *runner) verifyHeld(when string) *vio {
	for _, h := range r.held {
		if r.writes > h.w {
			r.heldOverWrite = true
		}
		got, err := h.get()
		if s, ok := got.(string); ok && !h.lazy && err == nil && s == h.want.(string) {
			continue
		}
		if err != nil || !h.lazy || !eq(got, h.want) {
			return &vio{"held-result-changed", fmt.Sprintf("%s [%s]: the result kept by the caller does not equal what was stored (%s): now %s (%v), stored %s",
				h.what, h.key, when, show(got), err, show(h.want))}
		}
	}
	return nil
}

// verifyAll is the end-of-case check: every live block through every accessor, every kept result, every built value,
// every input.
func (r *runner) verifyAll() *vio {
	for _, b := range r.blocks {
		if b.dead || !b.written {
			continue
		}
		if v := checkRec(r.st.kv, b.rec, r.net); v != nil {
			return v
		}
		if b.cls != nil {
			if d, err := core.GetClass(r.st.kv, &b.cls.hash); err != nil || !eq(classView(d.At, d.Class), b.cls.want) {
				return &vio{"class-roundtrip", fmt.Sprintf("block %d: class %s read back as %s (%v)", b.h.Number, b.cls.hash.ShortString(), show(d), err)}
			}
		}
	}
	if v := r.verifyHeld("end of the case"); v != nil {
		return v
	}
	for _, b := range r.builts {
		if v := b.b.unchanged(b.h.Number, "end of the case"); v != nil {
			return v
		}
	}
	for _, b := range r.blocks {
		if !eq(b.txs, b.s.txsAll) || !eq(b.rcs, b.s.rcsAll) || !eq(b.h, b.s.h) || !eq(b.su, b.s.su) || !eq(b.cm, b.s.cm) {
			return &vio{"input-changed", fmt.Sprintf("block %d: the values passed to the writers were modified", b.h.Number)}
		}
	}
	return nil
}

func (r *runner) run() (v *vio) {
	for i, o := range r.ops {
		r.step = i
		if v := r.exec(o); v != nil {
			v.msg = fmt.Sprintf("step %d/%d: %s", i+1, len(r.ops), v.msg)
			return v
		}
	}
	return nil
}

func (r *runner) pendingBuilt() int {
	n := 0
	for _, b := range r.builts {
		if !b.written {
			n++
		}
	}
	return n
}

// readThrough reads block b through rd: every result is compared with the originals right away and kept; full = also the
// complete accessor sweep of checkRec (per-transaction reads, partial decoders, hashes of the read-back values).
func (r *runner) readThrough(rd db.KeyValueReader, b *blk, at int, via string, full, outOfRange bool) *vio {
	if full {
		if v := checkRecProbing(rd, b.rec, r.net, outOfRange); v != nil {
			v.msg = "read via " + via + ": " + v.msg
			return v
		}
	}
	hs, v := keep(rd, b, at, via)
	for i := range hs {
		hs[i].w = r.writes
	}
	r.held = append(r.held, hs...)
	return v
}

func (r *runner) exec(o op) *vio {
	kv := r.st.kv
	werr := func(err error, what string) *vio {
		if err != nil {
			return &vio{"write-failed", fmt.Sprintf("%s: %v", what, err)}
		}
		return nil
	}
	switch o.kind {
	case opYield:
		runtime.Gosched()
	case opFlush:
		r.st.flush()
	case opReopen:
		r.st.reopen()
	case opVerify:
		return r.verifyHeld(fmt.Sprintf("checkpoint at step %d", r.step+1))
	case opChurn:
		b := o.blocks[0]
		if o.mode == 0 {
			if _, err := core.NewBlockTransactions(b.txs, b.rcs); err != nil {
				return &vio{"build-failed", err.Error()}
			}
		} else if _, err := encoder.Marshal(b.h); err != nil {
			return &vio{"build-failed", err.Error()}
		}
	case opBuild:
		b := o.blocks[0]
		if o.f.prebuilt() {
			if r.pendingBuilt() > 0 {
				r.overlapBuilt = true
			}
			if v := build(b, o.f); v != nil {
				return v
			}
			r.builts = append(r.builts, b)
		}
	case opRead:
		b := o.blocks[0]
		if o.mode == rSnapshot {
			sn := kv.NewSnapshot()
			// a decoder failing inside a Pebble snapshot's Get leaks a reference (see known_test.go): no out-of-range probes there
			v := r.readThrough(sn, b, o.at, "snapshot", o.full, !(r.st.path != "" && stats.Known(kfSnapshotGetLeak)))
			if err := sn.Close(); err != nil {
				stats.HarnessError("snapshot close: %v", err)
			}
			return v
		}
		return r.readThrough(kv, b, o.at, "store", o.full, true)
	case opScan:
		type entry struct {
			key []byte
			bt  core.BlockTransactions
		}
		var got []entry
		for e, err := range core.BlockTransactionsBucket.Prefix().Scan(kv) {
			if err != nil {
				return &vio{"read-failed", fmt.Sprintf("scan of the transactions bucket: %v", err)}
			}
			got = append(got, entry{e.Key, e.Value})
		}
		// the scan sees the blocks of all runners: verify the entries of this runner's live blocks, collected above and
		// decoded only now that the iterator is closed
		byKey := map[string]*blk{}
		for _, b := range r.blocks {
			if b.written && !b.dead {
				byKey[string(core.BlockTransactionsBucket.Key(cborUint(b.h.Number)))] = b
			}
		}
		seen := 0
		for _, e := range got {
			b := byKey[string(e.key)]
			if b == nil {
				continue
			}
			seen++
			txs, err := e.bt.Transactions().All()
			if err != nil || !eq(txs, b.s.txsAll) {
				return &vio{"scan-entry", fmt.Sprintf("block %d: entry collected by a prefix scan decodes to transactions %s (%v), stored %s", b.h.Number, show(txs), err, show(b.txs))}
			}
			rcs, err := e.bt.Receipts().All()
			if err != nil || !eq(rcs, b.s.rcsAll) {
				return &vio{"scan-entry", fmt.Sprintf("block %d: entry collected by a prefix scan decodes to receipts %s (%v), stored %s", b.h.Number, show(rcs), err, show(b.rcs))}
			}
			bt := e.bt
			r.held = append(r.held, held{"scan-entry", fmt.Sprintf("block %d via prefix scan: Receipts().All()", b.h.Number), b.s.rcsAll, func() (any, error) { return bt.Receipts().All() }, true, r.writes})
		}
		if seen != len(byKey) {
			return &vio{"scan-entry", fmt.Sprintf("prefix scan of the transactions bucket yielded %d of this writer's %d live blocks", seen, len(byKey))}
		}
	case opReplace:
		nb := o.blocks[0]
		old := nb.replaces
		batch := kv.NewBatch()
		if v := werr(unwriteBlk(kv, batch, old), fmt.Sprintf("removing block %d", old.h.Number)); v != nil {
			return v
		}
		if v := werr(writeBlk(batch, nb), fmt.Sprintf("writing the replacement of block %d", nb.h.Number)); v != nil {
			return v
		}
		if v := werr(batch.Write(), "commit"); v != nil {
			return v
		}
		_ = batch.Close()
		old.dead, nb.written = true, true
		r.writes++
		for i, tx := range old.txs {
			if _, err := core.GetTransactionByHash(kv, (*felt.TransactionHash)(tx.Hash())); !errIsNotFound(err) {
				return &vio{"replaced-block-still-readable", fmt.Sprintf("block %d was replaced, its transaction %d is still found by hash (%v)", old.h.Number, i, err)}
			}
		}
	case opWrite:
		done := func() {
			for _, b := range o.blocks {
				b.written = true
			}
			r.writes++
		}
		switch o.mode {
		case wStore:
			for _, b := range o.blocks {
				if v := werr(writeBlk(kv, b), fmt.Sprintf("writing block %d to the store", b.h.Number)); v != nil {
					return v
				}
			}
			done()
		case wHelperWrite:
			err := kv.Write(func(w db.Batch) error {
				for _, b := range o.blocks {
					if err := writeBlk(w, b); err != nil {
						return err
					}
				}
				return nil
			})
			if v := werr(err, "Write(func(batch))"); v != nil {
				return v
			}
			done()
		case wOneBatch:
			batch := kv.NewBatch()
			for _, b := range o.blocks {
				if v := werr(writeBlk(batch, b), fmt.Sprintf("writing block %d to a batch", b.h.Number)); v != nil {
					return v
				}
			}
			if v := werr(batch.Write(), "commit"); v != nil {
				return v
			}
			_ = batch.Close()
			done()
		case wBatchEach:
			batches := make([]db.Batch, len(o.blocks))
			for i, b := range o.blocks {
				batches[i] = kv.NewBatch()
				if v := werr(writeBlk(batches[i], b), fmt.Sprintf("writing block %d to its batch", b.h.Number)); v != nil {
					return v
				}
			}
			for i := len(batches) - 1; i >= 0; i-- {
				if v := werr(batches[i].Write(), "commit"); v != nil {
					return v
				}
			}
			for _, b := range batches {
				_ = b.Close()
			}
			done()
		case wIndexedBatch:
			batch := kv.NewIndexedBatch()
			for _, b := range o.blocks {
				if v := werr(writeBlk(batch, b), fmt.Sprintf("writing block %d to an indexed batch", b.h.Number)); v != nil {
					return v
				}
			}
			for _, b := range o.blocks {
				if v := r.readThrough(batch, b, o.at, "uncommitted indexed batch", o.full, true); v != nil {
					return v
				}
			}
			if v := werr(batch.Write(), "commit"); v != nil {
				return v
			}
			_ = batch.Close()
			done()
		}
	}
	return nil
}

// cborUint is the canonical CBOR encoding of n (the key codec of the transactions bucket).
func cborUint(n uint64) []byte {
	b, err := encoder.Marshal(n)
	if err != nil {
		stats.HarnessError("cbor key: %v", err)
	}
	return b
}

// lifetimeSizes: transaction counts of the blocks of a script. Sizes differ a lot inside one case on purpose: a reused
// buffer is only overwritten in place by a value that fits into it.
func lifetimeSizes(concurrent bool) []int {
	if concurrent && !stats.Thorough() {
		return []int{0, 1, 1, 2, 2, 3, 5, 8} // the race detector makes every comparison ~8x dearer
	}
	if stats.Thorough() {
		return []int{0, 1, 1, 2, 2, 3, 3, 5, 5, 8, 12, 12, 20, 40, 257}
	}
	return []int{0, 1, 1, 2, 2, 3, 3, 5, 5, 8, 12, 20}
}

func drawForms(rt *rapid.T) forms {
	f := forms{txs: []int{formDirect, formBlob, formBlob, formBlob, formBlobIter, formBytes}[gen.Uniform(rt, 6, "txsForm")]}
	f.hdr = rapid.IntRange(0, 2).Draw(rt, "hdrAhead") == 0
	f.su = rapid.IntRange(0, 2).Draw(rt, "suAhead") == 0
	f.cm = rapid.IntRange(0, 3).Draw(rt, "cmAhead") == 0
	f.cls = rapid.Bool().Draw(rt, "clsAhead")
	return f
}

// drawScript draws the blocks of one runner (numbers taken from nums, which is consumed) and its script.
func drawScript(rt *rapid.T, c *stats.Case, u *gen.Universe, ch *gen.Chain, st *store, nums *[]uint64, classes *[]*clsDecl, nblocks int, concurrent bool, tag string) *runner {
	r := &runner{st: st, net: u.Net}
	take := func() uint64 {
		n := (*nums)[0]
		*nums = (*nums)[1:]
		return n
	}
	newBlk := func(num uint64) *blk {
		rc := drawRec(rt, c, u, ch, num, lifetimeSizes(concurrent), false)
		b := &blk{rec: rc, s: takeSnap(rc)}
		if len(*classes) > 0 && rapid.IntRange(0, 2).Draw(rt, "declares") == 0 {
			b.cls = (*classes)[0]
			*classes = (*classes)[1:]
			b.cls.want = canon(classView(num, b.cls.def))
			c.Labelf("%sdeclares-%T", tag, b.cls.def)
		}
		r.blocks = append(r.blocks, b)
		return b
	}
	for i := 0; i < nblocks; i++ {
		newBlk(take())
	}
	add := func(o op) { r.ops = append(r.ops, o) }
	yield := func() {
		if concurrent && rapid.Bool().Draw(rt, "yield") {
			add(op{kind: opYield})
		}
	}
	unwritten := rapid.Permutation(slices.Clone(r.blocks)).Draw(rt, "order")
	var written []*blk
	drawRead := func(b *blk) {
		mode := rStore
		if rapid.IntRange(0, 3).Draw(rt, "snapshotRead") == 0 {
			mode = rSnapshot
			if st.path != "" && stats.Known(kfSnapshotGetLeak) {
				c.Excluded(kfSnapshotGetLeak)
			}
		}
		add(op{kind: opRead, blocks: []*blk{b}, mode: mode, at: rapid.IntRange(0, 1000).Draw(rt, "at"), full: rapid.IntRange(0, 4).Draw(rt, "fullSweep") == 0})
	}
	between := func() {
		for x := rapid.IntRange(0, 2).Draw(rt, "between"); x > 0; x-- {
			switch gen.Uniform(rt, 4, "betweenKind") {
			case 0: // an ordinary one-call write of another block while built values wait
				if len(unwritten) > 0 {
					b := unwritten[0]
					unwritten = unwritten[1:]
					add(op{kind: opWrite, blocks: []*blk{b}, mode: rapid.SampledFrom([]int{wStore, wOneBatch, wHelperWrite}).Draw(rt, "directMode")})
					written = append(written, b)
					c.Label(tag + "ordinary-write-while-built-values-wait")
				}
			case 1:
				if len(written) > 0 {
					drawRead(rapid.SampledFrom(written).Draw(rt, "readWhich"))
				}
			case 2:
				add(op{kind: opChurn, blocks: []*blk{rapid.SampledFrom(r.blocks).Draw(rt, "churnWhich")}, mode: rapid.IntRange(0, 1).Draw(rt, "churnKind")})
			case 3:
				yield()
			}
		}
	}
	for len(unwritten) > 0 {
		g := 1 + gen.Uniform(rt, min(4, len(unwritten)), "group")
		group := unwritten[:g]
		unwritten = unwritten[g:]
		nPre := 0
		for _, b := range group {
			f := drawForms(rt)
			f.cls = f.cls && b.cls != nil
			if f.prebuilt() {
				nPre++
				c.Label(tag + "form:" + formNames[f.txs])
				if f.hdr || f.su || f.cm {
					c.Label(tag + "form:pre-encoded-header/state-update/commitments")
				}
				if f.cls && b.cls != nil {
					c.Label(tag + "form:pre-encoded-class-declaration")
				}
			}
			add(op{kind: opBuild, blocks: []*blk{b}, f: f})
			yield()
		}
		if nPre >= 2 {
			c.Label(tag + "group-with->=2-values-built-before-the-first-write")
		}
		between()
		mode := gen.Uniform(rt, nWriteModes, "writeMode")
		c.Label(tag + "write:" + writeModeNames[mode])
		order := rapid.Permutation(slices.Clone(group)).Draw(rt, "writeOrder")
		if !slices.Equal(order, group) {
			c.Label(tag + "written-in-another-order-than-built")
		}
		add(op{kind: opWrite, blocks: order, mode: mode, at: rapid.IntRange(0, 1000).Draw(rt, "at"), full: rapid.IntRange(0, 4).Draw(rt, "fullSweep") == 0})
		written = append(written, group...)
		yield()
		for x := rapid.IntRange(0, 2).Draw(rt, "reads"); x > 0; x-- {
			drawRead(rapid.SampledFrom(written).Draw(rt, "readWhich"))
		}
		if rapid.IntRange(0, 4).Draw(rt, "scan") == 0 {
			add(op{kind: opScan})
			c.Label(tag + "prefix-scan")
		}
		if st.path != "" {
			switch gen.Uniform(rt, 6, "pebbleOp") {
			case 0, 1:
				add(op{kind: opFlush})
				c.Label(tag + "pebble-flush")
			case 2:
				if !concurrent {
					add(op{kind: opReopen})
					c.Label(tag + "pebble-reopen-while-results-are-held")
				}
			}
		}
		if rapid.IntRange(0, 2).Draw(rt, "checkpoint") == 0 {
			add(op{kind: opVerify})
		}
	}
	// reorg: replace some written blocks while results of the old ones are held
	if rapid.IntRange(0, 2).Draw(rt, "replace") == 0 {
		for x := rapid.IntRange(1, 2).Draw(rt, "nReplace"); x > 0; x-- {
			var live []*blk
			for _, b := range written {
				if !b.dead && b.replaces == nil && !slices.ContainsFunc(r.blocks, func(o *blk) bool { return o.replaces == b }) {
					live = append(live, b)
				}
			}
			if len(live) == 0 {
				break
			}
			old := rapid.SampledFrom(live).Draw(rt, "replaceWhich")
			drawRead(old)
			nb := newBlk(old.h.Number)
			nb.replaces = old
			nf := drawForms(rt)
			nf.cls = nf.cls && nb.cls != nil
			add(op{kind: opBuild, blocks: []*blk{nb}, f: nf})
			yield()
			add(op{kind: opReplace, blocks: []*blk{nb}})
			drawRead(nb)
			c.Label(tag + "block-replaced-while-results-of-the-old-one-are-held")
		}
	}
	return r
}

// numbers draws n distinct block numbers: CBOR width boundaries of the key codec and ordinary heights.
func numbers(rt *rapid.T, n int) []uint64 {
	used := map[uint64]bool{}
	var out []uint64
	for len(out) < n {
		num := rapid.SampledFrom(sparseNumbers).Draw(rt, "num")
		if used[num] || rapid.Bool().Draw(rt, "ordinaryHeight") {
			num = uint64(rapid.IntRange(0, 100000).Draw(rt, "num2"))
		}
		for used[num] {
			num++
		}
		used[num] = true
		out = append(out, num)
	}
	return out
}

func (r *runner) classify(c *stats.Case) {
	if r.overlapBuilt {
		c.NonTrivial("values-built-ahead-overlap-in-lifetime")
	}
	if r.heldOverWrite {
		c.NonTrivial("kept-result-outlived-a-later-write")
	}
}

func (r *runner) sample() any {
	var ops []string
	for _, o := range r.ops {
		var nums []uint64
		for _, b := range o.blocks {
			nums = append(nums, b.h.Number)
		}
		switch o.kind {
		case opBuild:
			ops = append(ops, fmt.Sprintf("build %v txs=%s hdr=%v su=%v cm=%v cls=%v (%d txs, class %v)", nums, formNames[o.f.txs], o.f.hdr, o.f.su, o.f.cm, o.f.cls, len(o.blocks[0].txs), o.blocks[0].cls != nil))
		case opWrite:
			ops = append(ops, fmt.Sprintf("write %v via %s", nums, writeModeNames[o.mode]))
		case opReplace:
			ops = append(ops, fmt.Sprintf("replace %v", nums))
		case opRead:
			ops = append(ops, fmt.Sprintf("read+keep %v (reader %d)", nums, o.mode))
		case opScan:
			ops = append(ops, "scan")
		case opChurn:
			ops = append(ops, fmt.Sprintf("encode-and-drop %v", nums))
		case opVerify:
			ops = append(ops, "verify-kept")
		case opYield:
			ops = append(ops, "yield")
		case opFlush:
			ops = append(ops, "flush")
		case opReopen:
			ops = append(ops, "reopen")
		}
	}
	return ops
}

func (r *runner) fp(c *stats.Case, tag string) {
	for _, o := range r.ops {
		c.Fp("%s%d", tag, o.kind)
		for _, b := range o.blocks {
			c.Fp("%d", b.h.Number)
		}
		c.Fp("%v%d", o.f, o.mode)
	}
}

func bucketN(n int) string {
	switch {
	case n == 0:
		return "0"
	case n <= 20:
		return "1-20"
	case n <= 60:
		return "21-60"
	case n <= 150:
		return "61-150"
	}
	return ">150"
}

// TestPropOverlappingLifetimes: see the comment at the top of this file (sequential scripts).
func TestPropOverlappingLifetimes(t *testing.T) {
	stats.Check(t, stats.Budget{Quick: 250, Thorough: 5000},
		"a script over 2-6 (thorough 2-10) blocks of 0-20 (thorough 0-257) transactions on ONE store (memory, 35% Pebble v2): groups of 1-4 blocks whose encodable forms "+
			"(NewBlockTransactions / …FromIterators / BlockTransactionsSerializer.Marshal, encoder.Marshal of header, state update, commitments; drawn per record family, or "+
			"none = the accessor encodes at write time) are all built first and then written in a drawn order through a drawn writer (one batch, one batch per block committed "+
			"later in reverse order, the store itself, an indexed batch read through before its commit, Helper.Write), with ordinary writes of other blocks, reads and throw-away "+
			"encodes between build and write; after each group reads through the store or a snapshot (closed afterwards), prefix scans, Pebble flushes / reopenings; blocks "+
			"replaced at the same height; EVERY read result (decoded values, lazy slices, unconsumed iterators, raw blobs) is kept and re-verified at checkpoints and at the end; "+
			"oracles: accessor round trip against the originals, kept results / built values unchanged, inputs unchanged; non-trivial = a form was built while another built form "+
			"was still waiting for its write, or a kept result was re-verified after a later write",
		func(rt *rapid.T, c *stats.Case) {
			u := gen.NewUniverse(rt)
			ch := gen.NewChain(u, gen.Opts{MaxTxs: 4})
			st, closeStore := openStore(rt, c, 35)
			defer closeStore()
			nblocks := rapid.IntRange(2, stats.Pick(6, 10)).Draw(rt, "nblocks")
			nums := numbers(rt, nblocks)
			r := drawScript(rt, c, u, ch, st, &nums, classPool(rt, u), nblocks, false, "")
			r.fp(c, "")
			c.Sample(r.sample)
			v := r.run()
			if v == nil {
				v = r.verifyAll()
			}
			v.report(c)
			r.classify(c)
			c.Label("kept-results=" + bucketN(len(r.held)))
			c.Labelf("blocks=%d", len(r.blocks))
		})
}

// TestRaceConcurrentBlocks: the same scripts, 2..4 of them at once on ONE store (disjoint block numbers), as the sync
// pipeline and the RPC readers use one database concurrently. Every goroutine verifies its own round trips and kept
// results: the oracle does not depend on the schedule. Runs under the race detector.
func TestRaceConcurrentBlocks(t *testing.T) {
	// fewer Ps than goroutines: they run in parallel and also take turns on one P (where per-P pools hand the same buffer on)
	defer runtime.GOMAXPROCS(runtime.GOMAXPROCS(2))
	stats.Check(t, stats.Budget{Quick: 24, Thorough: 1500},
		"2-4 goroutines (2 Ps, -race) on ONE store (memory, 40% Pebble v2), each running its own script (as TestPropOverlappingLifetimes, 2-3 (thorough 2-4) blocks of 0-8 (thorough 0-257) transactions each, disjoint block "+
			"numbers, drawn yield points between build and write) of builds ahead, writes through its own batches, reads (store, snapshot, uncommitted indexed batch), prefix "+
			"scans and kept results; schedule-independent oracle: every goroutine's own round trips and kept results hold after each of its steps, and everything is verified "+
			"again after the join; plus the race detector; non-trivial = some goroutine built a form while another of its built forms was waiting, or kept a result across a later write",
		func(rt *rapid.T, c *stats.Case) {
			u := gen.NewUniverse(rt)
			ch := gen.NewChain(u, gen.Opts{MaxTxs: 4})
			st, closeStore := openStore(rt, c, 40)
			defer closeStore()
			nG := rapid.IntRange(2, 4).Draw(rt, "goroutines")
			per := make([]int, nG)
			total := 0
			for g := range per {
				per[g] = rapid.IntRange(2, stats.Pick(3, 4)).Draw(rt, "nblocks")
				total += per[g]
			}
			nums := numbers(rt, total+2*nG)
			sort.Slice(nums, func(i, j int) bool { return nums[i] < nums[j] })
			nums = rapid.Permutation(nums).Draw(rt, "numOrder")
			runners := make([]*runner, nG)
			classes := classPool(rt, u)
			for g := range runners {
				runners[g] = drawScript(rt, c, u, ch, st, &nums, classes, per[g], true, "")
				runners[g].fp(c, fmt.Sprintf("g%d:", g))
			}
			c.Labelf("goroutines=%d", nG)
			c.Sample(func() any {
				var out []any
				for _, r := range runners {
					out = append(out, r.sample())
				}
				return out
			})
			fails := make([]*vio, nG)
			var wg sync.WaitGroup
			start := make(chan struct{})
			for g, r := range runners {
				wg.Add(1)
				go func() {
					defer wg.Done()
					<-start
					fails[g] = r.run()
				}()
			}
			close(start)
			wg.Wait()
			held := 0
			for g, r := range runners {
				v := fails[g]
				if v == nil {
					v = r.verifyAll()
				}
				if v != nil {
					v.msg = fmt.Sprintf("goroutine %d of %d: %s", g, nG, v.msg)
				}
				v.report(c)
				r.classify(c)
				held += len(r.held)
			}
			c.Label("kept-results=" + bucketN(held))
		})
}
