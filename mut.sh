#!/bin/bash
# usage: mut.sh <PROP> '<shell command run inside a scratch worktree of /repo, or path to a .diff>' [check args...]
# Applies a mutation to a scratch worktree, shows the diff, runs the check against it, removes the worktree.
set -u
P=$1; CMD=$2; shift 2
W=/var/tmp/mut-$$
git -C /repo worktree add -q --detach $W HEAD || exit 2
if [ -f "$CMD" ]; then (cd $W && git apply --whitespace=nowarn "$CMD"); else (cd $W && bash -c "$CMD"); fi
if git -C $W diff HEAD --quiet; then echo "MUTATION DID NOT CHANGE ANYTHING"; git -C /repo worktree remove --force $W; exit 2; fi
git -C $W diff HEAD | grep '^[+-]' | grep -v '^+++\|^---' | head -20
(cd /verif && VERIF_REPO=$W ./check $P --no-evidence "$@" 2>&1 | tail -5)
git -C /repo worktree remove --force $W
